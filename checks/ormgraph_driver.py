"""Binding of OrmGraph.tla to the real ORM: a declarative P/C mapping per constants, a SQLite *file* engine in the
modern autocommit=False mode with PRAGMA foreign_keys=ON, one Session (autoflush off) and named objects p1.., c1..

`Real` performs one operation and reports (call outcome, projected state); observers read `__dict__`, `inspect()` and the
attribute history only (never trigger a lazy load).  `Driver` replays TLC-generated walks (engine.graph.replay protocol).
Every DML statement the unit of work emits during Flush/CommitReload is captured with `before_cursor_execute`
(parameters included) and normalised to (op, table, pk, fk) for the C31 trace validation (TraceUow.tla).
"""
import os
import re
import sqlite3
import warnings

_MAPPINGS = {}


def cascade_text(casc):
    """casc: iterable of cascade names of the spec constant -> relationship(cascade=...) text"""
    c = sorted(set(casc))
    if not c:
        return "none"
    return ", ".join(c)


def mapping(casc, nullable=True, uni=False, kind="list"):
    """Declarative classes for the bidirectional one-to-many P.children <-> C.parent with the given cascade on P.children
    (uni: only P.children, no many-to-one side)."""
    key = (cascade_text(casc), nullable, uni, kind)
    if key in _MAPPINGS:
        return _MAPPINGS[key]
    import sqlalchemy as sa
    from sqlalchemy import orm

    class Base(orm.DeclarativeBase):
        pass

    ckw = {}
    if kind == "set":
        ckw["collection_class"] = set
    elif kind == "dict":
        ckw["collection_class"] = orm.attribute_keyed_dict("id")

    class P(Base):
        __tablename__ = "p"
        id = sa.Column(sa.Integer, primary_key=True, autoincrement=False)
        children = orm.relationship("C", cascade=key[0], order_by="C.id", **ckw) if uni else \
            orm.relationship("C", back_populates="parent", cascade=key[0], order_by="C.id", **ckw)

        def __repr__(self):
            return "p%s" % self.__dict__.get("id")

    class C(Base):
        __tablename__ = "c"
        id = sa.Column(sa.Integer, primary_key=True, autoincrement=False)
        pid = sa.Column(sa.Integer, sa.ForeignKey("p.id"), nullable=nullable)
        val = sa.Column(sa.Integer, nullable=False)
        if not uni:
            parent = orm.relationship("P", back_populates="children")

        def __repr__(self):
            return "c%s" % self.__dict__.get("id")

    orm.configure_mappers()
    _MAPPINGS[key] = (Base, P, C)
    return _MAPPINGS[key]


def name(o):
    if o is None:
        return "none"
    return ("p%d" if type(o).__name__ == "P" else "c%d") % o.__dict__["id"]


_DML = re.compile(r"^\s*(INSERT INTO|UPDATE|DELETE FROM)\s+(\w+)", re.I)


class Real:
    def __init__(self, workdir, casc, ps, cs, nullable=True, tag="db", uni=False, kind="list"):
        import sqlalchemy as sa
        from sqlalchemy import event, orm
        from sqlalchemy.pool import NullPool
        self.sa, self.orm = sa, orm
        os.makedirs(workdir, exist_ok=True)
        self.path = os.path.join(workdir, "%s.sqlite" % tag)
        if os.path.exists(self.path):
            os.unlink(self.path)
        self.uni = uni
        self.kind = kind
        self.Base, self.P, self.C = mapping(casc, nullable, uni, kind)
        self.ps, self.cs = list(ps), list(cs)
        self.engine = sa.create_engine("sqlite:///" + self.path, connect_args={"autocommit": False}, poolclass=NullPool)

        @event.listens_for(self.engine, "connect")
        def _fk(dbapi_conn, rec):
            # PRAGMA foreign_keys is a no-op inside a transaction and autocommit=False always has one open
            ac = dbapi_conn.autocommit
            dbapi_conn.autocommit = True
            cur = dbapi_conn.cursor()
            cur.execute("PRAGMA foreign_keys=ON")
            cur.close()
            dbapi_conn.autocommit = ac

        self.stmts = []
        self.nbatch = 0

        @event.listens_for(self.engine, "before_cursor_execute")
        def _bce(conn, cursor, statement, parameters, context, executemany):
            m = _DML.match(statement)
            if not m:
                return
            plist = parameters if executemany else [parameters]
            comp = context.compiled if context is not None else None
            names = list(comp.positiontup) if comp is not None and comp.positiontup else None
            for prm in plist:
                if names is not None and not isinstance(prm, dict):
                    d = dict(zip(names, prm))
                else:
                    d = dict(prm)
                self.stmts.append((m.group(1).split()[0].upper(), m.group(2).lower(), d, self.nbatch))
            self.nbatch += 1

        self.Base.metadata.create_all(self.engine)
        self.session = None
        self.obj = {}

    # ------------------------------------------------------------------ lifecycle of a walk
    def reset(self, dbp=(), dbc=None, dbv=None):
        """start a walk: database = the given rows (spec names), fresh session, every row loaded, other objects new"""
        if self.session is not None:
            try:
                self.session.close()
            except Exception:
                pass
        raw = sqlite3.connect(self.path, isolation_level=None)
        raw.execute("delete from c")
        raw.execute("delete from p")
        for p in dbp:
            raw.execute("insert into p (id) values (?)", (int(p[1:]),))
        for c, v in (dbc or {}).items():
            if v != "absent":
                raw.execute("insert into c (id, pid, val) values (?, ?, ?)",
                            (int(c[1:]), None if v == "none" else int(v[1:]), int((dbv or {}).get(c, "v0")[1:])))
        raw.close()
        self.obj = {}
        self._fresh_session()
        self.stmts = []

    def newobj(self, n):
        """new objects have both relationship attributes initialised (no unloaded attribute ever exists in a walk)"""
        if n[0] == "p":
            return self.P(id=int(n[1:]), children=self.mkcoll([]))
        return self.C(id=int(n[1:]), val=0) if self.uni else self.C(id=int(n[1:]), parent=None, val=0)

    def mkcoll(self, members):
        """a plain collection of the mapped kind holding the given child objects"""
        if self.kind == "set":
            return set(members)
        if self.kind == "dict":
            return {m.__dict__["id"]: m for m in members}
        return list(members)

    def members(self, coll):
        """members of an instrumented collection as names: list / dict in their own order, set sorted"""
        if coll is None:
            return []
        if self.kind == "dict":
            bad = [k for k, v in coll.items() if v.__dict__["id"] != k]
            return [name(v) for v in coll.values()] + ["BADKEY%s" % k for k in bad]
        if self.kind == "set":
            return sorted(name(x) for x in coll)
        return [name(x) for x in coll]

    def mutate(self, a, arg):
        """the M* actions: one Python mutator call of the collection kind, named by the last argument"""
        o = self.obj
        coll = o[arg[0]].children
        if a == "MPop":
            return coll.popitem() if self.kind == "dict" else coll.pop()
        if a == "MClear":
            return coll.clear()
        c = o[arg[1]]
        k = c.__dict__["id"]
        how = arg[2]
        if self.kind == "set":
            p = o[arg[0]]
            if how == "add":
                return coll.add(c)
            if how == "update":
                return coll.update([c])
            if how == "ior":
                p.children |= {c}
                return
            if how == "remove":
                return coll.remove(c)
            if how == "discard":
                return coll.discard(c)
            if how == "isub":
                p.children -= {c}
                return
        elif self.kind == "dict":
            if how == "setitem":
                coll[k] = c
                return
            if how == "setdefault":
                return coll.setdefault(k, c)
            if how == "update":
                return coll.update({k: c})
            if how == "delitem":
                del coll[k]
                return
            if how == "pop":
                return coll.pop(k)
            if how == "popdefault":
                return coll.pop(k, None)
        else:
            if how == "append":
                return coll.append(c)
            if how == "remove":
                return coll.remove(c)
        raise ValueError("no mutator %r for kind %r" % (how, self.kind))

    def fk_enforced(self):
        with self.engine.connect() as conn:
            return conn.exec_driver_sql("PRAGMA foreign_keys").scalar() == 1

    def close(self):
        try:
            if self.session is not None:
                self.session.close()
            self.engine.dispose()
        except Exception:
            pass

    # ------------------------------------------------------------------ operations
    def _call(self, fn):
        with warnings.catch_warnings(record=True) as w:
            warnings.simplefilter("always")
            try:
                fn()
                ret = "ok"
            except Exception as e:
                ret = type(e).__name__
        if any(issubclass(x.category, self.sa.exc.SAWarning) for x in w):
            ret += "+warn"
        self.warnings = [str(x.message) for x in w]
        return ret

    def do(self, a, arg):
        o = self.obj
        s = self.session
        self.stmts = []
        if a == "Add":
            return self._call(lambda: s.add(o[arg[0]]))
        if a == "Delete":
            return self._call(lambda: s.delete(o[arg[0]]))
        if a == "Expunge":
            return self._call(lambda: s.expunge(o[arg[0]]))
        if a == "Append":
            return self._call(lambda: o[arg[0]].children.append(o[arg[1]]))
        if a == "Remove":
            return self._call(lambda: o[arg[0]].children.remove(o[arg[1]]))
        if a == "Insert":
            return self._call(lambda: o[arg[0]].children.insert(int(arg[1]), o[arg[2]]))
        if a == "Pop":
            return self._call(lambda: o[arg[0]].children.pop(int(arg[1])))
        if a == "Replace":
            return self._call(lambda: setattr(o[arg[0]], "children", self.mkcoll([o[x] for x in arg[1:]])))
        if a in ("MAdd", "MRem", "MPop", "MClear", "MNoop"):
            return self._call(lambda: self.mutate(a, arg))
        if a == "SetItem":
            return self._call(lambda: o[arg[0]].children.__setitem__(int(arg[1]), o[arg[2]]))
        if a == "Reverse":
            def rev():
                lst = o[arg[0]].children
                lst[::-1] = list(lst)
            return self._call(rev)
        if a == "SetParent":
            return self._call(lambda: setattr(o[arg[0]], "parent", None if arg[1] == "none" else o[arg[1]]))
        if a == "SetVal":
            return self._call(lambda: setattr(o[arg[0]], "val", int(arg[1][1:])))
        if a == "Flush":
            return self._call(s.flush)
        if a == "CommitReload":
            return self._call(self._commit_reload)
        raise ValueError("unknown action %r" % (a,))

    def _commit_reload(self):
        s = self.session
        s.commit()
        s.close()
        self._fresh_session()

    def _fresh_session(self):
        self.session = s = self.orm.Session(self.engine, autoflush=False)
        P, C = self.P, self.C
        sa = self.sa
        loadedp = {("p%d" % p.id): p for p in s.scalars(sa.select(P).order_by(P.id))}
        loadedc = {("c%d" % c.id): c for c in s.scalars(sa.select(C).order_by(C.id))}
        for p in loadedp.values():
            p.children  # lazy load, ordered by C.id (relationship order_by)
        for c in loadedc.values():
            if not self.uni:
                c.parent    # from the identity map (all parents are loaded)
        for n in self.ps:
            self.obj[n] = loadedp.get(n) or self.newobj(n)
        for n in self.cs:
            self.obj[n] = loadedc.get(n) or self.newobj(n)

    # ------------------------------------------------------------------ observers (no loads)
    def life(self, obj):
        i = self.sa.inspect(obj)
        for k in ("transient", "pending", "persistent", "deleted", "detached"):
            if getattr(i, k):
                return k
        return "?"

    def observe(self, rows=False):
        sa = self.sa
        out = {"life": {}, "children": {}, "parent": {}, "pid": {}, "val": {}, "marked": [], "hist": {}}
        sess = self.session
        deleted = set(id(x) for x in sess.deleted)
        for n, ob in self.obj.items():
            out["life"][n] = self.life(ob)
            if id(ob) in deleted:
                out["marked"].append(n)
            ins = sa.inspect(ob)
            if n[0] == "p":
                coll = ob.__dict__.get("children")
                out["children"][n] = self.members(coll)
                h = ins.attrs.children.history
            else:
                out["parent"][n] = name(ob.__dict__.get("parent"))
                v = ob.__dict__.get("pid")
                out["pid"][n] = "none" if v is None else "p%d" % v
                h = ins.attrs.parent.history if not self.uni else ((), (), ())      # (unidirectional mapping: no such attribute)
                out["val"][n] = "v%s" % ob.__dict__.get("val")
                hv = ins.attrs.val.history
                out["hist"][n + ".val"] = [sorted("v%d" % x for x in (part or ()) if x is not None) for part in hv]
                hp = ins.attrs.pid.history
                out["hist"][n + ".pid"] = [sorted("p%d" % x for x in (part or ()) if x is not None) for part in hp]
            out["hist"][n] = [sorted(set(name(x) for x in (part or ()) if x is not None)) for part in h]
        out["marked"].sort()
        out["mod"] = sorted(n for n, ob in self.obj.items() if sa.inspect(ob).modified)
        out["insess"] = sorted(n for n, ob in self.obj.items() if ob in sess)
        if rows:
            out["rows"] = self.rows()
        return out

    def rows(self):
        """rows as the session's own connection sees them (inside its transaction)"""
        sa = self.sa
        conn = self.session.connection()
        dbp = sorted("p%d" % r[0] for r in conn.execute(sa.text("select id from p")))
        rows = list(conn.execute(sa.text("select id, pid, val from c")))
        dbc = {"c%d" % r[0]: ("none" if r[1] is None else "p%d" % r[1]) for r in rows}
        return {"dbp": dbp, "dbc": dbc, "dbv": {"c%d" % r[0]: "v%d" % r[2] for r in rows}}

    def committed_rows(self):
        raw = sqlite3.connect(self.path, isolation_level=None)
        try:
            dbp = sorted("p%d" % r[0] for r in raw.execute("select id from p"))
            rows = list(raw.execute("select id, pid, val from c"))
            dbc = {"c%d" % r[0]: ("none" if r[1] is None else "p%d" % r[1]) for r in rows}
        finally:
            raw.close()
        return {"dbp": dbp, "dbc": dbc, "dbv": {"c%d" % r[0]: "v%d" % r[2] for r in rows}}

    def dml(self):
        """normalised DML of the last operation: list of [op, table, pk, fk, batch, val] (fk: 'p1' / 'none' / '-' when not written; val 'v0' / '-')"""
        out = []
        for op, table, prm, batch in self.stmts:
            pk = None
            fk = "-"
            val = "-"
            for k, v in prm.items():
                if k in ("id", "%s_id" % table):
                    pk = v
                elif k == "pid":
                    fk = "none" if v is None else "p%d" % v
                elif k == "val":
                    val = "v%s" % v
            out.append([op, table, "%s%s" % (table, pk), fk, batch - self.stmts[0][3], val])
        return out


# ====================================================================== replay driver (engine.graph.replay protocol)
def _sets(h):
    return [sorted(x) for x in h]


class Driver:
    """Replays walks of the OrmGraph state graph against the real ORM.  After EVERY step: call outcome (ok / exception class /
    +warn), lifecycle state of every object, both sides of the relationship and the FK attribute read from __dict__, session.deleted,
    InstanceState.modified, the three attribute histories; after Flush / CommitReload additionally the rows seen through the session's
    own connection and the set of DML statements (with parameters) the unit of work emitted; after CommitReload the committed rows seen
    by a second raw connection."""

    def __init__(self, wid, workdir, casc, ps, cs, nullable=True, trace_sink=None, uni=False, kind="list"):
        self.real = Real(workdir, casc, ps, cs, nullable=nullable, tag="w%d" % wid, uni=uni, kind=kind)
        self.kind = kind
        self.ps, self.cs = list(ps), list(cs)
        self.trace_sink = trace_sink     # list collecting [pre-rows, dml] per flush for C31
        self.calibrated = self.real.fk_enforced()

    def reset(self, state):
        self.real.reset(state["dbp"], state["dbc"], state["dbv"])

    def expected(self, to, obs):
        e = {"life": to["life"], "children": {p: (sorted(to["coll"][p]) if self.kind == "set" else list(to["coll"][p])) for p in self.ps}, "parent": to["parent"], "pid": to["pid"], "val": to["val"],
             "marked": sorted(to["marked"]), "mod": sorted(to["mod"]), "insess": sorted(obs["insess"]), "hist": {}}
        for o in self.ps + self.cs:
            e["hist"][o] = _sets(obs["hist"][o])
        for c in self.cs:
            e["hist"][c + ".pid"] = _sets(obs["pidhist"][c])
            e["hist"][c + ".val"] = _sets(obs["valhist"][c])
        return e

    def step(self, frm, act, to):
        if not self.calibrated:
            return "calibration: PRAGMA foreign_keys is not ON for the engine's connections"
        a = act["a"]
        r = self.real
        pre = None
        if self.trace_sink is not None and a in ("Flush", "CommitReload"):
            pre = {"dbp": sorted(frm["dbp"]), "dbc": dict(frm["dbc"])}
        ret = r.do(a, [str(x) for x in act["arg"]])
        if pre is not None:
            post = None
            if ret.startswith("ok"):
                try:
                    post = r.rows()
                except Exception:
                    post = None
            self.trace_sink.append({"pre": pre, "dml": r.dml(), "ret": ret, "spec_ret": act["ret"], "a": a, "post": post})
        if ret != act["ret"]:
            return "call outcome %r, spec %r (warnings: %s)" % (ret, act["ret"], "; ".join(w[:100] for w in r.warnings))
        if to["dead"]:
            return None
        flushed = a in ("Flush", "CommitReload")
        try:
            got = r.observe(rows=flushed)
        except Exception as e:
            return "observer raised %r" % (e,)
        exp = self.expected(to, act["obs"])
        if flushed:
            exp["rows"] = {"dbp": sorted(to["dbp"]), "dbc": {c: v for c, v in to["dbc"].items() if v != "absent"},
                           "dbv": {c: v for c, v in to["dbv"].items() if v != "absent"}}
        diffs = []
        for k in exp:
            if got.get(k) != exp[k]:
                if isinstance(exp[k], dict):
                    for kk in exp[k]:
                        if got[k].get(kk) != exp[k][kk]:
                            diffs.append("%s[%s]: real %r, spec %r" % (k, kk, got[k].get(kk), exp[k][kk]))
                    for kk in got[k]:
                        if kk not in exp[k]:
                            diffs.append("%s[%s]: real %r, spec -" % (k, kk, got[k][kk]))
                else:
                    diffs.append("%s: real %r, spec %r" % (k, got[k], exp[k]))
        if flushed:
            gd = sorted([d[0], d[2], d[3], d[5]] for d in r.dml())
            ed = sorted(list(x) for x in act["dml"])
            if gd != ed:
                diffs.append("DML emitted %r, spec %r" % (gd, ed))
        if a == "CommitReload":
            cr = r.committed_rows()
            if cr != exp["rows"]:
                diffs.append("committed rows (second connection) %r, spec %r" % (cr, exp["rows"]))
        if diffs:
            return "; ".join(diffs[:6])
        return None

    def finish(self, state):
        """drain for walks that do not end in CommitReload: when the spec state has nothing to flush, commit and compare the
        committed rows and the graph loaded by a fresh session with the spec's rows"""
        if state["dead"]:
            return None
        life = state["life"]
        clean = not any(v == "pending" for v in life.values()) and not state["marked"] and \
            not any(life[o] == "persistent" for o in state["mod"])
        if not clean:
            return None
        r = self.real
        ret = r.do("CommitReload", [])
        if ret != "ok":
            return "drain: commit of a clean session returned %r" % ret
        exp = {"dbp": sorted(state["dbp"]), "dbc": {c: v for c, v in state["dbc"].items() if v != "absent"},
               "dbv": {c: v for c, v in state["dbv"].items() if v != "absent"}}
        cr = r.committed_rows()
        if cr != exp:
            return "drain: committed rows %r, spec %r" % (cr, exp)
        got = r.observe()
        for p in self.ps:
            want = sorted(c for c, v in exp["dbc"].items() if v == p) if p in exp["dbp"] else []
            if got["children"][p] != want:
                return "drain: reloaded %s.children %r, rows say %r" % (p, got["children"][p], want)
        for c in ([] if r.uni else self.cs):
            if got["parent"][c] != exp["dbc"].get(c, "none"):
                return "drain: reloaded %s.parent %r, rows say %r" % (c, got["parent"][c], exp["dbc"].get(c, "none"))
        return None

    def close(self):
        self.real.close()


# ====================================================================== one-to-one pair (OrmOneToOne.tla), in memory
_M11 = {}


def mapping11():
    if _M11:
        return _M11["P"], _M11["C"]
    import sqlalchemy as sa
    from sqlalchemy import orm

    class Base(orm.DeclarativeBase):
        pass

    class P(Base):
        __tablename__ = "p11"
        id = sa.Column(sa.Integer, primary_key=True, autoincrement=False)
        child = orm.relationship("C", back_populates="parent", uselist=False)

    class C(Base):
        __tablename__ = "c11"
        id = sa.Column(sa.Integer, primary_key=True, autoincrement=False)
        pid = sa.Column(sa.Integer, sa.ForeignKey("p11.id"))
        parent = orm.relationship("P", back_populates="child")

    orm.configure_mappers()
    _M11.update(P=P, C=C)
    return P, C


class Driver11:
    """replays OrmOneToOne walks on real (transient) objects; both scalar sides read from __dict__ after every step"""

    def __init__(self, wid, workdir, ps, cs):
        self.P, self.C = mapping11()
        self.ps, self.cs = list(ps), list(cs)
        self.obj = {}

    def reset(self, state):
        self.obj = {}
        for n in self.ps:
            self.obj[n] = self.P(id=int(n[1:]), child=None)
        for n in self.cs:
            self.obj[n] = self.C(id=int(n[1:]), parent=None)

    def step(self, frm, act, to):
        a, arg = act["a"], act["arg"]
        o = self.obj
        val = None if arg[1] == "none" else o[arg[1]]
        try:
            setattr(o[arg[0]], "child" if a == "SetChild" else "parent", val)
            ret = "ok"
        except Exception as e:
            ret = type(e).__name__
        if ret != act["ret"]:
            return "call outcome %r, spec %r" % (ret, act["ret"])
        got = {"child": {p: name(o[p].__dict__.get("child")) for p in self.ps}, "parent": {c: name(o[c].__dict__.get("parent")) for c in self.cs}}
        exp = {"child": to["child"], "parent": to["parent"]}
        if got != exp:
            return "both sides: real %r, spec %r" % (got, exp)
        return None

    def close(self):
        pass


# ====================================================================== many-to-many pair (OrmManyToMany.tla) with flush and reload
_MMM = {}


def mappingmm(bidir):
    """L.rs (<-> R.ls when bidir) through the secondary table mlr; lists ordered by key on load"""
    if bidir in _MMM:
        return _MMM[bidir]
    import sqlalchemy as sa
    from sqlalchemy import orm

    class Base(orm.DeclarativeBase):
        pass

    mlr = sa.Table("mlr", Base.metadata,
                   sa.Column("l_id", sa.Integer, sa.ForeignKey("ml.id"), primary_key=True),
                   sa.Column("r_id", sa.Integer, sa.ForeignKey("mr.id"), primary_key=True))

    if bidir:
        class L(Base):
            __tablename__ = "ml"
            id = sa.Column(sa.Integer, primary_key=True, autoincrement=False)
            rs = orm.relationship("R", secondary=mlr, back_populates="ls", order_by="R.id")

        class R(Base):
            __tablename__ = "mr"
            id = sa.Column(sa.Integer, primary_key=True, autoincrement=False)
            ls = orm.relationship("L", secondary=mlr, back_populates="rs", order_by="L.id")
    else:
        class L(Base):
            __tablename__ = "ml"
            id = sa.Column(sa.Integer, primary_key=True, autoincrement=False)
            rs = orm.relationship("R", secondary=mlr, order_by="R.id")

        class R(Base):
            __tablename__ = "mr"
            id = sa.Column(sa.Integer, primary_key=True, autoincrement=False)

    orm.configure_mappers()
    _MMM[bidir] = (Base, L, R, mlr)
    return _MMM[bidir]


class DriverMM:
    """replays OrmManyToMany walks on the real ORM (SQLite file, autocommit=False, foreign_keys=ON): after every step call outcome, lifecycle
    state, both lists read from __dict__ (order included), session.deleted, collection History; after Flush/CommitReload entity rows and
    association rows through the session's connection and the emitted DML set; after CommitReload the committed rows (second connection)"""

    def __init__(self, wid, workdir, ls, rs, bidir):
        import sqlalchemy as sa
        from sqlalchemy import event, orm
        from sqlalchemy.pool import NullPool
        self.sa, self.orm = sa, orm
        self.Base, self.L, self.R, self.mlr = mappingmm(bidir)
        self.bidir = bidir
        self.ls, self.rs = list(ls), list(rs)
        os.makedirs(workdir, exist_ok=True)
        self.path = os.path.join(workdir, "mm%d.sqlite" % wid)
        if os.path.exists(self.path):
            os.unlink(self.path)
        self.engine = sa.create_engine("sqlite:///" + self.path, connect_args={"autocommit": False}, poolclass=NullPool)

        @event.listens_for(self.engine, "connect")
        def _fk(dbapi_conn, rec):
            ac = dbapi_conn.autocommit
            dbapi_conn.autocommit = True
            cur = dbapi_conn.cursor()
            cur.execute("PRAGMA foreign_keys=ON")
            cur.close()
            dbapi_conn.autocommit = ac

        self.stmts = []

        @event.listens_for(self.engine, "before_cursor_execute")
        def _bce(conn, cursor, statement, parameters, context, executemany):
            m = _DML.match(statement)
            if not m or context is None or context.compiled is None:
                return
            names = list(context.compiled.positiontup or [])
            op = m.group(1).split()[0].upper()
            table = m.group(2).lower()
            for prm in (parameters if executemany else [parameters]):
                dd = dict(prm) if isinstance(prm, dict) else dict(zip(names, prm))
                g = lambda col: dd.get(table + "_" + col, dd.get(col))
                if table == "mlr":
                    self.stmts.append([op, "lr", "l%s" % g("l_id"), "r%s" % g("r_id")])
                else:
                    self.stmts.append([op, "x", ("l%s" if table == "ml" else "r%s") % g("id"), "-"])

        self.Base.metadata.create_all(self.engine)
        with self.engine.connect() as c:
            self.calibrated = c.exec_driver_sql("PRAGMA foreign_keys").scalar() == 1
        self.session = None
        self.obj = {}

    def _fresh(self):
        sa = self.sa
        self.session = s = self.orm.Session(self.engine, autoflush=False)
        got = {"l%d" % o.id: o for o in s.scalars(sa.select(self.L).order_by(self.L.id))}
        got.update({"r%d" % o.id: o for o in s.scalars(sa.select(self.R).order_by(self.R.id))})
        for n, o in got.items():
            if n[0] == "l":
                o.rs
            elif self.bidir:
                o.ls
        for n in self.ls:
            self.obj[n] = got.get(n) or self.L(id=int(n[1:]), rs=[])
        for n in self.rs:
            self.obj[n] = got.get(n) or (self.R(id=int(n[1:]), ls=[]) if self.bidir else self.R(id=int(n[1:])))

    def reset(self, state):
        if self.session is not None:
            try:
                self.session.close()
            except Exception:
                pass
        raw = sqlite3.connect(self.path, isolation_level=None)
        raw.execute("delete from mlr")
        raw.execute("delete from ml")
        raw.execute("delete from mr")
        for x in state["rows"]:
            raw.execute("insert into %s (id) values (?)" % ("ml" if x[0] == "l" else "mr"), (int(x[1:]),))
        for l, r in state["assoc"]:
            raw.execute("insert into mlr (l_id, r_id) values (?, ?)", (int(l[1:]), int(r[1:])))
        raw.close()
        self.obj = {}
        self._fresh()

    def _coll(self, n):
        return getattr(self.obj[n], "rs" if n[0] == "l" else "ls")

    def _commit_reload(self):
        self.session.commit()
        self.session.close()
        self._fresh()

    def _rows(self, conn_exec):
        rows = sorted(["l%d" % r[0] for r in conn_exec("select id from ml")] + ["r%d" % r[0] for r in conn_exec("select id from mr")])
        assoc = sorted(["l%d" % r[0], "r%d" % r[1]] for r in conn_exec("select l_id, r_id from mlr"))
        return {"rows": rows, "assoc": assoc}

    def step(self, frm, act, to):
        if not self.calibrated:
            return "calibration: PRAGMA foreign_keys is not ON"
        a, arg = act["a"], [str(x) for x in act["arg"]]
        o = self.obj
        sa = self.sa
        self.stmts = []

        def run():
            if a == "Append":
                self._coll(arg[0]).append(o[arg[1]])
            elif a == "Insert":
                self._coll(arg[0]).insert(0, o[arg[1]])
            elif a == "Remove":
                self._coll(arg[0]).remove(o[arg[1]])
            elif a == "Pop":
                self._coll(arg[0]).pop()
            elif a == "Replace":
                setattr(o[arg[0]], "rs" if arg[0][0] == "l" else "ls", [o[x] for x in arg[1:]])
            elif a == "SetItem":
                self._coll(arg[0])[int(arg[1])] = o[arg[2]]
            elif a == "Reverse":
                lst = self._coll(arg[0])
                lst[::-1] = list(lst)
            elif a == "Delete":
                self.session.delete(o[arg[0]])
            elif a == "Flush":
                self.session.flush()
            elif a == "CommitReload":
                self._commit_reload()
            else:
                raise ValueError("unknown action %r" % a)
        with warnings.catch_warnings(record=True) as w:
            warnings.simplefilter("always")
            try:
                run()
                ret = "ok"
            except Exception as e:
                ret = type(e).__name__
        if any(issubclass(x.category, sa.exc.SAWarning) for x in w):
            ret += "+warn"
        if ret != act["ret"]:
            return "call outcome %r, spec %r (%s)" % (ret, act["ret"], "; ".join(str(x.message)[:80] for x in w))
        if to["dead"]:
            return None
        o = self.obj
        got = {"life": {}, "coll": {}, "hist": {}}
        owners = self.ls + (self.rs if self.bidir else [])
        deleted = set(id(x) for x in self.session.deleted)
        got["marked"] = sorted(n for n, ob in o.items() if id(ob) in deleted)
        for n, ob in o.items():
            i = sa.inspect(ob)
            got["life"][n] = "persistent" if i.persistent else "deleted" if i.deleted else "transient" if i.transient else "?"
            if n in owners:
                key = "rs" if n[0] == "l" else "ls"
                lst = ob.__dict__.get(key) or []
                got["coll"][n] = [("r%d" if n[0] == "l" else "l%d") % x.__dict__["id"] for x in lst]
                h = getattr(i.attrs, key).history
                got["hist"][n] = [sorted(set(("r%d" if n[0] == "l" else "l%d") % x.__dict__["id"] for x in (part or ()))) for part in h]
        exp = {"life": to["life"], "coll": {n: list(to["coll"][n]) for n in owners}, "marked": sorted(to["marked"]),
               "hist": {n: [sorted(x) for x in act["obs"]["hist"][n]] for n in owners}}
        diffs = []
        flushed = a in ("Flush", "CommitReload")
        if flushed:
            conn = self.session.connection()
            got["db"] = self._rows(lambda q: conn.execute(sa.text(q)))
            exp["db"] = {"rows": sorted(to["rows"]), "assoc": sorted(list(p) for p in to["assoc"])}
            gd = sorted(self.stmts)
            ed = sorted(list(x) for x in act["dml"])
            if gd != ed:
                diffs.append("DML emitted %r, spec %r" % (gd, ed))
        for k in exp:
            if got.get(k) != exp[k]:
                diffs.append("%s: real %r, spec %r" % (k, got.get(k), exp[k]))
        if a == "CommitReload":
            raw = sqlite3.connect(self.path, isolation_level=None)
            try:
                cr = self._rows(lambda q: raw.execute(q))
            finally:
                raw.close()
            if cr != exp["db"]:
                diffs.append("committed rows (second connection) %r, spec %r" % (cr, exp["db"]))
        return "; ".join(diffs[:5]) if diffs else None

    def close(self):
        try:
            if self.session is not None:
                self.session.close()
            self.engine.dispose()
        except Exception:
            pass
