"""C03 statement objects are immutable values; compilation is deterministic - Generative.tla (DESIGN 3.13, 4 C03)."""
import random
import re
from concurrent.futures import ThreadPoolExecutor

from engine import graph, tlc
from checks import generative_driver as gd

q = tlc.q
LEVEL = "model_checking"
MANIFEST = dict(
    text="Generative.tla models a derivation tree of statements: Derive(parent, method) over the generative methods of Select / CompoundSelect / ORM "
         "select / Query / Insert / Update / Delete, Copy(node, clone|copy|deepclone|pickle) and the first Compile(node, dialect), on a mechanism layer "
         "shaped like Generative._generate (shallow __dict__ copy sharing collection cells, memoized keys dropped, methods rebind a new "
         "collection). TLC checks that no action changes the value of an existing node, that every node's value and everything a compilation "
         "reads equal the meaning of its derivation, that copies equal their source, and that compilation writes memos only; the three "
         "classic faults (in-place append, _generate returning self, memos copied to the child) must be rejected. Every edge of the graphs "
         "(<=4 nodes quick, <=5 thorough, 3-4 methods per run drawn from ~14 per kind) is replayed on real statements; after every step every "
         "compiled node is recompiled on sqlite, postgresql, mysql, mssql and oracle and compared with its first recording and with the same "
         "derivation built afresh; the first compilation is bracketed by an attribute-level snapshot of the statement. Pre-step runs (root built "
         "with methods already applied, Memo(n) = reading exported_columns / dialect_options / cache key without compiling, deep clones through "
         "cloned_traverse and a ClauseAdapter) make 'memoise or clone the parent, then derive' histories reachable for select, compound select, "
         "insert (single / multi VALUES, RETURNING), update and delete (with_dialect_options); the observable includes the exported column keys.",
    design_ref="3.13, 4 (C03)",
    note="trusted: TLC; the fixed argument lists of the generative calls in checks/generative_driver.py; SQL string + compiled.params as the "
         "observable; methods are sampled per run (all are covered in the thorough tier); Query objects are copied but not pickled",
    technique="TLA+ spec (Generative.tla) + TLC exhaustive over derivation trees; spec->code replay of every state-graph edge on real statements")
INVS = ["ValueIsDescr", "CopiesEqual", "Deterministic", "CompileReturnsMeaning"]
PROPS = ["Immutable", "CompileInert", "HeapAppendOnly", "RefusedChangesNothing"]
DIALECTS = ["sqlite", "postgresql", "mysql", "mssql", "oracle"]
METHODS = {
    "select": ["where", "wherein", "having", "join", "outerjoin", "order", "group", "limit", "offset", "distinct", "prefix", "execopt",
               "label_style", "only", "addcol"],
    "orm": ["where", "wherein", "join", "outerjoin", "order", "group", "limit", "offset", "distinct", "execopt", "only", "addcol", "options",
            "options2"],
    "query": ["where", "wherein", "join", "outerjoin", "order", "group", "limit", "offset", "distinct", "only", "addcol", "options", "options2",
              "execopt"],
    "compound": ["order", "order2", "group", "limit", "offset", "execopt"],
    "insert": ["values", "values2", "mvalues", "mvalues2", "returning", "returning2", "prefix", "execopt"],
    "update": ["where", "wherein", "values", "values2", "returning", "returning2", "prefix", "execopt", "dialectopt", "dialectopt2"],
    "delete": ["where", "wherein", "returning", "returning2", "prefix", "execopt", "dialectopt", "dialectopt2"],
}
KINDS = ["select", "compound", "orm", "query", "insert", "update", "delete"]
HOWS = {"select": ["clone", "copy", "deepclone", "pickle"], "compound": ["clone", "copy", "deepclone", "adapt", "pickle"], "orm": ["clone", "copy", "deepclone", "pickle"], "query": ["copy", "clone"],
        "insert": ["clone", "copy", "deepclone", "pickle"], "update": ["clone", "copy", "deepclone", "pickle"],
        "delete": ["clone", "copy", "deepclone", "pickle"]}


def consts(kind, methods, hows, dialects, maxnodes, depth, faulty="none", repeat=1, pre=(), memos=False):
    return dict(Kind=q(kind), Methods={q(m) for m in methods}, Hows={q(h) for h in hows}, Dialects={q(d) for d in dialects},
                MaxNodes=maxnodes, MaxRepeat=repeat, MaxDepth=depth, Faulty=q(faulty), Pre={q(m) for m in pre}, Memos=memos)


def _dump(args):
    cfgt, workdir = args
    return graph.dump("Generative", cfgt, workdir, timeout=2400, heap="3g")


def make_plans(chk, rng):
    """(kind, methods, copy operations, dialects of the first compilation, MaxNodes, MaxDepth, MaxRepeat) per TLC run"""
    kinds = list(KINDS)
    plans = []
    # "wide" runs: EVERY generative method of the kind, shallow trees (parent, child, grandchild or sibling), so that
    # each method is derived from a compiled and from a not yet compiled parent in every run whatever the seed
    for kind in kinds:
        plans.append((kind, list(METHODS[kind]), [], [rng.choice(DIALECTS)], 3, 6, 1))
    if chk.quick:
        for kind in kinds:
            ms = rng.sample(METHODS[kind], 2)
            plans.append((kind, ms, [rng.choice(HOWS[kind])], rng.sample(DIALECTS, 2), 4, 7, 1))
    else:
        for kind in kinds:
            pool = list(METHODS[kind])
            rng.shuffle(pool)
            chunks = [pool[i:i + 3] for i in range(0, len(pool), 3)]
            if len(chunks[-1]) < 3:
                chunks[-1] = (chunks[-1] + pool)[:3]
            hows = list(HOWS[kind])
            rng.shuffle(hows)
            for ci, ms in enumerate(chunks):
                plans.append((kind, ms, [hows[ci % len(hows)]], [DIALECTS[(ci + len(plans)) % len(DIALECTS)]], 4, 7, 1))
        # deeper trees with repeated methods
        for kind in rng.sample(kinds, 2):
            plans.append((kind, rng.sample(METHODS[kind], 2), [], rng.sample(DIALECTS, 1), 5, 7, 2))
    return [p + ((), False) for p in plans] + prestep_plans(chk, rng)


def prestep_plans(chk, rng):
    """"memoise or deep-clone the parent first, then derive": the root already carries state (Pre), Memo(n) reads the memoized attributes
    of a node without compiling it, Copy(n, deepclone | adapt) clones it through cloned_traverse / a ClauseAdapter; <= 3 nodes.
    The plans are fixed (every run reaches these histories), the seed only picks the clone operation and two extra methods."""
    deep = ["deepclone", "adapt"]
    h = lambda i: [deep[(chk.seed + i) % 2]]     # noqa: E731
    sel_extra = rng.sample([m for m in METHODS["select"] if m not in ("where", "group", "order", "addcol")], 2)
    P = [
        ("update", ["dialectopt", "dialectopt2", "where", "values2"], h(0), ["mysql"], 3, 6, 1, ("values",), True),
        ("delete", ["dialectopt", "dialectopt2", "returning", "returning2"], h(1), ["mysql"], 3, 6, 1, ("where",), True),
        ("insert", ["mvalues2", "returning", "prefix"], h(0), [rng.choice(DIALECTS)], 3, 6, 1, ("mvalues",), True),
        ("insert", ["values2", "returning2", "execopt"], h(1), [rng.choice(DIALECTS)], 3, 6, 1, ("values", "returning"), True),
        ("compound", ["order2", "group", "limit", "execopt"], h(0), [rng.choice(DIALECTS)], 3, 6, 1, ("order",), True),
        ("select", ["group", "order", "addcol"] + sel_extra, h(1), [rng.choice(DIALECTS)], 3, 6, 1, ("where",), True),
    ]
    if not chk.quick:
        P += [
            ("update", ["values2", "returning", "returning2", "wherein"], h(1), [rng.choice(DIALECTS)], 3, 6, 1, ("values", "where"), True),
            ("compound", ["order2", "limit", "offset", "execopt"], h(1), [rng.choice(DIALECTS)], 3, 6, 1, ("order", "group"), True),
            ("insert", ["mvalues2", "returning2", "prefix", "execopt"], h(1), [rng.choice(DIALECTS)], 3, 6, 1, ("mvalues", "returning"), True),
            ("orm", ["where", "order", "group", "options"], ["deepclone"], [rng.choice(DIALECTS)], 3, 6, 1, ("join",), True),
        ]
    return P


TAG = re.compile(r"^\[([^\]]*)\] ")


def signature(kind, m):
    """flat signature of a replay mismatch: the action + the structured tag the driver puts in front of the text"""
    a = m["act"] if isinstance(m["act"], dict) else {"a": m["act"]}
    sig = {"spec": "Generative", "action": a.get("a"), "kind": "conformance", "stmt_kind": kind, "x": a.get("x")}
    text = m["mismatch"]
    if text.startswith("drain: "):
        text = text[7:]
    t = TAG.match(text)
    if t:
        for k, v in re.findall(r"(\w+)=(\S+)", t.group(1)):
            sig[k] = {"True": True, "False": False}.get(v, v)
    return sig


def selftest(chk):
    out = {}
    for faulty, expect in (("inplace", ("ValueIsDescr", "Immutable", "HeapAppendOnly")), ("self", ("ValueIsDescr", "Immutable")),
                           ("keepmemo", ("Deterministic", "CompileReturnsMeaning")),
                           ("clonelist", ("ValueIsDescr", "Immutable", "HeapAppendOnly", "CopiesEqual"))):
        cfgt = tlc.cfg(constants=consts("select", ["where", "join", "only"], ["deepclone" if faulty == "clonelist" else "clone"], ["sqlite"], 3, 6,
                                        faulty, pre=("order",), memos=True), invariants=INVS,
                       properties=PROPS, view="View", constraints=["Depth"])
        r = tlc.run("Generative", cfgt, chk.work + "/faulty", workers=2, timeout=600, keep_stdout=False, heap="2g")
        out[faulty] = r.violated
        if not r.violated or not any(e in str(r.violated) for e in expect):
            chk.machinery("vacuous: Generative.tla with Faulty=%s is not rejected (got %r)" % (faulty, r.violated))
    return out


def main(chk):
    rng = random.Random(chk.seed)
    rejected = selftest(chk)
    plans = make_plans(chk, rng)
    jobs = []
    for i, (kind, ms, hows, fd, maxn, depth, rep, pre, memos) in enumerate(plans):
        cfgt = tlc.cfg(constants=consts(kind, ms, hows, fd, maxn, depth, repeat=rep, pre=pre, memos=memos), init="InitEmit", invariants=INVS, properties=PROPS,
                       view="View", action_constraints=["Emit"], constraints=["Depth"])
        jobs.append((cfgt, chk.work + "/graph%d" % i))
    with ThreadPoolExecutor(max(1, min(len(jobs), tlc.NPROC))) as ex:
        graphs = list(ex.map(_dump, jobs))
    states = trans = nwalks = steps_total = nontriv = 0
    runs, samples, cov = [], [], {}
    for (kind, ms, hows, fd, maxn, depth, rep, pre, memos), g in zip(plans, graphs):
        r = g.tlc
        if r.violated:
            chk.violation({"spec": "Generative", "action": "TLC", "invariant": r.violated, "stmt_kind": kind},
                          "TLC: %s violated in Generative.tla (%s %s)" % (r.violated, kind, ms))
        states += r.distinct
        trans += r.generated
        for fk, act, tk in g.edges:
            key = act["a"] + ("/" + act["x"] if act["a"] != "Compile" else "")
            cov[kind + ":" + key] = cov.get(kind + ":" + key, 0) + 1
            # non-trivial: a derivation or copy whose source (or an ancestor / sibling) has been compiled already, or the
            # compilation of a node that has descendants
            if act["a"] in ("Derive", "Copy") and any(nd[3] or nd[4] for nd in g.states[fk]):
                nontriv += 1
            if act["a"] == "Derive" and g.states[fk][act["n"] - 1][1] in ("deepclone", "adapt"):
                cov["derive_from_deep_clone"] = cov.get("derive_from_deep_clone", 0) + 1
            if act["a"] == "Derive" and g.states[fk][act["n"] - 1][4] and not g.states[fk][act["n"] - 1][3]:
                cov["derive_from_memoized_uncompiled"] = cov.get("derive_from_memoized_uncompiled", 0) + 1
            elif act["a"] == "Compile" and any(nd[0] == act["n"] for nd in g.states[fk]):
                nontriv += 1
        walks, plan = graph.plan_tours(g, depth, rng)
        extra = graph.random_walks(g, 50 if chk.quick else 300, depth, rng)
        steps, mism = graph.replay(g, walks + extra, lambda wid, wd, kind=kind: gd.Driver(wid, wd, kind, DIALECTS), chk.work + "/replay",
                                   nproc=16)
        for m in mism:
            chk.violation(signature(kind, m), "real %s statement diverges from Generative.tla: %s" % (kind, m["mismatch"]), m)
        nwalks += len(walks) + len(extra)
        steps_total += steps
        runs.append(dict(kind=kind, methods=ms, pre_applied=list(pre), memo_action=memos, hows=hows, first_compile_dialects=fd, max_nodes=maxn, distinct=r.distinct,
                         generated=r.generated, edges=len(g.edges), plan=plan, wall_s=round(r.wall, 1)))
        w = max(walks, key=lambda w_: len({(g.edges[ei][1]["a"], g.edges[ei][1]["x"]) for ei in w_}) + len(w_) / 100.0)
        samples.append(dict(kind=kind, walk=["%s(%d,%s)" % (g.edges[ei][1]["a"], g.edges[ei][1]["n"], g.edges[ei][1]["x"]) for ei in w]))
    for need in ("derive_from_deep_clone", "derive_from_memoized_uncompiled"):
        if not cov.get(need):
            chk.machinery("vacuous: no edge of class %s" % need)
    for kind in KINDS:
        for need in ("Derive", "Copy", "Compile"):      # (every kind has at least one run with a copy operation)
            if not any(k.startswith(kind + ":" + need) for k in cov):
                chk.machinery("vacuous: no %s edge for kind %s" % (need, kind))
    return chk.finish(
        dict(states=states, transitions=trans, traces_validated_against_impl=nwalks, distinct_nontrivial=nontriv, evaluations=steps_total,
             samples=samples[:6], tlc_runs=runs, action_coverage=cov, faulty_spec_rejected_by=rejected, exhaustive=True,
             rule="every labelled edge of the derivation-tree graphs replayed on real statements, all compiled nodes recompiled on %d dialects "
                  "after every step; non-trivial = derivations/copies made while some node of the tree was already compiled, and first "
                  "compilations of nodes that already have descendants" % len(DIALECTS),
             checker_cmd="tlc Generative.tla (VIEW View, ACTION_CONSTRAINT Emit)"),
        assumptions=["compile-only on postgresql/mysql/mssql/oracle (no execution); documented CompileError outcomes count as the SQL",
                     "each generative method is called with one fixed argument list",
                     "bounded: <= %d nodes per tree, each method at most %d time(s) per derivation" % (max(p[4] for p in plans), max(p[6] for p in plans)),
                     "pre-step runs: root built with methods already applied, Memo(n) = reading exported_columns / dialect_options / cache key, "
                     "deep clones through cloned_traverse and a ClauseAdapter that replaces nothing"])
