"""Binding of PyCollections.tla to sqlalchemy.util collections (C54; second implementation = prebuilt binaries for C55).

    replay_all(cases_by_kind)        run every TLC case on OrderedSet / IdentitySet / immutabledict of the CURRENTLY imported
                                     sqlalchemy (pure-Python sources under ./check, binaries under VERIF_COMPILED=1)
    replay_compiled(cases_by_kind, workdir)   the same in a subprocess with VERIF_COMPILED=1 (feeds C55)
    LRUDriver                        replays the edges of the LRU state machine on a real LRUCache

Every function returns mismatch records {sig, what, case}; the caller turns them into chk.violation(...).
"""
import json
import os
import pickle
import subprocess
import sys

from checks import pycoll_common as pc

ROOT = os.path.dirname(os.path.dirname(os.path.abspath(__file__)))


def _impl():
    import sqlalchemy.util._has_cython as h
    return "compiled" if h.HAS_CYEXTENSION else "pure"


def _mk(sig_base, op, cls, what, case, **kw):
    sig = dict(sig_base)
    sig.update(pc.op_sig(op))
    sig["cls"] = cls
    sig.update(kw)
    return {"sig": sig, "what": what, "case": case}


# ----------------------------------------------------------------------------- OrderedSet
def ref_oset(l, op):
    """independent reference for the ORDER model: Python dict keys keep first-insertion order"""
    n, v, x = op["n"], op["v"], op["b"]
    d = dict.fromkeys(l)
    if n in ("update", "ior", "union", "or", "add_op"):
        d.update(dict.fromkeys(v))
        return list(d)
    if n in ("difference_update", "isub", "difference", "sub"):
        return [y for y in l if y not in set(v)]
    if n in ("intersection_update", "iand", "intersection", "and"):
        return [y for y in l if y in set(v)]
    if n in ("symmetric_difference_update", "ixor", "symmetric_difference", "xor"):
        return [y for y in l if y not in set(v)] + [y for y in dict.fromkeys(v) if y not in d]
    if n == "add":
        d[x] = None
        return list(d)
    if n == "discard" or (n == "remove" and x in d):
        d.pop(x, None)
        return list(d)
    return None


def calibrate_oset(chk, cases):
    """the sequence-without-duplicates reference of the spec against (a) dict insertion order, (b) the builtin set for membership"""
    n = 0
    for case in cases:
        op, exp, l = case["op"], case["exp"], case["val"]
        want = ref_oset(l, op)
        if want is not None and exp["exc"] == "none":
            got = list(exp["ret"]) if exp["rk"] == "list" else list(exp["val"])
            n += 1
            if got != want:
                chk.machinery("oracle calibration failed (OrderedSet order model): %r on %r: spec %r, dict-order reference %r" % (op, l, got, want))
        if op["n"] in ("update", "difference_update", "intersection_update", "symmetric_difference_update", "add", "discard", "remove"):
            s = set(l)
            exc, rk, ret = pc.perform("set", s, dict(op, kd="list"))
            if exc != exp["exc"] or (exc == "none" and s != set(exp["val"])):
                chk.machinery("oracle calibration failed (OrderedSet membership vs builtin set): %r on %r" % (op, l))
            n += 1
    return n


def set_iter_order_ok(v):
    """a case whose argument is passed as a builtin set is comparable only if the sequence the spec assumed is the set's own
    iteration order"""
    return list(set(v)) == list(v)


def replay_oset(cases, universe):
    from sqlalchemy.util import OrderedSet
    base = {"spec": "PyCollections", "kind": "conformance", "coll": "OrderedSet", "impl": _impl()}
    out, n, nontriv = [], 0, 0
    for case in cases:
        op, exp, l = case["op"], case["exp"], case["val"]
        if op["kd"] == "set" and not set_iter_order_ok(op["v"]):
            continue
        t = OrderedSet(l)
        n += 1
        nontriv += bool(exp["add"] or exp["rem"] or exp["exc"] != "none" or exp["rk"] == "list")
        pc.LAST_RESULT[0] = None
        exc, rk, ret = pc.perform("oset", t, op, mkself=OrderedSet)
        got = list(t)
        m = pc.outcome_mismatch("oset", exp, exc, rk, ret, got, list(l))
        if m:
            out.append(_mk(base, op, "outcome", "OrderedSet(%r).%s(%r as %s): %s" % (l, op["n"], op["v"] or op["b"], op["kd"] or "-", m), case))
            continue
        # hidden state: the list side and the set side of the object must agree
        members = sorted(x for x in universe if x in t)
        if len(t) != len(got) or members != sorted(got) or len(set(got)) != len(got):
            out.append(_mk(base, op, "internal", "OrderedSet(%r).%s(%r as %s): iteration gives %r but len()=%d and membership %r" % (
                l, op["n"], op["v"], op["kd"], got, len(t), members), case))
            continue
        r = pc.LAST_RESULT[0]
        if exp["rk"] == "list" and r is not None:
            if type(r) is not OrderedSet:
                out.append(_mk(base, op, "outcome", "%s returned %s, not OrderedSet" % (op["n"], type(r).__name__), case))
            elif len(r) != len(ret) or sorted(x for x in universe if x in r) != sorted(ret):
                out.append(_mk(base, op, "internal", "result of %s: iteration %r, len %d" % (op["n"], ret, len(r)), case))
            elif r is t:
                out.append(_mk(base, op, "outcome", "%s returned self instead of a new set" % op["n"], case))
    return out, n, nontriv


# ----------------------------------------------------------------------------- IdentitySet
class _E:
    """all instances are == and hash alike: a set keyed on equality would hold one of them"""
    __slots__ = ("lab",)

    def __init__(self, lab):
        self.lab = lab

    def __eq__(self, other):
        return isinstance(other, _E)

    def __hash__(self):
        return 7

    def __repr__(self):
        return "e%d" % self.lab


IDSET_SKIP = {"isdisjoint", "assign"}


def replay_idset(cases, universe):
    from sqlalchemy.util import IdentitySet
    base = {"spec": "PyCollections", "kind": "conformance", "coll": "IdentitySet", "impl": _impl()}
    objs = {i: _E(i) for i in universe}
    item, label = objs.__getitem__, (lambda o: o.lab)
    out, n, nontriv = [], 0, 0
    for case in cases:
        op, exp, s = case["op"], case["exp"], case["val"]
        if op["n"] in IDSET_SKIP or op["kd"] in ("set", "frozenset"):
            continue  # a builtin set of ==-equal objects cannot be built; IdentitySet has no isdisjoint
        t = IdentitySet([item(x) for x in s])
        n += 1
        nontriv += bool(exp["add"] or exp["rem"] or exp["exc"] != "none" or exp["rk"] in ("set", "bool"))
        pc.LAST_RESULT[0] = None
        exc, rk, ret = pc.perform("set", t, op, item=item, label=label, mkself=IdentitySet)
        got = sorted(label(x) for x in t)
        m = pc.outcome_mismatch("set", exp, exc, rk, ret, got, sorted(s))
        if m:
            out.append(_mk(base, op, "outcome", "IdentitySet(%r).%s(%r as %s): %s" % (sorted(s), op["n"], op["v"] or op["b"], op["kd"] or "-", m), case))
            continue
        members = sorted(i for i in universe if objs[i] in t)
        if len(t) != len(got) or members != got:
            out.append(_mk(base, op, "internal", "IdentitySet: iteration %r, len %d, membership %r" % (got, len(t), members), case))
            continue
        r = pc.LAST_RESULT[0]
        if exp["rk"] == "set" and r is not None and (type(r) is not IdentitySet or r is t):
            out.append(_mk(base, op, "outcome", "%s returned %s%s" % (op["n"], type(r).__name__, " (self)" if r is t else ""), case))
    return out, n, nontriv


# ----------------------------------------------------------------------------- immutabledict
def replay_idict(cases):
    from sqlalchemy.util import immutabledict
    base = {"spec": "PyCollections", "kind": "conformance", "coll": "immutabledict", "impl": _impl()}
    K = pc.key_str
    out, n, nontriv = [], 0, 0
    for case in cases:
        op, exp, d = case["op"], case["exp"], case["val"]
        orig = [(K(p[0]), p[1]) for p in d]
        t = immutabledict(dict(orig))
        nm, a, v, kd = op["n"], op["a"], [(K(p[0]), p[1]) for p in op["v"]], op["kd"]
        n += 1
        nontriv += 1
        args = []
        exc, ret = "none", None
        try:
            if nm == "setitem":
                t[K(a)] = 1
            elif nm == "delitem":
                del t[K(a)]
            elif nm == "clear":
                t.clear()
            elif nm == "pop":
                t.pop(K(a))
            elif nm == "popd":
                t.pop(K(a), 5)
            elif nm == "popitem":
                t.popitem()
            elif nm == "setdefault":
                t.setdefault(K(a), 1)
            elif nm == "update":
                t.update(dict(v))
            elif nm == "ior":
                t |= dict(v)
            elif nm == "setattr":
                t.foo = 1
            elif nm == "getitem":
                ret = t[K(a)]
            elif nm == "copy":
                ret = t.copy()
                rt = pickle.loads(pickle.dumps(t))
                if type(rt) is not immutabledict or list(rt.items()) != orig:
                    out.append(_mk(base, op, "outcome", "pickle round trip of immutabledict(%r) gives %s %r" % (orig, type(rt).__name__, rt), case))
            elif nm == "or":
                args = [dict(v)]
                ret = t | args[0]
            elif nm == "ror":
                args = [dict(v)]
                ret = args[0] | t
            elif nm in ("union", "merge_with"):
                d1, d2 = dict(v[:a]), dict(v[a:])
                if kd == "imm":
                    args = [immutabledict(d1), immutabledict(d2)]
                elif kd == "none":
                    args = [d1, None, d2]
                else:
                    args = [d1, d2]
                ret = getattr(t, nm)(*args)
            else:
                raise ValueError(nm)
        except (TypeError, KeyError, AttributeError) as e:
            exc = type(e).__name__
        before = [dict(x) if x is not None else None for x in ([dict(v[:a]), dict(v[a:])] if nm in ("union", "merge_with") else [dict(v)])]
        if list(t.items()) != orig:
            out.append(_mk(base, op, "mutated", "immutabledict(%r) changed to %r by %s" % (orig, dict(t), nm), case))
            continue
        if exc != exp["exc"]:
            out.append(_mk(base, op, "outcome", "immutabledict(%r).%s raised %s, spec %s" % (orig, nm, exc, exp["exc"]), case))
            continue
        if exp["rk"] == "dict":
            want = [(K(p[0]), p[1]) for p in exp["ret"]]
            if type(ret) is not immutabledict:
                out.append(_mk(base, op, "outcome", "%s returned %s, not immutabledict" % (nm, type(ret).__name__), case))
            elif list(ret.items()) != want:
                out.append(_mk(base, op, "outcome", "immutabledict(%r).%s(%r, split %d, %s) = %r, spec %r" % (orig, nm, v, a, kd, dict(ret), want), case))
        elif exp["rk"] == "val" and ret != exp["ret"][0]:
            out.append(_mk(base, op, "outcome", "getitem returned %r" % (ret,), case))
        real_args = [x for x in args if x is not None]
        if nm in ("union", "merge_with") and [dict(x) for x in real_args] != [dict(v[:a]), dict(v[a:])]:
            out.append(_mk(base, op, "mutated", "%s mutated one of its arguments" % nm, case))
    return out, n, nontriv


# ----------------------------------------------------------------------------- everything, in this process
def replay_all(by_kind, universe):
    out = []
    counts = {}
    for kind, fn, args in (("oset", replay_oset, (universe,)), ("set", replay_idset, (universe,)), ("idict", replay_idict, ())):
        if kind not in by_kind:
            continue
        m, n, nt = fn(by_kind[kind], *args)
        out += m
        counts[kind] = {"cases": n, "nontrivial": nt, "mismatches": len(m)}
    return out, counts


def replay_compiled(by_kind, universe, workdir):
    """Same replay against the prebuilt *_cy binaries: subprocess with VERIF_COMPILED=1. Returns (mismatches, counts) or raises."""
    os.makedirs(workdir, exist_ok=True)
    fin, fout = os.path.join(workdir, "compiled_in.json"), os.path.join(workdir, "compiled_out.json")
    with open(fin, "w") as f:
        json.dump({"by_kind": by_kind, "universe": list(universe)}, f)
    env = dict(os.environ, VERIF_COMPILED="1", PYTHONHASHSEED="0", PYTHONDONTWRITEBYTECODE="1")
    env.pop("PYTHONPATH", None)
    p = subprocess.run([sys.executable, "-m", "checks.pycoll_util", fin, fout], cwd=ROOT, env=env, stdout=subprocess.PIPE,
                       stderr=subprocess.STDOUT, text=True, timeout=1200)
    if p.returncode != 0 or not os.path.exists(fout):
        raise RuntimeError("compiled replay subprocess failed (%s): %s" % (p.returncode, p.stdout[-1500:]))
    with open(fout) as f:
        r = json.load(f)
    return r["mismatches"], r["counts"], r["impl"]


# ----------------------------------------------------------------------------- LRUCache
class LRUDriver:
    """Replays walks of InitLRU/NextLRU on a real LRUCache(capacity=Cap, threshold=ThrNum/ThrDen)."""

    def __init__(self, cap, thr):
        from sqlalchemy.util import LRUCache
        self.LRUCache, self.cap, self.thr = LRUCache, cap, thr
        self.in_step = True

    def reset(self, state):
        self.alerts = []
        self.c = self.LRUCache(capacity=self.cap, threshold=self.thr, size_alert=lambda c: self.alerts.append(len(c)))

    def step(self, frm, act, to):
        c, a, k, v = self.c, act["a"], act["k"], act["v"]
        del self.alerts[:]
        exc, ret = "none", []
        try:
            if a == "get":
                r = c.get(k)
                ret = [] if r is None else [r]
            elif a == "getitem":
                ret = [c[k]]
            elif a == "contains":
                ret = [int(k in c)]
            elif a == "delitem":
                del c[k]
            elif a == "setitem":
                c[k] = v
            else:
                return "driver", "unknown action %r" % a
        except KeyError:
            exc = "KeyError"
        if exc != act["exc"] or ret != list(act["ret"]):
            return "outcome", "LRUCache.%s(%r): %s %r, spec %s %r" % (a, k, exc, ret, act["exc"], list(act["ret"]))
        want = {e["k"]: e["v"] for e in to["d"]}
        got = dict(zip(list(c), list(c.values())))
        if got != want or len(c) != len(want):
            return "outcome", "after %s(%r): cache holds %r, spec %r" % (a, k, got, want)
        # recency (hidden state): the counters order the entries like the spec's recency sequence
        order = [e[0] for e in sorted(c._data.values(), key=lambda e: e[2][0])]
        if order != [e["k"] for e in to["d"]]:
            return "recency", "after %s(%r): entries by last use %r, spec %r" % (a, k, order, [e["k"] for e in to["d"]])
        evicted = a == "setitem" and len(to["d"]) < len({e["k"] for e in frm["d"]} | {k})
        if bool(self.alerts) != evicted or len(self.alerts) > 1:
            return "alert", "size_alert called %d time(s) on %s(%r), eviction expected: %s" % (len(self.alerts), a, k, evicted)
        return None

    def finish(self, state):
        # drain through the public API only: keep storing NEW keys until the cache evicts; the survivors must be the most
        # recently used `cap` entries (the spec's recency order extended by the new keys)
        c = self.c
        order = [e["k"] for e in state["d"]]
        limit = self.cap + self.cap * self.thr
        newk = 100
        for _ in range(self.cap + 3):
            newk += 1
            c[newk] = newk * 10 + 1
            order.append(newk)
            if len(order) > limit:
                order = order[-self.cap:]
            if sorted(c) != sorted(order):
                return "recency", "drain: after storing new keys the cache holds %r, expected the most recently used %r" % (sorted(c), sorted(order))
        return None


class OSetSeqDriver:
    """walks of NextOSet on ONE OrderedSet per walk"""

    def __init__(self, universe):
        from sqlalchemy.util import OrderedSet
        self.OrderedSet, self.universe = OrderedSet, universe
        self.in_step = True

    def reset(self, state):
        self.t = self.OrderedSet(state)

    def step(self, frm, act, to):
        t, op, exp = self.t, act["op"], act["exp"]
        old = list(t)
        exc, rk, ret = pc.perform("oset", t, op, mkself=self.OrderedSet)
        got = list(t)
        self.in_step = got == list(to)
        m = pc.outcome_mismatch("oset", exp, exc, rk, ret, got, old)
        if m:
            return "outcome", "OrderedSet %r .%s(%r as %s): %s" % (old, op["n"], op["v"] or op["b"], op["kd"] or "-", m)
        members = sorted(x for x in self.universe if x in t)
        if len(t) != len(got) or members != sorted(got):
            return "internal", "OrderedSet after %s: iteration %r, len %d, membership %r" % (op["n"], got, len(t), members)
        return None

    def finish(self, state):
        # drain: pop everything; the elements must come back in reverse insertion order and the set must end empty
        t = self.t
        out = []
        while len(t):
            out.append(t.pop())
        if out != list(reversed(state)) or list(t) != []:
            return "internal", "drain: pop() sequence %r, expected %r" % (out, list(reversed(state)))
        return None


class IdSetSeqDriver:
    """walks of NextSet on ONE IdentitySet per walk (set-typed arguments are passed as IdentitySet)"""

    def __init__(self, universe):
        from sqlalchemy.util import IdentitySet
        self.IdentitySet = IdentitySet
        self.objs = {i: _E(i) for i in universe}
        self.in_step = True

    def reset(self, state):
        self.lab = dict((i, o) for i, o in self.objs.items())
        self.t = self.IdentitySet([self.lab[x] for x in state])

    def _label(self, o):
        for k, v in self.lab.items():
            if v is o:
                return k

    def step(self, frm, act, to):
        t, op, exp = self.t, act["op"], act["exp"]
        if op["n"] == "assign":
            self.t = t = self.IdentitySet([self.lab[x] for x in op["v"]])
            return None
        op = dict(op, kd="self" if op["kd"] == "set" else op["kd"])
        old = sorted(self._label(x) for x in t)
        exc, rk, ret = pc.perform("set", t, op, item=self.lab.__getitem__, label=self._label, mkself=self.IdentitySet)
        if op["n"] == "pop" and exc == "none" and ret != op["b"] and ret in old:
            x, y = op["b"], ret
            self.lab[x], self.lab[y] = self.lab[y], self.lab[x]
            ret = x
        got = sorted(self._label(x) for x in t)
        self.in_step = got == sorted(to)
        m = pc.outcome_mismatch("set", exp, exc, rk, ret, got, old)
        if m:
            return "outcome", "IdentitySet %r .%s(%r as %s): %s" % (old, op["n"], op["v"] or op["b"], op["kd"] or "-", m)
        members = sorted(i for i, o in self.lab.items() if o in t)
        if len(t) != len(got) or members != got:
            return "internal", "IdentitySet after %s: iteration %r, len %d, membership %r" % (op["n"], got, len(t), members)
        return None


def _main(argv):
    from engine import purepy
    purepy.install()
    with open(argv[1]) as f:
        inp = json.load(f)
    out, counts = replay_all(inp["by_kind"], inp["universe"])
    with open(argv[2], "w") as f:
        json.dump({"mismatches": out[:20000], "counts": counts, "impl": _impl()}, f)
    return 0


if __name__ == "__main__":
    sys.exit(_main(sys.argv))
