"""Driver binding Sharding.tla to a real ShardedSession over NS SQLite files (C53).

One mapped class T(id, grp, val); the three chooser functions are closures over the profile tables of the walk's state
(shard_chooser: grp -> shard; execute_chooser: statement class -> shards; identity_chooser: pk -> shards).  After EVERY step:
the call outcome (query result as ordered (pk, shard, grp) triples, Get result, exception class), which file holds which row (raw
sqlite3 connections = committed; the session's own connection of each shard = uncommitted), the identity map's keys
(class, pk, identity_token) and - object by object - that equal identity keys are the SAME Python object and different keys are
different objects, with the attribute values the specification predicts.
"""
import gc
import os
import sqlite3
import warnings

NSMAX = 3


def shard_name(i):
    return "s%d" % i


class Driver:
    def __init__(self, wid, workdir):
        import sqlalchemy as sa
        from sqlalchemy import orm
        from sqlalchemy.ext import horizontal_shard as hs
        from sqlalchemy.sql import operators, visitors
        self.sa, self.orm, self.hs, self.operators, self.visitors = sa, orm, hs, operators, visitors
        os.makedirs(workdir, exist_ok=True)
        Base = orm.declarative_base()

        class T(Base):
            __tablename__ = "t"
            id = sa.Column(sa.Integer, primary_key=True, autoincrement=False)
            grp = sa.Column(sa.Integer, nullable=False)
            val = sa.Column(sa.Integer, nullable=False)
        self.T = T
        self.paths, self.engines, self.raw = {}, {}, {}
        for i in range(1, NSMAX + 1):
            p = os.path.join(workdir, "shard%d_%d.sqlite" % (i, wid))
            if os.path.exists(p):
                os.unlink(p)
            self.paths[i] = p
            self.engines[shard_name(i)] = sa.create_engine("sqlite:///" + p, poolclass=sa.pool.NullPool)
            Base.metadata.create_all(self.engines[shard_name(i)])
            self.raw[i] = sqlite3.connect(p, isolation_level=None)
        self.sess = None
        self.nstep = 0
        self.anomalies = []

    # ---- chooser functions (tables of the profile)
    def _classify(self, stmt):
        """which row of the execute_chooser table a statement belongs to"""
        T = self.T
        wc = getattr(stmt, "whereclause", None)
        if wc is None:
            return ("all", None)
        found = []

        def visit_binary(b):
            left = b.left
            if left.shares_lineage(T.__table__.c.grp) and b.operator is self.operators.eq:
                found.append(("grp", b.right.value))
            elif left.shares_lineage(T.__table__.c.id) and b.operator is self.operators.eq:
                found.append(("get", None))
        self.visitors.traverse(wc, {}, {"binary": visit_binary})
        return found[0] if found else ("other", None)

    def _make_session(self, P, ns):
        drv = self

        def shard_chooser(mapper, instance, clause=None):
            if instance is None:
                drv.anomalies.append("shard_chooser called without an instance")
                return shard_name(1)
            return shard_name(P["sc"][instance.grp - 1])

        def identity_chooser(mapper, primary_key, *, lazy_loaded_from, execution_options, bind_arguments, **kw):
            return [shard_name(x) for x in P["ic"][primary_key[0] - 1]]

        def execute_chooser(ctx):
            kind, arg = drv._classify(ctx.statement)
            if kind == "all":
                return [shard_name(x) for x in P["qall"]]
            if kind == "grp":
                return [shard_name(x) for x in P["qgrp"][arg - 1]]
            if kind == "get":
                return [shard_name(x) for x in P["qget"]]
            drv.anomalies.append("execute_chooser saw an unclassified statement: %s" % ctx.statement)
            return [shard_name(x) for x in P["qall"]]
        shards = {shard_name(i): self.engines[shard_name(i)] for i in range(1, ns + 1)}
        return self.hs.ShardedSession(shard_chooser=shard_chooser, identity_chooser=identity_chooser, execute_chooser=execute_chooser,
                                      shards=shards, autoflush=False)

    # ---- walk control
    @staticmethod
    def _ns(state):
        return len(state["st"]["db"])

    def reset(self, state):
        if self.sess is not None:
            self.sess.close()
        for i, c in self.raw.items():
            c.execute("delete from t")
        self.P = state["P"]
        self.ns = self._ns(state)
        for i, rows in enumerate(state["st"]["db"]):
            for r in rows:
                self.raw[i + 1].execute("insert into t (id, grp, val) values (?, ?, ?)", (r["pk"], r["g"], r["v"]))
        self.sess = self._make_session(self.P, self.ns)
        self.slots = {}          # (pk, g) -> object created by the program
        self.seen = []           # every object handed to the program (strong references: the identity map is weak)
        self.objs = {}           # identity key (pk, shard) -> object
        self.anomalies = []
        self.walkno = getattr(self, "walkno", 0) + 1

    def _call(self, fn):
        with warnings.catch_warnings():
            warnings.simplefilter("ignore")
            try:
                return "ok", fn()
            except Exception as e:
                return type(e).__name__, None

    def _key(self, o):
        k = self.sa.inspect(o).key
        return (k[1][0], int(k[2][1:])) if k is not None and k[2] is not None else None

    def _refresh_objs(self):
        insp = self.sa.inspect
        objs = {}
        for o in self.seen:
            st = insp(o)
            if st.persistent and st.session is self.sess:
                k = self._key(o)
                if k in objs and objs[k] is not o:
                    return "two different objects are persistent with identity key %r" % (k,)
                objs[k] = o
        self.objs = objs
        return None

    def _entries(self, res):
        """result objects -> [(pk, shard, grp)]; registers them, checking identity"""
        out = []
        for o in res:
            k = self._key(o)
            if k is None:
                return None, "query returned an object without identity key / token: %r" % (self.sa.inspect(o).key,)
            if k in self.objs:
                if self.objs[k] is not o:
                    return None, "a second object was returned for identity key %r" % (k,)
            else:
                for k2, o2 in self.objs.items():
                    if o2 is o:
                        return None, "ONE object returned for the identity keys %r and %r" % (k2, k)
                self.objs[k] = o
                self.seen.append(o)
            out.append({"pk": k[0], "tok": k[1], "g": o.grp})
        return out, None

    def _select(self, a, x):
        sa, T = self.sa, self.T
        variant = (self.walkno + self.nstep) % 3
        if a == "QueryShard":
            sh = shard_name(x)
            if variant == 0:
                return self.sess.query(T).set_shard(sh).order_by(T.id).all()
            if variant == 1:
                return self.sess.execute(sa.select(T).order_by(T.id), bind_arguments={"shard_id": sh}).scalars().all()
            return self.sess.execute(sa.select(T).order_by(T.id).options(self.hs.set_shard_id(sh))).scalars().all()
        if variant == 0:
            q = self.sess.query(T)
            if a == "QueryGrp":
                q = q.filter(T.grp == x)
            return q.order_by(T.id).all()
        stmt = sa.select(T)
        if a == "QueryGrp":
            stmt = stmt.where(T.grp == x)
        return self.sess.execute(stmt.order_by(T.id)).scalars().all()

    def step(self, frm, act, to):
        self.nstep += 1
        a, x, y = act["a"], act["x"], act["y"]
        T, sess = self.T, self.sess
        got = None
        if a == "Add":
            o = T(id=x, grp=y, val=0)
            self.slots[(x, y)] = o
            self.seen.append(o)
            ret, _ = self._call(lambda: sess.add(o))
        elif a == "Flush":
            ret, _ = self._call(sess.flush)
        elif a == "Commit":
            ret, _ = self._call(sess.commit)
        elif a == "Rollback":
            ret, _ = self._call(sess.rollback)
        elif a == "Expunge":
            ret, _ = self._call(sess.expunge_all)
            self.seen, self.objs, self.slots = [], {}, {}
            gc.collect()
        elif a == "Modify":
            o = self.objs.get((x, y))
            if o is None:
                return "harness: no object with identity key %r" % ((x, y),)
            ret, _ = self._call(lambda: setattr(o, "val", o.val + 1))
        elif a == "Delete":
            o = self.objs.get((x, y))
            if o is None:
                return "harness: no object with identity key %r" % ((x, y),)
            ret, _ = self._call(lambda: sess.delete(o))
        elif a in ("QueryAll", "QueryGrp", "QueryShard"):
            ret, res = self._call(lambda: self._select(a, x))
            if ret == "ok":
                got, err = self._entries(res)
                if err:
                    return "%s(%s): %s" % (a, x, err)
        elif a in ("GetTok", "GetBind"):
            sh = shard_name(y)
            if a == "GetTok":
                ret, o = self._call(lambda: sess.get(T, x, identity_token=sh))
            elif (self.walkno + self.nstep) % 2:
                ret, o = self._call(lambda: sess.get(T, x, bind_arguments={"shard_id": sh}))
            else:
                ret, o = self._call(lambda: sess.get(T, x, options=[self.hs.set_shard_id(sh)]))
            if ret == "ok":
                got, err = self._entries([] if o is None else [o])
                if err:
                    return "%s(%s, shard %s): %s" % (a, x, y, err)
        elif a == "Merge":
            # a DETACHED copy of the committed row (pk, shard y), loaded by another session, edited, merged into this session
            sh = shard_name(y)

            def detached():
                loader = self._make_session(self.P, self.ns)
                try:
                    d = loader.execute(self.sa.select(T).where(T.id == x), bind_arguments={"shard_id": sh}).scalars().one()
                    d.val, d.grp
                    loader.expunge(d)
                finally:
                    loader.close()
                return d
            r0, d = self._call(detached)
            if r0 != "ok" or not self.sa.inspect(d).detached or self._key(d) != (x, y):
                return "harness: no detached copy of row %r (%s)" % ((x, y), r0)
            d.val = d.val + 1
            ret, o = self._call(lambda: sess.merge(d))
            if ret == "ok":
                if o is d:
                    return "Merge(%s, shard %s): merge() returned the detached object itself" % (x, y)
                got, err = self._entries([o])
                if err:
                    return "Merge(%s, shard %s): %s" % (x, y, err)
        elif a == "Get":
            ret, o = self._call(lambda: sess.get(T, x))
            if ret == "ok":
                got, err = self._entries([] if o is None else [o])
                if err:
                    return "Get(%s): %s" % (x, err)
            else:
                o = None
                gc.collect()       # objects instanced for the rejected result are not referenced by anybody
        else:
            return "unknown action %r" % a
        exp = act["ret"]
        if isinstance(exp, str):
            if ret != exp:
                return "%s(%s, %s): call outcome %r, spec %r" % (a, x, y, ret, exp)
        else:
            if ret != "ok":
                return "%s(%s, %s): raised %s, spec returns %r" % (a, x, y, ret, exp)
            if got != exp:
                return "%s(%s, %s): result %r, spec %r" % (a, x, y, got, exp)
        if self.anomalies:
            return "chooser anomaly: %s" % self.anomalies[0]
        return self._compare(to, act["obs"], attrs=(self.walkno + self.nstep) % 4 != 0)

    # ---- observation
    def _raw_rows(self, i):
        return sorted(({"pk": r[0], "g": r[1], "v": r[2]} for r in self.raw[i].execute("select id, grp, val from t")), key=lambda r: r["pk"])

    @staticmethod
    def _rows(rs):
        return sorted(rs, key=lambda r: r["pk"])

    def _compare(self, to, obs, attrs=True):
        sess = self.sess
        err = self._refresh_objs()
        if err:
            return err
        for i in range(1, self.ns + 1):
            got = self._raw_rows(i)
            exp = self._rows(obs["db"][i - 1])
            if got != exp:
                return "file of shard %d holds committed rows %r, spec %r" % (i, got, exp)
        for i in range(self.ns + 1, NSMAX + 1):
            if self._raw_rows(i):
                return "file of unused shard %d holds rows" % i
        if obs["work"] != obs["db"]:
            for i in range(1, self.ns + 1):
                c = sess.connection(bind_arguments={"shard_id": shard_name(i)})
                got = [{"pk": r[0], "g": r[1], "v": r[2]} for r in c.exec_driver_sql("select id, grp, val from t order by id")]
                exp = self._rows(obs["work"][i - 1])
                if got != exp:
                    return "the session's transaction sees rows %r in shard %d, spec %r" % (got, i, exp)
        gotim = sorted((k[1][0], int(k[2][1:]) if k[2] is not None else 0) for k in sess.identity_map.keys())
        expim = sorted((k[0], k[1]) for k in to["st"]["im"])
        if gotim != expim:
            return "identity map keys (pk, identity_token) %r, spec %r" % (gotim, expim)
        gotp = sorted((o.id, o.grp) for o in sess.new)
        expp = sorted((p[0], p[1]) for p in obs["pend"])
        if gotp != expp:
            return "pending objects %r, spec %r" % (gotp, expp)
        if attrs:
            for e in obs["objs"]:
                o = self.objs.get((e["pk"], e["tok"]))
                if o is None:
                    # in the identity map (checked above) but never handed to the program cannot happen: the driver keeps every object
                    return "harness: object %r not known to the driver" % ((e["pk"], e["tok"]),)
                got = {"pk": o.id, "tok": int(self.sa.inspect(o).identity_token[1:]), "g": o.grp, "v": o.val}
                if got != e:
                    return "object with identity key %r reads %r, spec %r" % ((e["pk"], e["tok"]), got, e)
        return None

    def finish(self, state):
        """drain: forget the session's view, then every database read through its own shard id must show exactly the committed rows"""
        sess, T, sa = self.sess, self.T, self.sa
        sess.rollback()
        sess.expunge_all()
        self.seen, self.objs, self.slots = [], {}, {}
        for i in range(1, self.ns + 1):
            exp = self._rows(state["st"]["db"][i - 1])
            raw = self._raw_rows(i)
            if raw != exp:
                return "drain: file of shard %d holds %r, spec %r" % (i, raw, exp)
            objs = sess.execute(sa.select(T).order_by(T.id), bind_arguments={"shard_id": shard_name(i)}).scalars().all()
            got = [{"pk": o.id, "g": o.grp, "v": o.val} for o in objs]
            if got != exp:
                return "drain: shard %d read through the session gives %r, spec %r" % (i, got, exp)
            for o in objs:
                if sa.inspect(o).identity_token != shard_name(i):
                    return "drain: object loaded from shard %d carries identity token %r" % (i, sa.inspect(o).identity_token)
        sess.rollback()
        return None

    def close(self):
        try:
            if self.sess is not None:
                self.sess.close()
            for e in self.engines.values():
                e.dispose()
            for c in self.raw.values():
                c.close()
            for p in self.paths.values():
                os.unlink(p)
        except Exception:
            pass
