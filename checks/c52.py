"""C52 scoped_session gives each scope its own session, under any thread interleaving - Scoped.tla / TraceScoped.tla (DESIGN 3.14, 4, 2.5).

(a) TLC model-checks Scoped.tla exhaustively: scoped_session.__call__ / proxied attribute, method, close() / __call__(**kw) /
    remove() over ScopedRegistry (scopefunc) and ThreadLocalRegistry, split at every access to the shared registry; every program of
    2-3 threads x 1-3 operations x every interleaving; thread -> scope maps injective and with two / three threads sharing a scope.
(b) spec -> code: every labelled edge of the small interleaving graphs is replayed on the REAL scoped_session by a baton scheduler
    (real threads, one runnable at a time, yield point = call of a registry method / session factory / Session.close), comparing the
    registry, the closed sessions, the number of sessions created after every step and what each operation returned.
(c) code -> spec: the real scoped_session is run by 2-3 real threads pre-empted at every source LINE of orm/scoping.py and
    util/_collections.py (seeded random and bounded-pre-emption schedules); one event per scheduler step; all traces are validated by
    TraceScoped.tla (quick: ONE TLC run; thorough: one run per shard), POSTCONDITION names the rejected trace and event.  The
    property is also asserted harness-side on every snapshot.
"""
import concurrent.futures as cf
import copy
import json
import multiprocessing as mp
import os
import random
import re
import time

from engine import graph, tlc

LEVEL = "model_checking"
MANIFEST = dict(
    text="Scoped.tla models scoped_session at the grain of single accesses to the shared registry (lookup, session factory, dict.setdefault / "
         "thread-local assignment, has(), set(), Session.close(), clear()) for ScopedRegistry and ThreadLocalRegistry; TLC explores every program "
         "of 2 threads x <=3 and 3 threads x <=2 operations (call, call with kwargs, proxied attribute/method, proxied close, remove) under every "
         "interleaving, with injective thread->scope maps and with threads sharing a scope (calls/proxies only there), and checks: one session per "
         "scope between removes, sessions never shared between scopes, a call returns the registered session, remove() closes and discards exactly "
         "its own scope's session and touches no other registry entry, sessions are closed only by their own scope. Every edge of the small "
         "interleaving graphs is replayed on the real scoped_session by a deterministic baton scheduler; >=300 (quick) / >=5000 (thorough) "
         "line-level schedules of the real code are validated against the specification by TraceScoped.tla.",
    design_ref="3.14 (Scoped), 4 (C52, C53), 2.5, Appendix A.2",
    note="trusted: TLC, the baton scheduler (pre-emption grain = source line of scoping.py/_collections.py plus session factory and close(); "
         "dict.setdefault / dict item assignment / threading.local are atomic under the GIL), sessions numbered by a counting Session subclass; "
         "remove() by a thread whose scope is shared with another running thread is outside the domain (no defined meaning); the has()/set() "
         "race of scoped_session(**kw) inside ONE shared scope is a known finding; async_scoped_session, configure(), query_property() not covered",
    technique="TLA+ spec (Scoped.tla) + TLC exhaustive interleavings; spec->code replay of every state-graph edge under a deterministic thread "
              "scheduler; code->spec trace validation of line-level thread schedules (TraceScoped.tla)")

INVS = ["TypeOK", "SameScopeOneSession", "ScopesDisjoint", "RegistryOwned", "ClosedOnlyByOwnScope", "ClosedAccounted", "HandedStaysOpen"]
PROPS = ["ReturnedIsRegistered", "OtherScopesUntouched", "RemoveClosesAndDiscards", "NeverReRegistered"]
ALL_OPS = ("call", "callkw", "proxy", "pclose", "remove")
SHARED_OPS = ("call", "proxy", "pclose")
FOOTPRINT = ["Start", "Read", "Create", "SetDef", "KHas", "KSet", "RHas", "Close", "Clear", "Ret"]
NT = 3            # threads in trace files (unused ones never act)


def S(xs):
    return "{" + ", ".join(tlc.q(x) for x in xs) + "}"


def consts(threads, kinds, codes, opset, shared, maxops, kw_atomic):
    return dict(Threads=set(range(1, threads + 1)), Kinds=S(kinds), ScopeCodes=set(codes), OpSet=S(opset), SharedOps=S(shared),
                MaxOps=maxops, KwAtomic=kw_atomic)


# ----------------------------------------------------------------------------- code -> spec
def gen_jobs(rng, n, kw_atomic):
    """the schedule population"""
    shared_ops = list(SHARED_OPS) + (["callkw"] if kw_atomic else [])
    fam = [("A scoped 2 threads own scopes", 0.16, "scoped", [1, 2], 3), ("B scoped 3 threads own scopes", 0.16, "scoped", [1, 2, 3], 2),
           ("C scoped 2 threads one scope", 0.12, "scoped", [1, 1], 3), ("D scoped 3 threads, two share a scope", 0.14, "scoped", [1, 1, 2], 2),
           ("E scoped 3 threads one scope", 0.06, "scoped", [1, 1, 1], 2), ("F thread-local 2 threads", 0.10, "tlocal", [1, 2], 3),
           ("G thread-local 3 threads", 0.10, "tlocal", [1, 2, 3], 2), ("H bounded pre-emption", 0.16, None, None, None)]
    jobs = []

    def prog(sc, i, nops):
        shared = sum(1 for x in sc if x == sc[i]) > 1
        ops = shared_ops if shared else ALL_OPS
        # remove-heavy and call-heavy programs alternate so that calls follow removes
        w = {"call": 3, "callkw": 2, "proxy": 2, "pclose": 1, "remove": 3}
        return [rng.choices(ops, [w[o] for o in ops])[0] for _ in range(nops)]
    for label, share, kind, sc, nops in fam:
        k = max(4, int(round(n * share)))
        for i in range(k):
            if kind is None:
                kind2, sc2, nops2 = rng.choice([("scoped", [1, 2], 3), ("scoped", [1, 1], 3), ("scoped", [1, 1, 2], 2), ("tlocal", [1, 2], 3),
                                                ("scoped", [1, 2, 3], 2)])
                pts = {str(rng.randint(2, 90)): rng.randint(0, 1) for _ in range(1 + i % 3)}
                policy = ["preempt", pts]
            else:
                kind2, sc2, nops2 = kind, sc, nops
                policy = ["random", rng.randrange(1 << 30), rng.choice([0.05, 0.15, 0.3, 0.6, 1.0])]
            jobs.append(dict(tid=len(jobs) + 1, label=label, kind=kind2, sc=sc2, programs=[prog(sc2, j, nops2) for j in range(len(sc2))],
                             policy=policy))
    return jobs


def run_job(job_work):
    job, work = job_work
    from checks import scoped_sched as ss
    try:
        return dict(ss.explore(job, work), tid=job["tid"])
    except ss.SchedError as e:
        return {"tid": job["tid"], "machinery": str(e)}


def _run_jobs(chunk):
    return [run_job(j) for j in chunk]


def flatten(traces):
    out = []
    for t in traces:
        sc = list(t["sc"]) + list(range(len(t["sc"]) + 1, NT + 1))
        out.append({"tr": t["id"], "n": 0, "t": 0, "k": "new", "op": "-", "res": "-", "o": {"reg": [0] * NT, "closed": [], "n": 0},
                    "kind": t["kind"], "sc": sc})
        for i, e in enumerate(t["ev"]):
            o = e["o"]
            out.append({"tr": t["id"], "n": i + 1, "t": e["t"], "k": e["k"], "op": e["op"], "res": e["res"],
                        "o": {"reg": list(o["reg"]) + [0] * (NT - len(o["reg"])), "closed": o["closed"], "n": o["n"]}, "kind": "-", "sc": []})
    return out


_RE_REJ = re.compile(r'"REJECTED trace",\s*(\d+),\s*"at event",\s*(\d+)')
TRACE_INVS = ["Progress"] + INVS


def validate_shard(args):
    sid, traces, workdir, kw_atomic = args
    os.makedirs(workdir, exist_ok=True)
    path = os.path.join(workdir, "traces_%d.json" % sid)
    with open(path, "w") as f:
        json.dump(flatten(traces), f, separators=(",", ":"))
    cfgt = tlc.cfg(constants=consts(NT, ["scoped"], [321], ALL_OPS, ALL_OPS, 99, kw_atomic), init="TInit", next_="TNext",
                   invariants=TRACE_INVS, view="TView", postcondition="AllAccepted")
    try:
        r = tlc.run("TraceScoped", cfgt, os.path.join(workdir, "tlc_%d" % sid), workers=1, timeout=1700, env={"TRACE_FILE": path},
                    keep_stdout=False, heap="3g", java_opts=("-XX:ParallelGCThreads=2",))
    except tlc.TLCError as e:
        m = _RE_REJ.search(str(e))
        if m:
            return {"ok": False, "rejected": (int(m.group(1)), int(m.group(2))), "violated": None, "distinct": 0, "generated": 0}
        return {"ok": False, "error": str(e)[-1500:]}
    if r.violated:
        m = _RE_REJ.search(r.stdout)
        return {"ok": False, "rejected": (int(m.group(1)), int(m.group(2))) if m else None, "violated": r.violated,
                "distinct": r.distinct, "generated": r.generated}
    return {"ok": True, "rejected": None, "violated": None, "distinct": r.distinct, "generated": r.generated}


def validate_all(chk, traces, tag, nshards, kw_atomic):
    """all traces through TraceScoped; a rejected trace is reported and the rest of its shard re-run without it.
    -> (accepted ids, [(trace, event no, violated)], states, transitions, tlc runs)"""
    by_id = {t["id"]: t for t in traces}
    shards = [s for s in (traces[i::nshards] for i in range(nshards)) if s]
    rejected, states, trans, runs = [], 0, 0, 0
    rnd = 0
    while shards and rnd < 4:
        rnd += 1
        args = [(rnd * 100 + i, s, os.path.join(chk.work, "tv_" + tag), kw_atomic) for i, s in enumerate(shards)]
        with cf.ThreadPoolExecutor(max_workers=max(1, min(len(args), tlc.NPROC))) as ex:
            res = list(ex.map(validate_shard, args))
        nxt = []
        for s, r in zip(shards, res):
            runs += 1
            if "error" in r:
                chk.machinery("TraceScoped run failed: " + r["error"])
            states += r["distinct"]
            trans += r["generated"]
            if r["ok"]:
                continue
            if r["rejected"] is None:
                chk.machinery("TraceScoped: %s violated but no trace position reported" % r["violated"])
            tid, n = r["rejected"]
            rejected.append((by_id[tid], n, r["violated"]))
            rest = [t for t in s if t["id"] != tid]
            if rest:
                nxt.append(rest)
        shards = nxt
    bad = {t["id"] for t, _, _ in rejected}
    return [t["id"] for t in traces if t["id"] not in bad], rejected, states, trans, runs


# ----------------------------------------------------------------------------- helpers on graphs
def _items(f):
    if isinstance(f, list):
        return [(i + 1, v) for i, v in enumerate(f)]
    return [(int(k), v) for k, v in f.items()]


def edge_classes(g):
    """(interleaved edges, setdefault-loser edges): an internal step taken while another thread is inside an operation; a SetDef that
    keeps the entry another thread of the scope stored meanwhile"""
    inter = losers = 0
    for fk, act, tk in g.edges:
        if act["a"] in ("Start", "Ret"):
            continue
        T = dict(_items(g.states[fk]["T"]))
        if any(T[t]["pc"] != "idle" for t in T if t != act["t"]):
            inter += 1
        if act["a"] == "SetDef":
            new = T[act["t"]]["new"]
            if dict(_items(g.states[tk]["T"]))[act["t"]]["tmp"] != new:
                losers += 1
    return inter, losers


def violating_walk(g, pred):
    """shortest walk from an initial state to a state satisfying pred (BFS)"""
    from collections import deque
    par = {k: None for k in g.inits}
    dq = deque(g.inits)
    while dq:
        s = dq.popleft()
        if pred(g.states[s]):
            w = []
            while par[s] is not None:
                w.append(par[s])
                s = g.edges[par[s]][0]
            return list(reversed(w))
        for ei in g.out[s]:
            t = g.edges[ei][2]
            if t not in par:
                par[t] = ei
                dq.append(t)
    return None


def main(chk):
    from checks import scoped_sched as ss
    rng = random.Random(chk.seed)
    quick = chk.quick
    W = tlc.NPROC
    phase, t0 = {}, time.time()

    def lap(name):
        nonlocal t0
        phase[name] = round(time.time() - t0, 1)
        t0 = time.time()
    try:
        tree = ss.probe_tree(os.path.join(chk.work, "probe"))
    except ss.SchedError as e:
        chk.machinery("scheduler: %s" % e)
    kwa = tree["kw_atomic"]
    foot = FOOTPRINT + (["KClose"] if kwa else [])
    shared_ops = list(SHARED_OPS) + (["callkw"] if kwa else [])
    # ------------------------------------------------------------------ (a) exhaustive model checking
    if quick:
        runs = [("2 threads x 3 ops, ScopedRegistry own scopes + one shared scope, ThreadLocalRegistry",
                 consts(2, ["scoped", "tlocal"], [21, 11], ALL_OPS, shared_ops, 3, kwa)),
                ("3 threads x 1 op, own scopes / two share / all share", consts(3, ["scoped"], [321, 211, 111], ALL_OPS, shared_ops, 1, kwa))]
    else:
        runs = [("2 threads x 3 ops, ScopedRegistry own scopes + one shared scope, ThreadLocalRegistry",
                 consts(2, ["scoped", "tlocal"], [21, 11], ALL_OPS, shared_ops, 3, kwa)),
                ("3 threads x 2 ops, own scopes", consts(3, ["scoped"], [321], ALL_OPS, shared_ops, 2, kwa)),
                ("3 threads x 2 ops, two share a scope / all share", consts(3, ["scoped"], [211, 111], ALL_OPS, shared_ops, 2, kwa)),
                ("3 threads x 2 ops, ThreadLocalRegistry", consts(3, ["tlocal"], [321], ["call", "callkw", "pclose", "remove"], shared_ops, 2, kwa))]
    states = trans = 0
    mc_detail, cov = [], {}

    def one(item):
        i, (label, c) = item
        return tlc.run("Scoped", tlc.cfg(constants=c, invariants=INVS, properties=PROPS, view="View"), os.path.join(chk.work, "mc%d" % i),
                       workers=max(1, W // (2 if quick else 1)), timeout=2400, keep_stdout=False, coverage=True, heap="6g")
    with cf.ThreadPoolExecutor(max_workers=2 if quick else 1) as ex:
        outs = list(ex.map(one, enumerate(runs)))
    for (label, c), r in zip(runs, outs):
        if r.violated:
            chk.violation({"spec": "Scoped", "action": "TLC", "invariant": r.violated, "config": label},
                          "TLC: %s violated in Scoped.tla (%s)" % (r.violated, label))
        states += r.distinct
        trans += r.generated
        mc_detail.append({"config": label, "distinct": r.distinct, "generated": r.generated, "depth": r.depth, "wall_s": round(r.wall, 1)})
        for a, (d, t) in r.coverage.items():
            cov[a] = cov.get(a, 0) + t
    for a in foot:
        if not cov.get(a):
            chk.machinery("vacuous: action %s of Scoped.tla never taken" % a)
    lap("model_check_s")
    # ------------------------------------------------------------------ the keyword call inside ONE shared scope
    kwc = consts(2, ["scoped"], [11], ALL_OPS, ["call", "callkw"], 2, kwa)
    kwfinding = None
    rk = tlc.run("Scoped", tlc.cfg(constants=kwc, invariants=INVS, properties=PROPS, view="View"), os.path.join(chk.work, "kw"), workers=W,
                 timeout=900, keep_stdout=False)
    states += rk.distinct
    trans += rk.generated
    if rk.violated and kwa:
        chk.violation({"spec": "Scoped", "action": "TLC", "invariant": rk.violated, "config": "shared-scope-callkw", "variant": "atomic"},
                      "TLC: %s violated in Scoped.tla with the atomic keyword call (two threads of one scope, call + call(**kw))" % rk.violated)
    # ------------------------------------------------------------------ (b) spec -> code: every edge of the small graphs
    if quick:
        gcfgs = [("2 threads own scopes, every op, 1 op each", consts(2, ["scoped"], [21], ALL_OPS, shared_ops, 1, kwa)),
                 ("2 threads own scopes, call/call(**kw)/remove, 2 ops each", consts(2, ["scoped"], [21], ["call", "callkw", "remove"], shared_ops, 2, kwa)),
                 ("2 threads ONE scope, call/proxy, 2 ops each", consts(2, ["scoped"], [11], ALL_OPS, ["call", "proxy"], 2, kwa)),
                 ("3 threads, two share a scope, 1 op each", consts(3, ["scoped"], [211], ["call", "remove"], ["call"], 1, kwa)),
                 ("thread-local, 2 threads, call/remove 2 ops each", consts(2, ["tlocal"], [21], ["call", "remove"], shared_ops, 2, kwa)),
                 ("thread-local, 2 threads, every op, 1 op each", consts(2, ["tlocal"], [21], ALL_OPS, shared_ops, 1, kwa)),
                 ("2 threads ONE scope, call + call(**kw), 1 op each", consts(2, ["scoped"], [11], ALL_OPS, ["call", "callkw"], 1, kwa))]
    else:
        gcfgs = [("2 threads own scopes, every op, 2 ops each", consts(2, ["scoped"], [21], ALL_OPS, shared_ops, 2, kwa)),
                 ("2 threads ONE scope, call/proxy/pclose, 2 ops each", consts(2, ["scoped"], [11], ALL_OPS, SHARED_OPS, 2, kwa)),
                 ("3 threads own scopes, call/call(**kw)/remove, 1 op each", consts(3, ["scoped"], [321], ["call", "callkw", "remove"], shared_ops, 1, kwa)),
                 ("3 threads, two share a scope, 1 op each", consts(3, ["scoped"], [211], ALL_OPS, SHARED_OPS, 1, kwa)),
                 ("3 threads ONE scope, call/pclose, 1 op each", consts(3, ["scoped"], [111], ALL_OPS, ["call", "pclose"], 1, kwa)),
                 ("thread-local, 2 threads, every op, 2 ops each", consts(2, ["tlocal"], [21], ALL_OPS, shared_ops, 2, kwa)),
                 ("2 threads ONE scope, call + call(**kw), 2 ops each", consts(2, ["scoped"], [11], ALL_OPS, ["call", "callkw"], 2, kwa))]
    gdetail, samples = [], []
    gedges = gsteps = gwalks = inter_total = loser_total = 0
    gcov = {}

    def dump(item):
        i, (label, c) = item
        racy = "call(**kw)" in label and "ONE scope" in label and not kwa
        cfgt = tlc.cfg(constants=c, init="InitEmit", invariants=[] if racy else INVS, properties=[] if racy else PROPS, view="View",
                       action_constraints=["Emit"])
        return graph.dump("Scoped", cfgt, os.path.join(chk.work, "g%d" % i), timeout=2400, heap="4g")
    with cf.ThreadPoolExecutor(max_workers=max(1, min(len(gcfgs), W // 2))) as ex:
        graphs = list(ex.map(dump, enumerate(gcfgs)))
    lap("edge_dumps_s")
    kwgraph = None
    for (label, c), g in zip(gcfgs, graphs):
        r = g.tlc
        if r.violated:
            chk.violation({"spec": "Scoped", "action": "TLC", "invariant": r.violated, "config": label},
                          "TLC: %s violated in Scoped.tla (%s)" % (r.violated, label))
        states += r.distinct
        trans += r.generated
        for e in g.edges:
            gcov[e[1]["a"]] = gcov.get(e[1]["a"], 0) + 1
        inter, losers = edge_classes(g)
        inter_total += inter
        loser_total += losers
        walks, plan = graph.plan_tours(g, 200, rng)
        extra = graph.random_walks(g, 40 if quick else 400, 200, rng)
        steps, mism = graph.replay(g, walks + extra, lambda wid, wd: ss.Driver(wid, wd), os.path.join(chk.work, "replay"), nproc=W)
        for m in mism:
            a = m["act"] if isinstance(m["act"], dict) else {"a": m["act"]}
            if "watchdog" in m["mismatch"] or "SchedError" in m["mismatch"]:
                chk.machinery("scheduler during replay: " + m["mismatch"][:600])
            chk.violation({"spec": "Scoped", "action": a.get("a"), "op": a.get("op"), "kind": "conformance", "config": label},
                          "real scoped_session diverges from Scoped.tla (%s): %s" % (label, m["mismatch"]),
                          {"config": label, "walk": m["walk"], "step": m["step"], "mismatch": m["mismatch"]})
        gedges += len(g.edges)
        gsteps += steps
        gwalks += len(walks) + len(extra)
        gdetail.append(dict(config=label, distinct=r.distinct, edges=len(g.edges), interleaved_edges=inter, setdefault_loser_edges=losers,
                            plan=plan, random_walks=len(extra), mismatches=len(mism)))
        if "call(**kw)" in label and "ONE scope" in label:
            kwgraph = (label, g)
        if walks:
            w = max(walks, key=len)
            samples.append({"config": label, "walk": ["%s(t%d%s)%s" % (g.edges[ei][1]["a"], g.edges[ei][1]["t"],
                                                                     "," + g.edges[ei][1]["op"] if g.edges[ei][1]["a"] == "Start" else "",
                                                                     "->" + g.edges[ei][1]["ret"] if g.edges[ei][1]["a"] == "Ret" else "")
                                                      for ei in w]})
    for a in foot:
        if not gcov.get(a):
            chk.machinery("vacuous: no replayed edge with action %s" % a)
    if not loser_total:
        chk.machinery("vacuous: no edge on which setdefault keeps another thread's session")
    lap("edge_replay_s")
    # the has()/set() race of the keyword call: TLC's counterexample, replayed on the real code
    if not kwa:
        if not rk.violated:
            chk.machinery("Scoped.tla with KwAtomic=FALSE satisfies every property in the shared-scope keyword-call configuration: the "
                          "named deviation KSet is not exercised")
        label, g = kwgraph

        def two_sessions(st):
            return any(len(c) > 1 for _, c in _items(st["H"]["cur"]))
        w = violating_walk(g, two_sessions)
        if w is None:
            chk.machinery("no state with two sessions in one scope in the keyword-call graph although TLC reports %s" % rk.violated)
        steps, mism = graph.replay(g, [w], lambda wid, wd: ss.Driver(wid, wd), os.path.join(chk.work, "replay_kw"), nproc=1)
        walk_txt = ["%s(t%d)%s" % (g.edges[ei][1]["a"], g.edges[ei][1]["t"], "->" + g.edges[ei][1]["ret"] if g.edges[ei][1]["a"] == "Ret" else "")
                    for ei in w]
        if mism:
            chk.violation({"spec": "Scoped", "action": "KSet", "kind": "conformance", "config": label},
                          "the keyword-call race of Scoped.tla does not replay on the real code: " + mism[0]["mismatch"], {"walk": walk_txt})
        else:
            kwfinding = walk_txt
            chk.violation({"spec": "Scoped", "action": "TLC", "invariant": "SameScopeOneSession", "config": "shared-scope-callkw",
                           "cause": "callkw-has-set-race", "reproduced_on_real_code": True},
                          "two threads of ONE scope calling scoped_session(**kw) / scoped_session() concurrently are handed two different "
                          "Sessions (TLC: %s; interleaving replayed on the real code: %s)" % (rk.violated, " ".join(walk_txt)), {"walk": walk_txt})
        # the repaired form satisfies everything
        ra = tlc.run("Scoped", tlc.cfg(constants=dict(kwc, KwAtomic=True), invariants=INVS, properties=PROPS, view="View"),
                     os.path.join(chk.work, "kwa"), workers=W, timeout=900, keep_stdout=False)
        if ra.violated:
            chk.violation({"spec": "Scoped", "action": "TLC", "invariant": ra.violated, "config": "shared-scope-callkw", "variant": "atomic"},
                          "TLC: %s violated in Scoped.tla even with the atomic keyword call" % ra.violated)
        states += ra.distinct
        trans += ra.generated
    lap("keyword_call_race_s")
    # ------------------------------------------------------------------ (c) code -> spec
    n = 320 if quick else 5200
    jobs = gen_jobs(rng, n, kwa)
    nproc = max(1, min(W, len(jobs) // 8))
    chunks = [[(j, os.path.join(chk.work, "ex%d" % i)) for j in jobs[i::nproc]] for i in range(nproc)]
    ctx = mp.get_context("fork")
    with ctx.Pool(nproc) as pool:
        results = [x for ch in pool.map(_run_jobs, chunks) for x in ch]
    results.sort(key=lambda x: x["tid"])
    jobs_by = {j["tid"]: j for j in jobs}
    traces, tot, per_label = [], {}, {}
    for res in results:
        j = jobs_by[res["tid"]]
        if "machinery" in res:
            chk.machinery("scheduler: %s (job %r)" % (res["machinery"], j))
        for sig, text in res["problems"]:
            chk.violation(dict(sig, spec="TraceScoped", config=j["label"]), "harness assertion on the real scoped_session: " + text, j)
        traces.append(res["trace"])
        for k, v in res["stats"].items():
            tot[k] = tot.get(k, 0) + v
        per_label[j["label"]] = per_label.get(j["label"], 0) + 1
    lap("schedules_s")
    # binding self-test: corrupted copies of recorded traces must be rejected
    corrupt = []
    cand = [t for t in traces if any(e["k"] == "ret" and e["res"].isdigit() for e in t["ev"])]
    if cand:
        t1 = copy.deepcopy(cand[len(cand) // 2])
        for e in t1["ev"]:
            if e["k"] == "ret" and e["res"].isdigit():
                e["res"] = str(int(e["res"]) + 1)
                break
        t2 = copy.deepcopy(cand[len(cand) // 3])
        hit = False
        for e in t2["ev"]:
            if hit or any(e["o"]["reg"]):
                hit = True
                e["o"] = dict(e["o"], reg=[(x + 1 if x else 0) for x in e["o"]["reg"]])
        for k, t in enumerate((t1, t2)):
            t["id"] = 900000 + k
            corrupt.append(t)
    nshards = 1 if quick else max(1, min(W, len(traces) // 300))
    with cf.ThreadPoolExecutor(max_workers=3) as ex:
        fmain = ex.submit(validate_all, chk, traces, "main", nshards, kwa)
        fself = [ex.submit(validate_all, chk, [t], "self%d" % k, 1, kwa) for k, t in enumerate(corrupt)]
        accepted, rejected, tstates, ttrans, truns = fmain.result()
        selfres = [f.result() for f in fself]
    lap("trace_validation_s")
    for tr, nev, violated in rejected:
        j = jobs_by[tr["id"]]
        ev = tr["ev"][nev - 1] if 0 < nev <= len(tr["ev"]) else None
        what = ("real scoped_session step not explained by Scoped.tla: trace %d (%s) event %d %s" % (tr["id"], j["label"], nev, json.dumps(ev))
                if not violated else "invariant %s violated on a state reached by the real scoped_session: trace %d (%s) event %d" % (
                    violated, tr["id"], j["label"], nev))
        chk.violation({"spec": "TraceScoped", "action": (ev or {}).get("k", "?"), "op": (ev or {}).get("op", "?"), "kind": "trace-rejected",
                       "invariant": violated, "config": j["label"]}, what,
                      {"job": j, "event_no": nev, "event": ev, "context": tr["ev"][max(0, nev - 8):nev]})
    selftest = 0
    for k, (_, rej, _, _, _) in enumerate(selfres):
        if not rej and not rejected:
            chk.machinery("binding self-test: corrupted trace %d was accepted by TraceScoped" % k)
        selftest += 1 if rej else 0
    switched = 0
    for t in traces:
        inside = set()
        prev = None
        hit = False
        for e in t["ev"]:
            if e["k"] == "call":
                inside.add(e["t"])
            if prev is not None and prev != e["t"] and prev in inside:
                hit = True
            if e["k"] == "ret":
                inside.discard(e["t"])
            prev = e["t"]
        switched += 1 if hit else 0
    if not chk.violations and switched < len(traces) // 4:
        chk.machinery("vacuous schedules: only %d of %d traces switch threads inside an operation" % (switched, len(traces)))
    sample_tr = []
    if traces:
        t = traces[len(traces) // 2]
        sample_tr = [{"trace": t["id"], "kind": t["kind"], "scopes": t["sc"], "programs": jobs_by[t["id"]]["programs"], "events": len(t["ev"]),
                      "excerpt": ["t%d %s %s %s reg=%r closed=%r n=%d" % (e["t"], e["k"], e["op"], e["res"] if e["k"] == "ret" else "",
                                                                        e["o"]["reg"], e["o"]["closed"], e["o"]["n"]) for e in t["ev"][:16]]}]
    return chk.finish(
        dict(phase_wall=phase, tree_variant=tree, states=states, transitions=trans, model_check_runs=mc_detail, action_coverage=cov,
             graph_edges=gedges, graph_edges_by_action=gcov, graph_walks_replayed=gwalks, graph_steps_replayed=gsteps, graphs=gdetail,
             interleaved_edges=inter_total, setdefault_loser_edges=loser_total, keyword_call_race_walk=kwfinding,
             traces_validated_against_impl=len(accepted) + gwalks, schedules_validated=len(accepted), traces_rejected=len(rejected),
             trace_events=tot.get("events", 0), scheduler_steps=tot.get("steps", 0), line_preemption_points=tot.get("line_yields", 0),
             sessions_created=tot.get("created", 0), trace_states=tstates, trace_transitions=ttrans, trace_tlc_runs=truns,
             schedules_by_family=per_label, schedules_switching_inside_an_operation=switched,
             distinct_nontrivial=inter_total + switched, evaluations=gsteps + tot.get("steps", 0), binding_selftests_rejected=selftest,
             samples=samples[:3] + sample_tr, exhaustive=True,
             rule="spec->code: every labelled edge of the interleaving graphs (one access to the shared registry by one thread) replayed on the real "
                  "scoped_session; code->spec: seeded random (switch probability 0.05..1 per line) and bounded pre-emption (1-3 forced switches) "
                  "schedules of 2-3 real threads x 2-3 operations; non-trivial = an edge taken while another thread is inside an operation / a "
                  "schedule that switches threads inside an operation",
             checker_cmd="tlc Scoped.tla (VIEW View; ACTION_CONSTRAINT Emit for the graphs); tlc TraceScoped.tla -workers 1 (POSTCONDITION AllAccepted)"),
        assumptions=["pre-emption grain is the source line of orm/scoping.py and util/_collections.py plus the session factory and Session.close() "
                     "(CPython with the GIL: dict.setdefault, dict item assignment/deletion and threading.local access are atomic)",
                     "threads sharing a scope with another thread only call / use proxied attributes, methods, close(); remove() there is outside "
                     "the property's domain",
                     "bounded: <=3 threads, <=3 operations per thread; Sessions are a counting subclass bound to a SQLite file engine",
                     "the spec variant for scoped_session(**kw) (KwAtomic) is chosen by running the race on the tree under test"])


def replay(chk, path):
    """re-run the schedule(s) / walk(s) stored in a replay file"""
    from checks import scoped_sched as ss
    with open(path) as f:
        data = json.load(f)
    kwa = ss.probe_tree(os.path.join(chk.work, "probe"))["kw_atomic"]
    n = 0
    for case in data.get("cases", []):
        j = case["replay"].get("job") if isinstance(case.get("replay"), dict) else None
        if j is None and isinstance(case.get("replay"), dict) and "programs" in case["replay"]:
            j = case["replay"]
        if not j:
            print("replay: case without a schedule (graph walk): %s" % json.dumps(case["replay"])[:1500])
            continue
        res = run_job((j, os.path.join(chk.work, "rp")))
        if "trace" not in res:
            chk.violation(case["sig"], "replayed schedule: %r" % (res,), case["replay"])
            continue
        n += 1
        for sig, text in res["problems"]:
            print("replay: harness assertion:", text)
            chk.violation(dict(sig, spec="TraceScoped"), text, case["replay"])
        _, rej, _, _, _ = validate_all(chk, [res["trace"]], "replay%d" % n, 1, kwa)
        for t, nev, violated in rej:
            print("replay: trace rejected at event", nev, json.dumps(t["ev"][nev - 1]))
            chk.violation(case["sig"], "replayed schedule rejected again at event %d" % nev, case["replay"])
    return chk.finish(dict(replayed=n), assumptions=[])
