"""Driver binding ConnTxn.tla to a real sqlalchemy Connection (SQLite file, modern autocommit=False mode, NullPool)."""
import os
import sqlite3
import warnings


class Driver:
    def __init__(self, wid, workdir, mode="sync"):
        os.makedirs(workdir, exist_ok=True)
        self.path = os.path.join(workdir, "db.sqlite")
        if os.path.exists(self.path):
            os.unlink(self.path)
        self.obs = sqlite3.connect(self.path, isolation_level=None)
        self.obs.execute("create table t (id integer primary key)")
        import sqlalchemy as sa
        from sqlalchemy.pool import NullPool
        self.sa = sa
        self.engine = sa.create_engine("sqlite:///" + self.path, connect_args={"autocommit": False}, poolclass=NullPool)
        self.conn = None
        self.handles = []

    def reset(self, state):
        if self.conn is not None:
            try:
                self.conn.close()
            except Exception:
                pass
        self.obs.execute("delete from t")
        self.conn = self.engine.connect()
        self.handles = []

    def _call(self, fn):
        with warnings.catch_warnings(record=True) as w:
            warnings.simplefilter("always")
            try:
                res = fn()
                ret = "ok"
            except Exception as e:
                res = None
                ret = type(e).__name__
        if any(issubclass(x.category, self.sa.exc.SAWarning) for x in w):
            ret += "+warn"
        return ret, res

    def step(self, frm, act, to):
        a = act["a"]
        c = self.conn
        sa = self.sa
        nh = len(frm["h"])
        if a == "Begin":
            ret, res = self._call(c.begin)
            if ret.startswith("ok"):
                self.handles.append(res)
        elif a == "BeginNested":
            ret, res = self._call(c.begin_nested)
            if len(to["h"]) > nh:
                if frm["root"] == 0 and to["root"] != 0:
                    self.handles.append(c.get_transaction())
                if ret.startswith("ok"):
                    self.handles.append(res)
        elif a == "Exec":
            k = to["nrow"]
            ret, res = self._call(lambda: c.execute(sa.text("insert into t (id) values (:k)"), {"k": k}))
            if frm["root"] == 0 and to["root"] != 0:
                self.handles.append(c.get_transaction())
        elif a == "ConnCommit":
            ret, res = self._call(c.commit)
        elif a == "ConnRollback":
            ret, res = self._call(c.rollback)
        elif a in ("H_commit", "H_rollback", "H_close"):
            h = self.handles[act["arg"] - 1]
            ret, res = self._call(getattr(h, a[2:]))
        elif a == "Close":
            ret, res = self._call(c.close)
        elif a == "WithEnter":
            h = self.handles[act["arg"] - 1]
            ret, res = self._call(h.__enter__)
        elif a in ("WithExit", "WithExitExc"):
            h = self.handles[act["arg"] - 1]
            if a == "WithExit":
                ret, res = self._call(lambda: h.__exit__(None, None, None))
            else:
                boom = ValueError("boom")
                ret, res = self._call(lambda: h.__exit__(ValueError, boom, None))
                if ret.startswith("ok") and not res:      # __exit__ returned falsy: the block's exception propagates
                    ret = "raised" + ret[2:]
        else:
            return "unknown action %r" % a
        if len(self.handles) != len(to["h"]):
            return "handle list out of step: program holds %d, spec %d" % (len(self.handles), len(to["h"]))
        if ret != act["ret"]:
            return "call outcome %r, spec %r" % (ret, act["ret"])
        o = act["obs"]
        try:
            got = {"closed": c.closed,
                   "intx": (not c.closed) and c.in_transaction(),
                   "innested": (not c.closed) and c.in_nested_transaction()}
        except Exception as e:
            return "observer raised %r" % e
        rows = sorted(r[0] for r in self.obs.execute("select id from t"))
        got["committed"] = rows
        exp = {"closed": o["closed"], "intx": o["intx"], "innested": o["innested"], "committed": sorted(o["committed"])}
        if got != exp:
            return "observed %r, spec %r" % (got, exp)
        return None

    def close(self):
        try:
            if self.conn is not None:
                self.conn.close()
            self.engine.dispose()
            self.obs.close()
        except Exception:
            pass
