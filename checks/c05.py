"""C05 literal rendering is equivalent to binding and cannot inject SQL - Lexers.tla (DESIGN 3.12, 4 C05).

TLC (one run over all families): for every string s up to the bound over {' " \\ % : a A space ; - . ] ` non-ASCII} the literal Render(s)
of each dialect family ('' doubling; backslash doubling for MySQL / PostgreSQL without standard_conforming_strings; N'' for MSSQL
Unicode; %% for format/pyformat drivers) is read by that backend's lexer as exactly ONE string token with value s, alone and between
other tokens (LitOK, LitClosed); four deliberately mismatched renderer/lexer pairs must FAIL the theorem (non-vacuity).  Mode "scalar"
(code -> spec): every literal the implementation renders for int / float / Decimal / date / time / bool / None boundary values must
lex as one literal token (ScalarOK).
Binding: for every enumerated string and each of 12 dialect configurations x 4 string types the real render_literal_value, the
literal_binds compilation and the literal_execute expansion must EQUAL Render(s); on SQLite every string and every scalar value is
executed bound / literal_binds / literal_execute in SELECT list, WHERE, IN, CASE and concatenation positions: rows identical and
equal to the value semantics the specification proves.
"""
import datetime as dt
import decimal
import os
import random
import sqlite3

from checks import lexers_common as lc

LEVEL = "model_checking"
MANIFEST = dict(
    text="Lexers.tla: SQL lexers of five backends as state machines and the string-literal renderer stated per character; TLC proves for "
         "every string of <=2 (quick) / <=3 (thorough) characters over 14 quote/escape-weighted characters (and <=4/5 over {' \\ % a}) that "
         "the rendered literal is exactly one string token with the input as value, for the ''-doubling, backslash, N'' and %%-doubling "
         "families, and that four mismatched renderer/lexer pairs break it. Every case is bound to render_literal_value / literal_binds / "
         "literal_execute of 12 dialect configurations (output must equal the specification's) and executed on SQLite in SELECT-list, WHERE, "
         "IN, CASE and concatenation positions with bound, literal_binds and literal_execute parameters (rows must be identical and equal to "
         "the value the specification derives). Scalar literals (int/float/Decimal/date/datetime/time/bool/None at boundary values) rendered "
         "by the implementation are validated by TLC as single literal tokens and executed the same way on SQLite.",
    design_ref="3.12, 4 (C05)",
    note="trusted: TLC; the transcription of each backend's string-literal grammar (SQLite's is calibrated by executing every rendered "
         "literal on sqlite3; MySQL / PostgreSQL / MSSQL / Oracle lexers follow their documentation - no server here); format/pyformat "
         "drivers are assumed to halve %%; non-finite floats have no SQL literal (known finding)",
    technique="TLA+ spec (Lexers.tla) + TLC exhaustive theorem checking over all strings within the bound; spec->code replay of every "
              "enumerated string; code->spec validation of rendered scalar literals")


def _special(s):
    return "".join(sorted(set(c for c in s if c in "'\"\\%:;-`]" or ord(c) > 127)))


def scalar_values():
    """(label, type factory, value, kind, executable on SQLite with a bound parameter)"""
    import sqlalchemy as sa
    D = decimal.Decimal
    out = []
    for v in (0, 1, -1, 7, 2 ** 31 - 1, -2 ** 31, 2 ** 31, 2 ** 53 + 1, 2 ** 63 - 1, -2 ** 63, True):
        out.append(("int", sa.Integer, v, "num"))
        out.append(("bigint", sa.BigInteger, v, "num"))
    for v in (0.0, -0.0, 1.5, -2.25, 0.1, 1 / 3, 1e16, 1e-7, 123456789.125, 5e-324, 2.2250738585072014e-308, 1.7976931348623157e308,
              -1.7976931348623157e308, 1e22, 1e21, 3):
        out.append(("float", sa.Float, v, "num"))
    for v in ("0", "1.10", "-0.00", "1E+2", "1E-10", "-7.5", "12345678901234.5678", "0.1", "1E+30", "-1E-30", "100"):
        out.append(("numeric", sa.Numeric, D(v), "num"))
        out.append(("numeric_10_2", lambda: sa.Numeric(10, 2), D(v), "num"))
    out.append(("numeric", sa.Numeric, 2.5, "num"))
    out.append(("float", sa.Float, D("2.50"), "num"))
    # values without a numeric literal: the renderer must refuse them or write something the backend reads as ONE literal
    for v in (float("inf"), float("-inf"), float("nan")):
        out.append(("float", sa.Float, v, "num"))
    for v in (D("Infinity"), D("NaN"), "nan", "1_0", " 7 ", "1e5"):
        out.append(("numeric", sa.Numeric, v, "num"))
    for v in (dt.date(1, 1, 1), dt.date(9999, 12, 31), dt.date(2024, 2, 29), dt.date(1970, 1, 1)):
        out.append(("date", sa.Date, v, "str"))
    for v in (dt.datetime(1, 1, 1), dt.datetime(9999, 12, 31, 23, 59, 59, 999999), dt.datetime(2024, 2, 29, 12, 0, 0, 1),
              dt.datetime(2020, 1, 2, 3, 4, 5)):
        out.append(("datetime", sa.DateTime, v, "str"))
    for v in (dt.time(0, 0), dt.time(23, 59, 59, 999999), dt.time(12, 30, 15), dt.time(1, 2, 3, 40)):
        out.append(("time", sa.Time, v, "str"))
    for v in (True, False):
        out.append(("bool", sa.Boolean, v, "const"))
    for nm, tf in (("int", sa.Integer), ("float", sa.Float), ("numeric", sa.Numeric), ("string", sa.String), ("unicode", sa.Unicode),
                   ("date", sa.Date), ("datetime", sa.DateTime), ("time", sa.Time), ("bool", sa.Boolean)):
        out.append((nm, tf, None, "const"))
    return out


def _vclass(v):
    if isinstance(v, str):
        return "numeric_string"
    if isinstance(v, (float, decimal.Decimal)) and not decimal.Decimal(v).is_finite():
        return "nonfinite"
    return "finite"


def _rows(run):
    import sqlalchemy as sa
    try:
        return [tuple(r) for r in run()]
    except (sa.exc.SQLAlchemyError, sqlite3.Error, OverflowError) as ex:
        return "%s: %s" % (type(ex).__name__, str(ex).splitlines()[0][:120])


def _same(a, b):
    """row lists equal; NaN equals NaN (the value is the same value)"""
    if isinstance(a, str) or isinstance(b, str):
        return a == b
    if len(a) != len(b):
        return False
    for ra, rb in zip(a, b):
        if len(ra) != len(rb):
            return False
        for x, y in zip(ra, rb):
            if x != y and not (x != x and y != y):
                return False
            num = (int, float, decimal.Decimal)
            if type(x) is not type(y) and not (isinstance(x, num) and isinstance(y, num)):
                return False
    return True


def main(chk):
    import warnings
    import sqlalchemy as sa
    warnings.filterwarnings("ignore", category=sa.exc.SAWarning)
    rng = random.Random(chk.seed)
    dialects = {c: lc.make_dialect(c) for c in lc.LIT_CONFIGS}
    triples = [(c, uni, d) for c, d in dialects.items() for uni in (False, True)]
    alphabets = [("full", lc.LIT_ALPHA + ["~"], 2 if chk.quick else 3), ("small", lc.LIT_ALPHA_SMALL, 3 if chk.quick else 5)]
    fams = lc.lit_families_for(triples, alphabets)
    # ---- scalar literals rendered by the implementation (code -> spec)
    scalars = scalar_values()
    scalar_index = {}
    for config, d in dialects.items():
        comp = d.statement_compiler(d, None)
        rendered = []
        for i, (label, tf, v, kind) in enumerate(scalars):
            try:
                txt = comp.render_literal_value(v, tf())
            except sa.exc.CompileError:
                continue            # refusing to render is always safe
            if lc.backend_of(config) == "oracle" and kind == "str" and txt.startswith("TO_"):
                kind2 = "call"
            else:
                kind2 = kind
            scalar_index[(config, len(rendered) + 1)] = (i, txt)
            rendered.append(dict(txt=lc.enc(txt), kind=kind2))
        be = lc.backend_of(config)
        fams.append(lc.lit_family("scalar@" + config, mode="scalar", rendered=rendered, backend=be, lex_n=(be == "mssql"),
                                  lex_bs=bool(getattr(d, "_backslash_escapes", False)), dblpct=lc.dblpct_of(d)))
    r, by = lc.run(chk, fams, invariants=["LitOK", "LitClosed", "ScalarOK"], tag="c05")
    expect = {f["name"]: f["expect"] for f in fams}
    mode = {f["name"]: f["mode"] for f in fams}
    nviol_spec = 0
    for name, cases in by.items():
        bad = [c for c in cases if not c["ok"]]
        if not expect[name]:
            if not bad:
                chk.machinery("vacuous: the mismatched family %s satisfies the theorem - the lexer does not discriminate" % name)
            continue
        if mode[name] == "lit" and bad:
            chk.machinery("Lexers.tla: LitOK fails for the specification's own renderer, family %s, s=%r" % (name, lc.dec(bad[0]["s"])))
        for c in bad:       # scalar: a literal rendered by the implementation is not one literal token
            config = name.split("@", 1)[1]
            i, txt = scalar_index[(config, c["i"])]
            label, tf, v, kind = scalars[i]
            nviol_spec += 1
            chk.violation(dict(spec="Lexers", action="render_literal_value", kind="scalar_token_shape", type=label, config=config,
                               backend=lc.backend_of(config), value_class=_vclass(v)),
                          "%s: %s literal for %r is rendered as %s, which lexes as %s - not one literal token"
                          % (config, label, v, txt, [(t["t"], lc.dec(t["v"])) for t in c["toks"]]),
                          dict(config=config, type=label, value=repr(v), rendered=txt))
    if r.violated and not nviol_spec:
        chk.machinery("TLC reports %s violated but no failing case was printed" % r.violated)

    # ------------------------------------------------------------------ binding 1: the renderers of every configuration
    import time
    t_bind = time.time()
    evals = 0
    types = [("String", sa.String, False), ("Text", sa.Text, False), ("String(40)", lambda: sa.String(40), False),
             ("Unicode", sa.Unicode, True), ("UnicodeText", sa.UnicodeText, True)]
    nontrivial = set()
    samples = []
    per_config = {}
    for config, d in dialects.items():
        comp = d.statement_compiler(d, None)
        for tname, tf, uni in types:
            fam = lc.lit_family_of(config, uni, d)
            type_ = tf()
            for tag, _, _ in alphabets:
                for c in by[fam + "#" + tag]:
                    s, want = lc.dec(c["s"]), lc.dec(c["render"])
                    sig = dict(spec="Lexers", action="render_literal_value", config=config, family=fam.split("@")[0], type=tname,
                               special=_special(s))
                    got = comp.render_literal_value(s, type_)
                    evals += 1
                    if got != want:
                        chk.violation(sig, "%s %s: render_literal_value(%r) = %s, specification %s" % (config, tname, s, got, want),
                                      dict(config=config, type=tname, s=s, got=got, want=want))
                    if _special(s):
                        nontrivial.add((fam, s))
                    if tname in ("String", "Unicode") and (tag == "small" or len(s) <= 2):
                        # full compilation paths: literal_binds and the literal_execute expansion
                        stmt = sa.select(sa.literal(s, type_).label("x"))
                        sql = str(stmt.compile(dialect=d, compile_kwargs={"literal_binds": True}))
                        stmt2 = sa.select(sa.bindparam("p", s, type_, literal_execute=True).label("x"))
                        sql2 = stmt2.compile(dialect=d).construct_expanded_state().statement
                        stmt3 = sa.select(sa.column("q").in_(sa.bindparam("p", [s, "zz"], type_, expanding=True, literal_execute=True)))
                        sql3 = stmt3.compile(dialect=d).construct_expanded_state().statement
                        evals += 3
                        tail = " FROM DUAL" if lc.backend_of(config) == "oracle" else ""
                        zz = comp.render_literal_value("zz", type_)
                        for path, text, wanted in (("literal_binds", sql, "SELECT %s AS x%s" % (want, tail)),
                                                   ("literal_execute", sql2, "SELECT %s AS x%s" % (want, tail)),
                                                   ("literal_execute_expanding", sql3.replace("\n", ""), "SELECT q IN (%s, %s) AS anon_1%s" % (want, zz, tail))):
                            if text != wanted:
                                chk.violation(dict(sig, action=path), "%s %s %s of %r: %s, specification %s" % (config, tname, path, s, text, wanted),
                                              dict(config=config, type=tname, s=s, got=text, want=wanted))
            per_config[config] = per_config.get(config, 0) + 1
        samples.append(dict(config=config, s="a'\\%", rendered=comp.render_literal_value("a'\\%", sa.String())))

    # ------------------------------------------------------------------ binding 2: execution on SQLite
    t_exec = time.time()
    eng = sa.create_engine("sqlite:///" + os.path.join(chk.work, "c05.db"))
    strings = sorted({lc.dec(c["s"]) for tag, _, _ in alphabets for c in by["std@sqlite#" + tag]})
    spec_render = {lc.dec(c["s"]): lc.dec(c["render"]) for tag, _, _ in alphabets for c in by["std@sqlite#" + tag]}
    md = sa.MetaData()
    t = sa.Table("vals", md, sa.Column("id", sa.Integer, primary_key=True), sa.Column("v", sa.String, index=True))
    md.create_all(eng)
    ids = {s: i + 1 for i, s in enumerate(strings)}
    raw = sqlite3.connect(":memory:")
    for s in strings:       # calibration of the ''-family lexer against the real backend (never a verdict on the code)
        got = raw.execute("SELECT " + spec_render[s]).fetchall()
        if got != [(s,)]:
            chk.machinery("calibration: SQLite reads the specification's literal %s as %r, not %r" % (spec_render[s], got, s))
    nexec = 0
    counts = {}
    with eng.begin() as conn:
        conn.execute(t.insert(), [dict(id=i, v=s) for s, i in ids.items()])
        conn.execute(t.insert(), [dict(id=len(ids) + 1, v=None)])

        def check(form, sig, what, build, want):
            """build(mode) -> callable returning rows; modes bound / literal_binds / literal_execute"""
            nonlocal nexec
            got = {}
            for m in ("bound", "literal_binds", "literal_execute"):
                got[m] = _rows(build(m))
                nexec += 1
                counts[(form, m)] = counts.get((form, m), 0) + 1
            if isinstance(got["bound"], str) and want is None:
                return              # the value cannot be bound on this backend either (outside the type's domain here)
            for m in ("literal_binds", "literal_execute"):
                if isinstance(got[m], str) and "CompileError" in got[m]:
                    continue        # refusing to render a literal is always safe
                if not _same(got[m], got["bound"]):
                    chk.violation(dict(sig, action=m, form=form, kind="rows_differ_from_bound"),
                                  "%s in %s position: %s returns %r, bound parameter returns %r" % (what, form, m, got[m], got["bound"]),
                                  dict(form=form, mode=m, value=what, literal=got[m], bound=got["bound"]))
            if want is not None and not _same(got["bound"], want):
                chk.machinery("calibration: bound %s in %s position returns %r, expected %r" % (what, form, got["bound"], want))

        def X(m, v, type_):
            if m == "literal_execute":
                return sa.bindparam(None, v, type_, literal_execute=True)
            return sa.literal(v, type_)

        def runner(m, stmt, result_type=None):
            """literal_binds: the compiled text goes to the driver as is; result_type = the type of the (single) typed result column,
            whose result processor the harness applies itself (ids and strings need none)"""
            if m == "literal_binds":
                def go():
                    compiled = stmt.compile(eng, compile_kwargs={"literal_binds": True})
                    if compiled.params:
                        chk.machinery("literal_binds left bound parameters: %s" % compiled)
                    rows = conn.exec_driver_sql(str(compiled)).all()
                    proc = result_type._cached_result_processor(eng.dialect, None) if result_type is not None else None
                    if proc:
                        rows = [tuple(proc(x) if x is not None else None for x in r) for r in rows]
                    return rows
                return go
            return lambda: conn.execute(stmt)

        S = sa.String()
        for s in strings:
            if chk.quick and len(s) > 2 and not _special(s):
                continue
            other = rng.choice(strings)
            sig = dict(spec="Lexers", config="sqlite-exec", type="String", special=_special(s))
            what = "String %r" % s
            check("select_list", sig, what, lambda m: runner(m, sa.select(X(m, s, S).label("x"))), [(s,)])
            check("where", sig, what, lambda m: runner(m, sa.select(t.c.id).where(t.c.v == X(m, s, S))), [(ids[s],)])
            check("case", sig, what, lambda m: runner(m, sa.select(t.c.id).where(sa.case((t.c.v == X(m, s, S), 1), else_=0) == 1)), [(ids[s],)])
            check("concat", sig, what, lambda m: runner(m, sa.select((X(m, s, S) + X(m, other, S)).label("x"))), [(s + other,)])

            def in_(m):
                if m == "literal_execute":
                    rhs = sa.bindparam("p", [s, other], S, expanding=True, literal_execute=True)
                else:
                    rhs = [s, other]
                return runner(m, sa.select(t.c.id).where(t.c.v.in_(rhs)).order_by(t.c.id))
            check("in", sig, what, in_, [(i,) for i in sorted({ids[s], ids[other]})])
        # ---- scalars: a table per type holding the boundary values (inserted through bound parameters)
        bytype = {}
        for label, tf, v, kind in scalars:
            bytype.setdefault(label, (tf, []))[1].append(v)
        for label, (tf, values) in bytype.items():
            type_ = tf()
            tt = sa.Table("sv_" + label, md, sa.Column("id", sa.Integer, primary_key=True), sa.Column("v", tf()))
            tt.create(conn)
            rowvals = []
            for v in values:
                try:
                    conn.execute(tt.insert(), dict(id=len(rowvals) + 1, v=v))
                    rowvals.append(v)
                except (sa.exc.SQLAlchemyError, OverflowError):
                    pass
            for v in values:
                sig = dict(spec="Lexers", config="sqlite-exec", type=label, value_class=_vclass(v))
                what = "%s %r" % (label, v)
                check("select_list", sig, what, lambda m: runner(m, sa.select(X(m, v, type_).label("x")), type_), None)
                check("where", sig, what, lambda m: runner(m, sa.select(tt.c.id).where(tt.c.v == X(m, v, type_)).order_by(tt.c.id)), None)
                check("case", sig, what, lambda m: runner(m, sa.select(tt.c.id, sa.case((tt.c.v == X(m, v, type_), 1), else_=0)).order_by(tt.c.id)), None)
                if v is not None:
                    finite = [o for o in values if o is not None and _vclass(o) == "finite" and o is not v]
                    other = finite[(values.index(v) + 1) % len(finite)]

                    def in_(m):
                        if m == "literal_execute":
                            rhs = sa.bindparam("p", [v, other], type_, expanding=True, literal_execute=True)
                        else:
                            rhs = sa.bindparam("p", [v, other], type_, expanding=True)
                        return runner(m, sa.select(tt.c.id).where(tt.c.v.in_(rhs)).order_by(tt.c.id))
                    check("in", sig, what, in_, None)
    for form in ("select_list", "where", "case", "concat", "in"):
        for m in ("bound", "literal_binds", "literal_execute"):
            if not counts.get((form, m)):
                chk.machinery("vacuous: no %s / %s execution" % (form, m))
    return chk.finish(
        dict(states=r.distinct, transitions=r.generated, traces_validated_against_impl=evals, evaluations=evals + nexec,
             sqlite_executions=nexec, distinct_nontrivial=len(nontrivial), strings_per_family={k: len(v) for k, v in by.items()},
             scalar_values=len(scalars), configurations=sorted(dialects), samples=samples, tlc_wall_s=round(r.wall, 1), tlc_processes=r.runs, render_wall_s=round(t_exec - t_bind, 1), exec_wall_s=round(time.time() - t_exec, 1), exhaustive=True,
             rule="one case per (family, string) TLC initial state; non-trivial = the string contains a quote, backslash, percent, colon, "
                  "semicolon, dash, bracket, backtick or non-ASCII character; each replayed on every configuration of the family and "
                  "executed on SQLite in 5 positions x 3 parameter modes",
             checker_cmd="tlc Lexers.tla (families lit + scalar; INVARIANT LitOK LitClosed ScalarOK)"),
        assumptions=["string grammars of MySQL / PostgreSQL / MSSQL / Oracle transcribed from their documentation (no server); SQLite's calibrated by execution",
                     "format / pyformat DBAPIs halve %% (psycopg2, mysqlclient, pymysql)",
                     "bounded: strings <=%d over 14 characters, <=%d over 4" % (alphabets[0][2], alphabets[1][2])])
