"""C35 Object lifecycle states and events follow the documented state machine - OrmSession.tla (DESIGN 3.8, Appendix B/F)."""
from checks import ormsession_common as C

LEVEL = "model_checking"
MANIFEST = dict(
    text="OrmSession.tla models Session/InstanceState/identity map/SessionTransaction snapshots for one mapped class (2-3 objects over 2 primary keys, savepoint depth 1-2, expire_on_commit on and off). TLC checks that every object is in exactly one of the five states with the membership that state promises, that a deleted object is outside the identity map and exists only inside a transaction that can revert it, and (action property LifecycleChain) that every state change of every step follows documented edges with exactly the documented event, once, and that no event fires without its transition. Every labelled edge of the state graph is replayed on a real Session (SQLite file) comparing the five InstanceState predicates, membership, identity map and the multiset of lifecycle events of all ten SessionEvents hooks after every step.",
    design_ref="3.8, 4 (C30-C39), 6 (C35 a-f), Appendix B, F, F.2",
    note="trusted: TLC, the ten SessionEvents hooks as event oracle, SQLite as the database; merge / make_transient_to_detached / cascades not modelled; named deviations of the code (notes/OrmSession.md) are probed and listed as known findings",
    technique="TLA+ spec (OrmSession.tla) + TLC exhaustive model checking (ideal mechanism, one run per named deviation); spec->code replay of every state-graph edge plus TLC -simulate behaviours into a real Session")

ABS_INVS = ["LifeType", "LifeMembership", "DeletedNotInMap", "NoLiveDeleted", "NoDeletedOutsideTx"]
ABS_PROPS = ["LifecycleChain"]
MECH_INVS = ["OneIdentity", "OnePerObject", "LifeType", "NoTxMeansCommitted"]
FOOTPRINT = ["Add", "Flush", "Commit", "Rollback", "Delete", "Expunge", "Close", "MakeTransient", "BeginNested", "SpCommit", "SpRollback", "Get"]


def spec(chk):
    q = chk.quick
    acts = ["Expunge", "Close", "MakeTransient", "Sp", "Get", "Misuse"]
    return dict(
        cfgs=[
            dict(name="eoc", objs=2, maxsp=1 if q else 2, depth=7 if q else 8, ideal_depth=8 if q else 9, eoc=True, acts=acts,
                 random=200 if q else 2000, sim=(40, 20) if q else (600, 30)),
            dict(name="noeoc", objs=2 if q else 3, maxsp=1, depth=6 if q else 7, ideal_depth=7 if q else 8, eoc=False,
                 acts=["Expunge", "Close", "MakeTransient", "Get"] if q else acts, random=100 if q else 1000),
        ],
        mech_invs=MECH_INVS, mech_props=[], abs_invs=ABS_INVS, abs_props=ABS_PROPS,
        devs={
            "a": dict(acts=[]), "b": dict(acts=["Close"]), "c": dict(acts=["Misuse"]), "d": dict(acts=[]), "e": dict(acts=["Get"]),
            "f2": dict(acts=["Expunge"]), "g": dict(acts=["Sp", "Expunge"]), "h": dict(acts=["MakeTransient"]),
            "eoc": dict(acts=[], eoc=False), "ksw": dict(acts=["SetPk"]),
        },
        footprint=FOOTPRINT,
        nontrivial=lambda frm, act: bool(act["ev"]),
    )


def main(chk):
    P = spec(chk)
    tot, cov, samples, plans, dev_real, dev_hits = C.run_property(chk, "C35", P)
    return chk.finish(
        dict(states=tot["states"], transitions=tot["transitions"], traces_validated_against_impl=tot["walks"] + tot["random_walks"],
             distinct_nontrivial=tot["nontrivial"], evaluations=tot["steps"], samples=samples[:4], plan=plans, action_coverage=cov,
             edges=tot["edges"], ideal_states=tot.get("ideal_states", 0), ideal_transitions=tot.get("ideal_transitions", 0),
             tlc_runs=tot["tlc_runs"], timing={k: v for k, v in tot.items() if k.startswith("t_")}, deep_walk_steps=tot.get("deep_walk_steps", 0),
             deviations_present=sorted(dev_real), deviations_exposed=dev_hits, exhaustive=True,
             rule="every labelled edge of the OrmSession state graph (cfgs %s) covered by a walk from Init and replayed on a real Session; "
                  "non-trivial = edges on which at least one lifecycle event fires" % [c["name"] for c in P["cfgs"]],
             checker_cmd="tlc OrmSession.tla (VIEW View, ACTION_CONSTRAINT Emit; INVARIANT %s; PROPERTY %s)" % (",".join(ABS_INVS), ",".join(ABS_PROPS))),
        assumptions=["SQLite only (file, autocommit=False, NullPool); one mapped class T(id, v) without relationships",
                     "generator preconditions: a detached object is re-attached only while its row exists; an object that went transient while expired is not re-added; make_transient() only on fully loaded objects",
                     "bounded: %s" % [(c["name"], c["objs"], c["maxsp"], c["depth"]) for c in P["cfgs"]]])
