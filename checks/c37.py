"""C37 both sides of a bidirectional relationship agree - OrmGraph.tla (DESIGN 3.9, 4 (C37), Appendix I)."""
import random

from checks import ormgraph_common as oc

LEVEL = "model_checking"
MANIFEST = dict(
    text="OrmGraph.tla models the backref machinery of a bidirectional one-to-many/many-to-one pair (P.children <-> C.parent: append, insert, "
         "remove, pop, collection replacement, scalar set, each with the cascade and backref listeners in the order the code runs them) together "
         "with add/flush/commit+reload. TLC checks BothSides (c in p.children <=> c.parent is p) on every reachable state (2 parents x 2-3 "
         "children, depth 6-7) incl. after flush and after commit + reload in a fresh session; every labelled edge of the state graph is replayed "
         "against the real ORM comparing both sides read from __dict__ after every step. Lists holding the same child twice are a separate "
         "configuration that exposes the recorded duplicate-child defect.",
    design_ref="3.9, 4 (C37), 6 (C37), Appendix I",
    note="trusted: TLC, the transcription of the backref listeners; one-to-many/many-to-one pair only (one-to-one, many-to-many not built); "
         "all relationship attributes loaded/initialised (no unloaded or expired attribute paths); SQLite only",
    technique="TLA+ spec (OrmGraph.tla) + TLC exhaustive model checking; spec->code replay of every state-graph edge into the real ORM")
MEM = ["Append", "Insert", "Remove", "Pop", "Replace", "SetParent"]
ACTS = MEM + ["Add", "Flush", "CommitReload"]
INVS = ["TypeOK", "BothSides", "NoDuplicates"]


def nontrivial(f, act, t):
    return act["a"] in MEM and any(f["parent"][c] != t["parent"][c] and f["parent"][c] != "none" for c in f["parent"])


def main(chk):
    rng = random.Random(chk.seed)
    q = chk.quick
    nr = 100 if q else 1000
    if q:
        configs = [
            dict(name="default", casc="default", consts=oc.consts("default", 2, 4, acts=ACTS), invs=INVS, maxlen=4, nrandom=nr),
            dict(name="orphan", casc="orphan", consts=oc.consts("orphan", 2, 3, acts=ACTS + ["Expunge"]), invs=INVS, maxlen=3, nrandom=nr, footprint=ACTS),
            dict(name="dup", casc="default", consts=oc.consts("default", 2, 4, acts=MEM, init="loaded", dup=True), invs=["TypeOK", "BothSides_NoDup"],
                 maxlen=4, nrandom=nr, footprint=MEM)]
        deep = [dict(name="deep-default", casc="default", consts=oc.consts("default", 2, 6, acts=ACTS), invs=INVS),
                dict(name="deep-none-mem", casc="none", consts=oc.consts("none", 2, 6, acts=MEM + ["CommitReload"], init="loaded"), invs=INVS)]
    else:
        configs = [
            dict(name="default-2x3", casc="default", consts=oc.consts("default", 3, 4, acts=ACTS), invs=INVS, maxlen=4, nrandom=nr),
            dict(name="default-2x2", casc="default", consts=oc.consts("default", 2, 5, acts=ACTS), invs=INVS, maxlen=5, nrandom=nr),
            dict(name="orphan-2x3", casc="orphan", consts=oc.consts("orphan", 3, 4, acts=ACTS + ["Expunge"]), invs=INVS, maxlen=4, nrandom=nr, footprint=ACTS),
            dict(name="dup", casc="default", consts=oc.consts("default", 2, 5, acts=MEM, init="loaded", dup=True), invs=["TypeOK", "BothSides_NoDup"],
                 maxlen=5, nrandom=nr, footprint=MEM)]
        deep = [dict(name="deep-default-2x3", casc="default", consts=oc.consts("default", 3, 5, acts=ACTS), invs=INVS),
                dict(name="deep-default-2x2", casc="default", consts=oc.consts("default", 2, 7, acts=ACTS), invs=INVS),
                dict(name="deep-none-mem-2x3", casc="none", consts=oc.consts("none", 3, 6, acts=MEM + ["CommitReload"], init="loaded"), invs=INVS)]
    nc = 2 if q else 3
    expose = [dict(name="dup-bothsides", casc="default", consts=oc.consts("default", 2, 4, acts=MEM, init="loaded", dup=True), inv="BothSides",
                   sig={"scope": "list-held-the-same-child-twice"},
                   what="BothSides fails once a list collection has held the same child twice: the backref removes / keeps one occurrence "
                        "(e.g. p1.children=[c1,c1]; p2.children.append(c1) -> c1 still in p1.children while c1.parent is p2; "
                        "p1.children.pop() of one of two occurrences clears c1.parent). Holds on every duplicate-free history (BothSides_NoDup).")]
    st = oc.run_suite(chk, rng, configs, ACTS, deep=deep, expose=expose, nontrivial=nontrivial)
    return chk.finish(
        dict(states=st["states"] + st["deep_states"], transitions=st["transitions"] + st["deep_transitions"],
             traces_validated_against_impl=st["walks"], evaluations=st["steps"], distinct_nontrivial=st["nontrivial"], samples=st["samples"],
             edges_replayed=st["edges"], per_config=st["per_config"], action_coverage=st["action_coverage"], exhaustive=True,
             rule="every labelled edge of the OrmGraph state graph of each configuration is covered by a walk from an initial state (empty "
                  "database / loaded graph) that ends with commit + reload in a fresh session; non-trivial = a mutation that moves a child "
                  "away from a parent it currently has (re-parenting, removal, replacement)",
             checker_cmd="tlc OrmGraph.tla (VIEW View, ACTION_CONSTRAINT Emit)"),
        assumptions=["one-to-many / many-to-one pair with back_populates; list collection; %d parents x %d children" % (2, nc),
                     "relationship attributes always loaded/initialised; autoflush off; SQLite file engine, foreign_keys=ON",
                     "duplicate children explored only for in-memory mutations (no flush)"])
