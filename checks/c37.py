"""C37 both sides of a bidirectional relationship agree - OrmGraph.tla (DESIGN 3.9, 4 (C37), Appendix I)."""
import os
import random

from engine import graph, tlc
from checks import ormgraph_common as oc

LEVEL = "model_checking"
MANIFEST = dict(
    text="OrmGraph.tla models the backref machinery of a bidirectional one-to-many/many-to-one pair (P.children <-> C.parent: append, insert, "
         "remove, pop, collection replacement, scalar set, each with the cascade and backref listeners in the order the code runs them) together "
         "with add/flush/commit+reload. TLC checks BothSides (c in p.children <=> c.parent is p) on every reachable state (2 parents x 2-3 "
         "children, depth 6-7) incl. after flush and after commit + reload in a fresh session; every labelled edge of the state graph is replayed "
         "against the real ORM comparing both sides read from __dict__ after every step. Lists holding the same child twice are a separate "
         "configuration that exposes the recorded duplicate-child defect. OrmOneToOne.tla does the same for a one-to-one pair (scalar on both "
         "sides, in-memory sets from either side, every edge replayed) and exposes the displaced-partner defect; OrmManyToMany.tla for a "
         "many-to-many pair (two lists, append/insert/remove/pop/replace/index and extended-slice assignment from either side, flush and commit + "
         "reload against the association table, list order compared).",
    design_ref="3.9, 4 (C37), 6 (C37), Appendix I",
    note="trusted: TLC, the transcription of the backref listeners; one-to-many/many-to-one pair (with flush and reload), one-to-one pair (in memory) and many-to-many pair (with flush and reload); "
         "contiguous slice assignment and set/dict collections not built; "
         "all relationship attributes loaded/initialised (no unloaded or expired attribute paths); SQLite only",
    technique="TLA+ spec (OrmGraph.tla) + TLC exhaustive model checking; spec->code replay of every state-graph edge into the real ORM")
MEM = ["Append", "Insert", "Remove", "Pop", "Replace", "SetItem", "Reverse", "SetParent"]
ACTS = MEM + ["Add", "Flush", "CommitReload"]
INVS = ["TypeOK", "BothSides", "NoDuplicates"]


def nontrivial(f, act, t):
    return act["a"] in MEM and any(f["parent"][c] != t["parent"][c] and f["parent"][c] != "none" for c in f["parent"])


def one_to_one(chk, rng, st):
    """second relationship kind: one-to-one pair P.child <-> C.parent (OrmOneToOne.tla), in-memory mutations from either side"""
    q = chk.quick
    ps, cs = ["p1", "p2"], (["c1", "c2"] if q else ["c1", "c2", "c3"])
    depth = 5 if q else 6
    consts = dict(Ps=set(tlc.q(x) for x in ps), Cs=set(tlc.q(x) for x in cs), MaxDepth=depth)
    cfgt = tlc.cfg(constants=consts, init="InitEmit", invariants=["TypeOK", "BothSides11_NoDisplacement"], view="View",
                   action_constraints=["Emit"], constraints=["Depth"])
    g = graph.dump("OrmOneToOne", cfgt, os.path.join(chk.work, "dump-one-to-one"), timeout=900)
    r = g.tlc
    if r.violated:
        chk.violation({"spec": "OrmOneToOne", "action": "TLC", "invariant": str(r.violated)}, "TLC: %s violated in OrmOneToOne.tla" % r.violated)
    cov = oc.action_counts(g)
    for a in ("SetChild", "SetParent"):
        if not cov.get(a):
            chk.machinery("vacuous: action %s never taken in OrmOneToOne" % a)
    walks, info = graph.plan_tours(g, depth, rng)
    walks += graph.random_walks(g, 100 if q else 1000, depth, rng)
    from checks.ormgraph_driver import Driver11, mapping11
    mapping11()
    steps, mism = graph.replay(g, walks, lambda wid, wd: Driver11(wid, wd, ps, cs), os.path.join(chk.work, "replay-one-to-one"), nproc=16)
    for m in mism:
        act = m["act"] if isinstance(m["act"], dict) else {"a": m["act"]}
        chk.violation({"spec": "OrmOneToOne", "kind": "conformance", "action": act.get("a")},
                      "real one-to-one pair diverges from OrmOneToOne.tla at %s%s: %s" % (act.get("a"), tuple(act.get("arg", ())), m["mismatch"]), m)
    # the unrestricted property: expected to be violated (recorded finding)
    cfg2 = tlc.cfg(constants=consts, init="Init", invariants=["BothSides11"], view="View", constraints=["Depth"])
    r2 = tlc.run("OrmOneToOne", cfg2, os.path.join(chk.work, "expose-one-to-one"), workers=2, timeout=600, keep_stdout=False)
    if r2.violated:
        chk.violation({"spec": "OrmOneToOne", "action": "TLC", "invariant": "BothSides11", "scope": "partnered-value-assigned-to-a-new-partner"},
                      "one-to-one: assigning a child that already has a parent to another parent through the scalar side (p2.child = c1 while "
                      "c1.parent is p1) leaves p1.child pointing at c1 although c1.parent is p2 (and symmetrically c.parent = p leaves the displaced "
                      "child's parent set). Holds on every history without such a displacement (BothSides11_NoDisplacement).")
    nt = sum(1 for e in g.edges if g.states[e[0]] != g.states[e[2]])
    st["states"] += r.distinct + r2.distinct
    st["transitions"] += r.generated + r2.generated
    st["edges"] += len(g.edges)
    st["walks"] += len(walks)
    st["steps"] += steps
    st["nontrivial"] += nt
    st["per_config"]["one-to-one"] = dict(states=r.distinct, transitions=r.generated, edges=len(g.edges), walks=len(walks), steps=steps,
                                          mismatches=len(mism), depth=r.depth, plan=info, expose_violated=str(r2.violated))
    if walks:
        w = walks[len(walks) // 2]
        st["samples"].append({"config": "one-to-one", "walk": ["%s(%s)" % (g.edges[ei][1]["a"], ",".join(g.edges[ei][1]["arg"])) for ei in w]})


def many_to_many(chk, rng, st):
    """third relationship kind: many-to-many pair L.rs <-> R.ls (OrmManyToMany.tla): list mutations from either side (incl. index and
    extended-slice assignment), flush, commit + reload in a fresh session; BothSidesMM on every state, list order compared"""
    q = chk.quick
    oc.run_mm(chk, rng, st, "many-to-many", True, oc.MM_MEM + ["Flush", "CommitReload"], 4 if q else 5,
              ["BothSidesMM", "NoDuplicates", "RowsEqualGraphMM", "FkSoundMM"], ["RowsOnlyAtFlush"], init="both", nrandom=100 if q else 1000)


def main(chk):
    rng = random.Random(chk.seed)
    q = chk.quick
    nr = 100 if q else 1000
    if q:
        configs = [
            dict(name="default", casc="default", consts=oc.consts("default", 2, 4, acts=ACTS), invs=INVS, maxlen=4, nrandom=nr),
            dict(name="orphan", casc="orphan", consts=oc.consts("orphan", 2, 3, acts=ACTS + ["Expunge"]), invs=INVS, maxlen=3, nrandom=nr, footprint=ACTS),
            dict(name="dup", casc="default", consts=oc.consts("default", 2, 4, acts=MEM, init="loaded", dup=True), invs=["TypeOK", "BothSides_NoDup"],
                 maxlen=4, nrandom=nr, footprint=MEM),
            # index / extended-slice assignment on lists of up to three members (an odd-length reverse has a fixed point)
            dict(name="setitem-2x3", casc="default", consts=oc.consts("default", 3, 5, acts=["Append", "SetItem", "Reverse", "Flush", "CommitReload"], init="loaded"),
                 invs=INVS, maxlen=5, nrandom=nr, footprint=["Append", "SetItem", "Reverse", "Flush", "CommitReload"])]
        deep = [dict(name="deep-default", casc="default", consts=oc.consts("default", 2, 6, acts=ACTS), invs=INVS),
                dict(name="deep-none-mem", casc="none", consts=oc.consts("none", 2, 6, acts=MEM + ["CommitReload"], init="loaded"), invs=INVS)]
    else:
        configs = [
            dict(name="default-2x3", casc="default", consts=oc.consts("default", 3, 4, acts=ACTS), invs=INVS, maxlen=4, nrandom=nr),
            dict(name="default-2x2", casc="default", consts=oc.consts("default", 2, 5, acts=ACTS), invs=INVS, maxlen=5, nrandom=nr),
            dict(name="orphan-2x3", casc="orphan", consts=oc.consts("orphan", 3, 4, acts=ACTS + ["Expunge"]), invs=INVS, maxlen=4, nrandom=nr, footprint=ACTS),
            dict(name="dup", casc="default", consts=oc.consts("default", 2, 5, acts=MEM, init="loaded", dup=True), invs=["TypeOK", "BothSides_NoDup"],
                 maxlen=5, nrandom=nr, footprint=MEM)]
        deep = [dict(name="deep-default-2x3", casc="default", consts=oc.consts("default", 3, 5, acts=ACTS), invs=INVS),
                dict(name="deep-default-2x2", casc="default", consts=oc.consts("default", 2, 7, acts=ACTS), invs=INVS),
                dict(name="deep-none-mem-2x3", casc="none", consts=oc.consts("none", 3, 6, acts=MEM + ["CommitReload"], init="loaded"), invs=INVS)]
    nc = 2 if q else 3
    expose = [dict(name="dup-bothsides", casc="default", consts=oc.consts("default", 2, 4, acts=MEM, init="loaded", dup=True), inv="BothSides",
                   sig={"scope": "list-held-the-same-child-twice"},
                   what="BothSides fails once a list collection has held the same child twice: the backref removes / keeps one occurrence "
                        "(e.g. p1.children=[c1,c1]; p2.children.append(c1) -> c1 still in p1.children while c1.parent is p2; "
                        "p1.children.pop() of one of two occurrences clears c1.parent). Holds on every duplicate-free history (BothSides_NoDup).")]
    expose.append(dict(name="slice-hasparent", casc="orphan", consts=oc.consts("orphan", 2, 3, acts=["Append", "Reverse"], init="loaded"), inv="MemberNotOrphan",
                       sig={"scope": "extended-slice-assignment-on-a-list"},
                       what="p.children[::-1] = list(p.children) (any extended-slice assignment = one __setitem__ per index, the list holds a member twice "
                            "in between): the remove event for one of two occurrences keeps c.parent (has_dupes) but still calls sethasparent(False), so a "
                            "child that is in p.children with c.parent is p is flagged parentless. With delete-orphan the next flush DELETEs it although it "
                            "never left the collection; without it, if another flushed parent has the child in its removed history, the FK is set by one "
                            "parent and cleared by the other in set-iteration order (named deviation NondetFk). After commit + reload the child is gone "
                            "from the collection it was in before the flush."))
    st = oc.run_suite(chk, rng, configs, ACTS, deep=deep, expose=expose, nontrivial=nontrivial)
    one_to_one(chk, rng, st)
    many_to_many(chk, rng, st)
    return chk.finish(
        dict(states=st["states"] + st["deep_states"], transitions=st["transitions"] + st["deep_transitions"],
             traces_validated_against_impl=st["walks"], evaluations=st["steps"], distinct_nontrivial=st["nontrivial"], samples=st["samples"],
             edges_replayed=st["edges"], per_config=st["per_config"], action_coverage=st["action_coverage"], exhaustive=True,
             rule="every labelled edge of the OrmGraph state graph of each configuration is covered by a walk from an initial state (empty "
                  "database / loaded graph) that ends with commit + reload in a fresh session; non-trivial = a mutation that moves a child "
                  "away from a parent it currently has (re-parenting, removal, replacement)",
             checker_cmd="tlc OrmGraph.tla (VIEW View, ACTION_CONSTRAINT Emit)"),
        assumptions=["one-to-many / many-to-one pair with back_populates; list collection; %d parents x %d children" % (2, nc),
                     "one-to-one pair (uselist=False): in-memory assignments only; many-to-many pair: 2 x 2, duplicate-free lists, persistent members",
                     "relationship attributes always loaded/initialised; autoflush off; SQLite file engine, foreign_keys=ON",
                     "duplicate children explored only for in-memory mutations (no flush)"])
