"""C43 ORM-enabled UPDATE/DELETE keep in-session objects in sync with the database - SqlExpr.tla, statement family
(DESIGN 3.11, 4 C43, 6 C43, Appendix K).

TLC enumerates statements  DELETE WHERE <crit> / UPDATE SET a=<e> [, b=<e2>] WHERE <crit> / UPDATE SET s=<e> WHERE <crit>  over the ORM
evaluator's operator set, computes with the three-valued `Run` evaluator the database content every statement must leave on 36
rows (NULLs, negatives), and prints the value of every sub-expression.  Binding:
  A. orm.evaluator._EvaluatorCompiler on the in-session objects: match decision of every criterion and value of every SET
     expression must equal the specification (or UnevaluatableError);
  B. Session.execute(update()/delete()) with synchronize_session in {evaluate, fetch, auto}: afterwards the database equals the
     specification (calibration) and EVERY in-session object equals its database row / has left the session.
A disagreement is localised to the deepest sub-expression whose evaluator value differs from the specification's; the operator
and operand class of that node form the violation signature.
"""
import os
import random

from checks import sqlexpr_common as sx

LEVEL = "model_checking"
MANIFEST = dict(
    text="SqlExpr.tla (statement family): every criterion of depth <=2 over the ORM evaluator's operators (comparisons over + - * %, "
         "true division, IN / NOT IN incl. empty lists, NULL members and 2-tuples, IS [NOT] NULL, AND/OR/NOT, ||, startswith/endswith) "
         "as DELETE, and a grid of UPDATEs (one column, two columns that read each other, string column, NULL) - 2.5k statements quick / 10.8k thorough; "
         "TLC computes the resulting table on 36 rows with NULLs and negatives and checks the frame/Kleene theorems. Each criterion and "
         "SET expression is run through orm.evaluator on the in-session objects, and the statements through Session.execute with "
         "synchronize_session evaluate / fetch / auto: afterwards every in-session object must equal its database row or be gone, or "
         "UnevaluatableError must have been raised.",
    design_ref="3.11, 4 (C43), 6 (C43), Appendix K",
    note="trusted: TLC; SQLite as executor (the database content after each statement is first compared with the specification: "
         "disagreement = exit 2); SQLite only; lower-case ASCII strings (SQLite LIKE is case-insensitive); the confirmed evaluator "
         "defects are listed in known_findings.d/C43.json with operator + operand-class signatures",
    technique="TLA+ spec (SqlExpr.tla) + TLC exhaustive enumeration with theorems as invariants; spec->code replay of every statement "
              "into orm.evaluator and Session bulk UPDATE/DELETE")

STRATEGIES = ("evaluate", "fetch", "auto")
ATTRS = ("a", "b", "s", "u")


def _setup(work, rows):
    """tables ti (rows 1..36: a, b vary) and ts (rows 37..72: s, u vary), ids = row index in the specification.
    One database file PER PROCESS: the workers write (and roll back), a shared file would make them wait on SQLite's write lock."""
    import sqlalchemy as sa
    from sqlalchemy.orm import declarative_base
    path = os.path.join(work, "c43-%d.db" % os.getpid())
    fresh = not os.path.exists(path)
    eng = sa.create_engine("sqlite:///" + path)
    Base = declarative_base()

    class TI(Base):
        __tablename__ = "ti"
        id = sa.Column(sa.Integer, primary_key=True)
        a = sa.Column(sa.Integer)
        b = sa.Column(sa.Integer)
        s = sa.Column(sa.String)
        u = sa.Column(sa.String)

    class TS(Base):
        __tablename__ = "ts"
        id = sa.Column(sa.Integer, primary_key=True)
        a = sa.Column(sa.Integer)
        b = sa.Column(sa.Integer)
        s = sa.Column(sa.String)
        u = sa.Column(sa.String)

    if fresh:
        Base.metadata.create_all(eng)
        with eng.begin() as conn:
            half = len(rows) // 2
            conn.execute(TI.__table__.insert(), [dict(id=i + 1, a=r[0], b=r[1], s=r[2], u=r[3]) for i, r in enumerate(rows[:half])])
            conn.execute(TS.__table__.insert(), [dict(id=i + 1, a=r[0], b=r[1], s=r[2], u=r[3])
                                                 for i, r in enumerate(rows) if i >= half])
    return eng, TI, TS


def _ev3(v):
    """evaluator value -> spec domain (True/False -> 1/0)"""
    return sx.dbval(v)


class Localiser:
    """find the deepest node whose evaluator value (3-valued / exact) differs from the specification, and classify it"""

    def __init__(self, cls, strlits, evc):
        self.cls, self.strlits, self.evc = cls, strlits, evc
        self.cache = {}

    def fn(self, node):
        from sqlalchemy.orm import evaluator
        k = repr(node)
        if k not in self.cache:
            bld = sx.Builder({a: getattr(self.cls, a) for a in ATTRS}, self.strlits)
            try:
                self.cache[k] = self.evc.process(bld.build(node))
            except evaluator.UnevaluatableError:
                self.cache[k] = None
        return self.cache[k]

    def value(self, node, obj):
        f = self.fn(node)
        if f is None:
            return "unevaluatable"
        try:
            return _ev3(f(obj))
        except Exception as e:  # noqa
            return "raises " + type(e).__name__

    def locate(self, node, obj, subrow):
        """post-order: first node that differs while all of its children agree"""
        for c in node.kids:
            hit = self.locate(c, obj, subrow)
            if hit:
                return hit
        if node.k in ("del", "upd", "upds", "upda", "updb"):
            return None
        got = self.value(node, obj)
        exp = subrow[node.pos]
        if got == "unevaluatable":
            return None
        if got != exp:
            return node, got, exp
        return None


def classify(node, subrow):
    """operator + operand class of a disagreeing node, from the SPEC's operand values"""
    k = node.k
    v = [subrow[c.pos] for c in node.kids]
    if k == "and":
        first_null = next((i for i, x in enumerate(v) if x is None), None)
        if first_null is not None and any(x == 0 for x in v[first_null + 1:]):
            return "and", "null_operand_before_false"
    if k == "or":
        if None in v and 1 in v:
            return "or", "null_operand_and_true"
    if k == "mod":
        if v[1] == 0:
            return "mod", "zero_divisor"
        if None not in v and v[0] % v[1] != 0 and (v[0] < 0) != (v[1] < 0):
            return "mod", "operands_of_opposite_sign"
    if k in ("qeq", "qne", "qlt", "qle", "qgt", "qge"):
        if v[1] == 0:
            return "truediv", "zero_divisor"
        return "truediv", "other"
    if k in ("in", "notin"):
        items = v[1:]
        if not items and v[0] is None:
            return k, "empty_list_null_lhs"
        if None in items:
            return k, "null_in_list"
    if k in ("tin", "tnotin"):
        if v[0] is None or v[1] is None:
            return k, "null_in_lhs_tuple"
        if None in v[2:]:
            return k, "null_in_list_tuple"
    if k in ("starts", "ends"):
        if v[1] is not None and ("%" in v[1] or "_" in v[1]):
            return k, "wildcard_in_operand"
    return k, "other"


def _worker(chk, fam, rows, idx, bulk_idx):
    import warnings
    import sqlalchemy as sa
    from sqlalchemy import orm
    from sqlalchemy.orm import evaluator
    warnings.simplefilter("ignore")
    eng, TI, TS = _setup(chk.work, rows)
    out = dict(viol=[], evals=0, bulk=0, uneval=0, uneval_stmt=0, crit=0, setx=0, nontrivial=[], samples=[], ops={}, strat={})
    half = len(rows) // 2
    bulk_idx = set(bulk_idx)
    sess = {}
    objs = {}
    loc = {}
    for cls in (TI, TS):
        s = orm.Session(eng, expire_on_commit=False)
        sess[cls] = s
        objs[cls] = s.scalars(sa.select(cls).order_by(cls.id)).all()
        loc[cls] = Localiser(cls, fam.strlits, evaluator._EvaluatorCompiler(cls))
    seenA = set()

    def dbstate(s, cls):
        cur = s.connection().exec_driver_sql("SELECT id, a, b, s, u FROM %s ORDER BY id" % cls.__tablename__)
        return {r[0]: tuple(r[1:]) for r in cur.fetchall()}

    for ci in idx:
        c = fam.cases[ci]
        root = c.node
        cls = TI if c.lo <= half else TS
        L = loc[cls]
        O = objs[cls]
        crit = root.kids[0]
        if root.k == "del":
            sets = []
        elif root.k in ("upd", "upds"):
            sets = [("a" if root.k == "upd" else "s", root.kids[1])]
        else:
            sets = [("a", root.kids[1]), ("b", root.kids[2])]
        for n in root.walk():
            out["ops"][n.k] = out["ops"].get(n.k, 0) + 1
        base = dict(spec="SqlExpr", stmt=root.k)

        def report(action, node_hit, rowi, what, extra=None):
            node, got, exp = node_hit
            op, ocls = classify(node, c.sub[rowi])
            sig = dict(base, action=action, op=op, operand_class=ocls)
            if isinstance(got, str) and got.startswith("raises"):
                sig["outcome"] = got
            if extra:
                sig.update(extra)
            out["viol"].append((sig, what + " -- root cause: evaluator gives %r for %s where SQL gives %r (operands %r) on row %r"
                                % (got, node, exp, [c.sub[rowi][k.pos] for k in node.kids], rows[c.lo - 1 + rowi]),
                                dict(tokens=c.tokens, row=rows[c.lo - 1 + rowi], action=action, sig=sig)))

        # ---------------- A. the evaluator on the in-session objects
        ck = (cls.__name__, repr(crit))
        if ck not in seenA:
            seenA.add(ck)
            f = L.fn(crit)
            if f is None:
                out["uneval"] += 1
            else:
                out["crit"] += 1
                for rowi, obj in enumerate(O):
                    exp = c.sub[rowi][crit.pos]
                    out["evals"] += 1
                    try:
                        got = f(obj)
                        bad = (got is True) != (exp == 1)
                    except Exception as e:  # noqa
                        got, bad = "raises " + type(e).__name__, True
                    if bad:
                        hit = L.locate(crit, obj, c.sub[rowi]) or (crit, _ev3(got) if not isinstance(got, str) else got, exp)
                        report("evaluate_criterion", hit, rowi,
                               "criterion %s: evaluator %s the object, SQL %s the row" % (crit, "selects" if got is True else ("raises on" if isinstance(got, str) else "does not select"),
                                                                                             "selects" if exp == 1 else "does not select"))
                        break      # one report per criterion (first row)
        for attr, sn in sets:
            sk = (cls.__name__, "set", repr(sn))
            if sk in seenA:
                continue
            seenA.add(sk)
            f = L.fn(sn)
            if f is None:
                out["uneval"] += 1
                continue
            out["setx"] += 1
            for rowi, obj in enumerate(O):
                exp = c.sub[rowi][sn.pos]
                out["evals"] += 1
                try:
                    got = _ev3(f(obj))
                except Exception as e:  # noqa
                    got = "raises " + type(e).__name__
                if got != exp:
                    hit = L.locate(sn, obj, c.sub[rowi]) or (sn, got, exp)
                    report("evaluate_set_value", hit, rowi, "SET expression %s: evaluator value %r, SQL value %r" % (sn, got, exp))
                    break

        # ---------------- B. the statement through the Session with each strategy
        if ci not in bulk_idx:
            continue
        if root.k == "updb":
            continue            # same statement as its "upda" twin; both expected vectors are used there
        twin = None
        if root.k == "upda":
            twin = fam.by_key.get("updb" + c.key[4:])
        s = sess[cls]
        bld = sx.Builder({a: getattr(cls, a) for a in ATTRS}, fam.strlits)
        for strat in STRATEGIES:
            if root.k == "del":
                stmt = sa.delete(cls).where(bld.build(crit))
            else:
                stmt = sa.update(cls).where(bld.build(crit)).values({attr: bld.build(sn) for attr, sn in sets})
            stmt = stmt.execution_options(synchronize_session=strat)
            out["bulk"] += 1
            before = dbstate(s, cls)
            outcome = "ok"
            try:
                s.execute(stmt)
            except sa.exc.InvalidRequestError as e:
                outcome = "unevaluatable" if "Could not evaluate" in str(e) else "raises " + type(e).__name__
            except sa.exc.DBAPIError as e:
                # the database refusing the statement is an environment / harness problem, not a verdict on synchronisation
                return dict(out, machinery="SQLite refused %s: %s" % (root, str(e).splitlines()[0][:200]))
            except Exception as e:  # noqa
                outcome = "raises " + type(e).__name__
            out["strat"][strat + ":" + outcome] = out["strat"].get(strat + ":" + outcome, 0) + 1
            problems = []
            exc_outcome = None
            if outcome == "unevaluatable" and strat == "evaluate":
                out["uneval_stmt"] += 1
                after = dbstate(s, cls)
                if after != before:
                    problems.append((None, "statement raised UnevaluatableError but changed the database"))
            elif outcome != "ok":
                exc_outcome = outcome
            else:
                after = dbstate(s, cls)
                # calibration: the database itself against the specification
                for rowi, obj in enumerate(O):
                    rid = c.lo + rowi
                    if root.k == "del":
                        if (rid not in after) != (c.x[rowi] == 1):
                            return dict(out, machinery="calibration: after %s row %r is %s in SQLite, spec says deleted=%r"
                                        % (root, rows[rid - 1], "gone" if rid not in after else "present", c.x[rowi]))
                    else:
                        col = {"upd": 0, "upds": 2, "upda": 0}[root.k]
                        if after[rid][col] != c.x[rowi]:
                            return dict(out, machinery="calibration: after %s row %r has %s=%r in SQLite, spec %r"
                                        % (root, rows[rid - 1], ATTRS[col], after[rid][col], c.x[rowi]))
                        if twin is not None and after[rid][1] != twin.x[rowi]:
                            return dict(out, machinery="calibration: after %s row %r has b=%r in SQLite, spec %r"
                                        % (root, rows[rid - 1], after[rid][1], twin.x[rowi]))
                # the property: every in-session object equals the database row, or is gone with it
                for rowi, obj in enumerate(O):
                    rid = c.lo + rowi
                    st = sa.inspect(obj)
                    if rid not in after:
                        if obj in s and not st.deleted:
                            problems.append((rowi, "row deleted in the database but the object is still persistent in the session"))
                        continue
                    if obj not in s or st.deleted or st.detached:
                        problems.append((rowi, "row still in the database but the object left the session"))
                        continue
                    d = st.dict
                    for ai, attr in enumerate(ATTRS):
                        if attr in d and d[attr] != after[rid][ai]:
                            problems.append((rowi, "object.%s == %r but the database row has %r" % (attr, d[attr], after[rid][ai])))
            out["evals"] += len(O)
            # restore the table and the objects BEFORE looking for the root cause (the evaluator must see the pre-statement objects)
            s.rollback()
            objs[cls] = O = s.scalars(sa.select(cls).order_by(cls.id)).all()
            act = "bulk_" + ("delete" if root.k == "del" else "update")
            if exc_outcome:
                hit = None
                for rowi, obj in enumerate(O):
                    for n in [crit] + [sn for _, sn in sets]:
                        h = L.locate(n, obj, c.sub[rowi])
                        if h and isinstance(h[1], str):
                            hit = (h, rowi)
                            break
                    if hit:
                        break
                what = "%s with synchronize_session=%r %s instead of synchronising or raising UnevaluatableError" % (root, strat, exc_outcome)
                if hit:
                    report(act, hit[0], hit[1], what, dict(strategy=strat, kind="exception"))
                else:
                    out["viol"].append((dict(base, action=act, strategy=strat, kind="exception", outcome=exc_outcome, op="none", operand_class="none"),
                                        what, dict(tokens=c.tokens)))
            for rowi, text in problems[:1]:
                hit = None
                if rowi is not None:
                    for n in [crit] + [sn for _, sn in sets]:
                        hit = L.locate(n, O[rowi], c.sub[rowi])
                        if hit:
                            break
                what = "%s with synchronize_session=%r: %s (%d object(s) out of sync)" % (root, strat, text, len(problems))
                if hit:
                    report(act, hit, rowi, what, dict(strategy=strat, kind="stale"))
                else:
                    # every criterion / SET expression evaluates correctly on its own: the synchronisation step itself is at fault
                    reads_written = len(sets) > 1 and any(n.k == "col" and sx.COLS[n.v] in [a for a, _ in sets]
                                                          for _, sn in sets for n in sn.walk())
                    out["viol"].append((dict(base, action=act, strategy=strat, kind="stale", op="none",
                                             operand_class="set_reads_column_assigned_in_same_statement" if reads_written else "none"),
                                        what + " on row %r" % (rows[c.lo - 1 + rowi] if rowi is not None else None),
                                        dict(tokens=c.tokens, strategy=strat)))
        if ci % 211 == 7:
            out["samples"].append(dict(statement=repr(root), sql=str(stmt.compile(eng)).replace("\n", " "),
                                       rows=[r[:2] if cls is TI else r[2:] for r in rows[c.lo - 1:c.lo + 5]], expected_after=c.x[:6]))
        sig_vals = set(c.sub[r][crit.pos] for r in range(len(O)))
        if len(sig_vals) >= 2:
            out["nontrivial"].append(c.key)
    for s in sess.values():
        s.close()
    eng.dispose()
    return out


def main(chk):
    import time
    rng = random.Random(chk.seed)
    t0 = time.time()
    fam = sx.family(chk, "c43", emit_sub=True, workers=4, timeout=900 if chk.quick else 2400)
    fam.by_key = {c.key: c for c in fam.cases}
    rows = fam.rows
    t1 = time.time()
    n = len(fam.cases)
    # which statements go through the Session: all UPDATEs, and all DELETEs (thorough) / a seeded sample of them (quick)
    dels = [i for i, c in enumerate(fam.cases) if c.node.k == "del"]
    upds = [i for i, c in enumerate(fam.cases) if c.node.k != "del"]
    if chk.quick:
        dels = sorted(rng.sample(dels, min(len(dels), 700)))
    bulk = set(dels) | set(upds)
    res = sx.pmap(lambda idx: _worker(chk, fam, rows, idx, bulk), n, per_proc=400)
    t2 = time.time()
    tot = dict(evals=0, bulk=0, uneval=0, uneval_stmt=0, crit=0, setx=0)
    ops = {}
    strat = {}
    disagreements = {}
    nontrivial = set()
    samples = []
    for o in res:
        if o.get("machinery"):
            chk.machinery(o["machinery"])
        for sig, what, rp in o["viol"]:
            kk = "%s/%s/%s" % (sig.get("op"), sig.get("operand_class"), sig.get("outcome", sig.get("kind", "value")))
            disagreements[kk] = disagreements.get(kk, 0) + 1
            chk.violation(sig, what, rp)
        for k in tot:
            tot[k] += o[k]
        for k, v in o["ops"].items():
            ops[k] = ops.get(k, 0) + v
        for k, v in o["strat"].items():
            strat[k] = strat.get(k, 0) + v
        nontrivial.update(o["nontrivial"])
        samples += o["samples"]
    # vacuity: the property's footprint
    for k in ("del", "upd", "upds", "upda", "and", "or", "not", "in", "notin", "tin", "tnotin", "mod", "add", "sub", "mul", "qlt", "isnull",
              "notnull", "eq", "ne", "lt", "ge", "concat", "starts", "ends", "seq", "true", "false"):
        if not ops.get(k):
            chk.machinery("vacuous: operator %s never occurs in a statement" % k)
    for sname in STRATEGIES:
        if not strat.get(sname + ":ok"):
            chk.machinery("vacuous: no statement completed with synchronize_session=%s" % sname)
    if not strat.get("evaluate:unevaluatable"):
        chk.machinery("vacuous: the UnevaluatableError outcome was never exercised")
    return chk.finish(
        dict(states=fam.tlc.distinct, transitions=fam.tlc.generated, traces_validated_against_impl=tot["bulk"] + tot["crit"] + tot["setx"],
             distinct_nontrivial=len(nontrivial), evaluations=tot["evals"], statements=n, bulk_statements_executed=tot["bulk"],
             criteria_evaluated=tot["crit"], set_expressions_evaluated=tot["setx"], unevaluatable_expressions=tot["uneval"],
             outcomes_by_strategy=strat, disagreements_by_root_cause=disagreements, samples=samples[:6], operator_occurrences=ops, exhaustive=True,
             phase_wall_s=dict(tlc=round(t1 - t0, 1), replay=round(t2 - t1, 1)),
             rule="one case per TLC initial state (statement); criteria and SET expressions evaluated by orm.evaluator on the 36 in-session "
                  "objects; statements executed through Session.execute with each synchronize_session strategy (all UPDATEs; all DELETEs "
                  "thorough, a seeded sample quick); non-trivial = the criterion takes at least two different truth values over the rows",
             checker_cmd="tlc SqlExpr.tla (Family = c43, EmitSub, INVARIANT Theorems)"),
        assumptions=["SQLite only; lower-case ASCII strings", "criteria of depth <= 2 over the evaluator's operator set; rows over {-2..2, NULL}^2 and 6x6 short strings",
                     "objects are loaded and unmodified before each statement (no pending changes, no expired attributes)"])
