"""Shared pipeline of the OrmSessionExt checks (C45, C46, C47, C48, C51): TLC configs, graph dump, tours, replay, verdict."""
import os
import random
import time
from concurrent.futures import ThreadPoolExecutor

from checks import ormsession_common as B
from engine import graph, tlc

SPEC = "OrmSessionExt"


def consts(c, dev, depth):
    cs = B.consts(c.get("objs", 2), 1, depth, c.get("eoc", True), c["acts"], dev, vals=c.get("vals", (0, 1)))
    cs["Protos"] = "{" + ", ".join(str(p) for p in c.get("protos", (2,))) + "}"
    cs["SrcKeys"] = "{" + ", ".join(str(p) for p in c.get("srckeys", (1, 2))) + "}"
    return cs


def mk_cfg(cs, invs=(), props=(), emit=False):
    return tlc.cfg(constants=cs, init="InitEmitX" if emit else "InitX", next_="NextX", invariants=list(invs), properties=list(props),
                   view="View", action_constraints=["Emit"] if emit else [], constraints=["Depth"])


def fmt_arg(x):
    return {True: "T", False: "F"}.get(x, str(x)) if isinstance(x, bool) else str(x)


def fmt_walk(acts):
    return " ".join("%s(%s)->%s" % (a["a"], ",".join(fmt_arg(x) for x in a["arg"]), a["ret"]) for a in acts)


def run_ext(chk, pid, P):
    """P: dict(cfgs=[dict(name, acts, depth, deep_depth, eoc, legacy, always_gc, random, objs, protos)], invs, props, footprint,
    nontrivial=fn(from_state, act))"""
    from checks.ormsessionext_driver import DriverX
    rng = random.Random(chk.seed)
    # TLC jobs of this run all use the specs as they are now (a later edit of specs/ must not reach a running check)
    import shutil
    snap = os.path.join(chk.work, "specsnap")
    if not os.path.isdir(snap):
        shutil.copytree(tlc.SPECS, snap)
    tlc.SPECS = snap
    dev_real = B.probe_deviations(chk.work) & set(B.DEV_ALL)
    tot = dict(states=0, transitions=0, edges=0, walks=0, steps=0, random_walks=0, tlc_runs=0, nontrivial=0, deep_states=0, deep_transitions=0)
    cov, samples, plans = {}, [], {}
    only = os.environ.get("VERIF_EXT_CFG")
    pool = ThreadPoolExecutor(max_workers=2)
    n = [0]

    def wd(tag):
        n[0] += 1
        return os.path.join(chk.work, "%s_%d" % (tag, n[0]))

    deep = []
    for c in P["cfgs"]:
        if only and c["name"] not in only.split(","):
            continue
        if c.get("deep_depth"):
            cs = consts(c, dev_real, c["deep_depth"])
            deep.append((c["name"], pool.submit(tlc.run, SPEC, mk_cfg(cs, P["invs"], P["props"]), wd("deep"),
                                                workers=max(2, tlc.NPROC // 2), timeout=3000, keep_stdout=True, heap="6g")))
    for c in P["cfgs"]:
        if only and c["name"] not in only.split(","):
            continue
        cs = consts(c, dev_real, c["depth"])
        tg = time.time()
        g = graph.dump(SPEC, mk_cfg(cs, P["invs"], P["props"], emit=True), wd("graph"), timeout=3000, heap="6g")
        r = g.tlc
        tot["t_graph"] = round(tot.get("t_graph", 0) + time.time() - tg, 1)
        tot["tlc_runs"] += 1
        tot["states"] += r.distinct
        tot["transitions"] += r.generated
        tot["edges"] += len(g.edges)
        if r.violated:
            chk.violation({"spec": SPEC, "action": "TLC", "kind": "spec", "invariant": str(r.violated), "cfg": c["name"]},
                          "TLC: %s violated in OrmSessionExt.tla (cfg %s, depth %d): %s" % (
                              r.violated, c["name"], c["depth"], " ".join(B.trace_actions(r.stdout))))
        for e in g.edges:
            cov[e[1]["a"]] = cov.get(e[1]["a"], 0) + 1
        frac = c.get("edge_sample")       # quick tier: replay a seeded sample of the edges (TLC still checks every edge's properties)
        probs = c.get("edge_probs", {})      # per-action sampling rates (the property's observation points are kept more often)
        filt = (lambda e, rr=random.Random(chk.seed * 7919 + 1): rr.random() < probs.get(e[1]["a"], frac)) if frac else None
        walks, plan = graph.plan_tours(g, c["depth"], rng, edge_filter=filt, budget_s=300)
        extra = graph.random_walks(g, c.get("random", 200), c["depth"], rng)
        plans[c["name"]] = plan
        tr = time.time()
        mk = lambda wid, w, c=c: DriverX(wid, w, eoc=c.get("eoc", True), legacy=c.get("legacy", False), always_gc=c.get("always_gc", False))   # noqa
        steps, mism = graph.replay(g, walks + extra, mk, wd("replay"), nproc=16)
        tot["t_replay"] = round(tot.get("t_replay", 0) + time.time() - tr, 1)
        tot["walks"] += len(walks)
        tot["random_walks"] += len(extra)
        tot["steps"] += steps
        report(chk, mism, c["name"])
        if walks:
            nt = [w for w in walks if any(P["nontrivial"](g.states[g.edges[ei][0]], g.edges[ei][1]) for ei in w)] or walks
            for w in (nt[len(nt) // 2], nt[-1]):
                samples.append(fmt_walk([g.edges[ei][1] for ei in w]))
        tot["nontrivial"] += sum(1 for e in g.edges if P["nontrivial"](g.states[e[0]], e[1]))
        del g
    for a in P["footprint"]:
        if not cov.get(a) and not only:
            chk.machinery("vacuous: action %s of the property's footprint never taken" % a)
    for name, fut in deep:
        r = fut.result()
        tot["tlc_runs"] += 1
        tot["deep_states"] += r.distinct
        tot["deep_transitions"] += r.generated
        if r.violated:
            tr = B.trace_actions(r.stdout)
            chk.violation({"spec": SPEC, "action": "TLC", "kind": "spec", "invariant": str(r.violated), "cfg": name + "/deep"},
                          "TLC: %s violated in OrmSessionExt.tla (cfg %s, deep run): %s" % (r.violated, name, " ".join(tr)), {"trace": tr})
    pool.shutdown()
    return tot, cov, samples, plans, dev_real


def report(chk, mism, cfgname):
    for m in mism:
        act = m["act"] if isinstance(m["act"], dict) else {"a": m["act"], "arg": [], "ret": None}
        walk = [a for a in m["walk"] if isinstance(a, dict)]
        chk.violation({"spec": SPEC, "action": act["a"], "kind": "conformance", "ret": act.get("ret"), "cfg": cfgname},
                      "real Session diverges from OrmSessionExt.tla at step %d of [%s]: %s" % (m["step"], fmt_walk(walk), m["mismatch"][:700]),
                      {"walk": [dict(a=a["a"], arg=a["arg"], ret=a["ret"]) for a in walk], "mismatch": m["mismatch"], "cfg": cfgname})


def finish(chk, pid, P, res, rule, invs, props, assumptions):
    tot, cov, samples, plans, dev_real = res
    return chk.finish(
        dict(states=tot["states"], transitions=tot["transitions"], traces_validated_against_impl=tot["walks"] + tot["random_walks"],
             distinct_nontrivial=tot["nontrivial"], evaluations=tot["steps"], samples=samples[:4], plan=plans, action_coverage=cov,
             edges=tot["edges"], deep_states=tot["deep_states"], deep_transitions=tot["deep_transitions"], tlc_runs=tot["tlc_runs"],
             timing={k: v for k, v in tot.items() if k.startswith("t_")}, deviations_present=sorted(dev_real), exhaustive=True, rule=rule,
             checker_cmd="tlc OrmSessionExt.tla (INVARIANT %s; PROPERTY %s)" % (",".join(invs), ",".join(props))),
        assumptions=assumptions + ["bounded: %s" % [(c["name"], c.get("objs", 2), c["depth"], c.get("deep_depth")) for c in P["cfgs"]]])
