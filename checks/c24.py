"""C24 pooled connections carry no state from a previous checkout - PoolReset.tla (DESIGN 3.5/4 C24)."""
import random

from engine import graph, tlc
from checks.poolreset_driver import Driver

LEVEL = "model_checking"
MANIFEST = dict(
    text="PoolReset.tla models what one pooled DBAPI connection carries between checkouts: users take it as a Connection or a raw pool connection, begin / write / commit / roll back / fail a statement / switch isolation level or AUTOCOMMIT through execution options / do nothing, and return it by close() or by dropping every reference (GC), for reset_on_return in {rollback, commit, None} and QueuePool(1) / NullPool / StaticPool / SingletonThreadPool. TLC checks exhaustively (<=3 checkouts, <=2 rows, depth 10) that at every checkout there is no open transaction, no uncommitted write (unless reset-on-return is None) and the default isolation level, and that rows are only ever published by a commit. Every edge of each of the 12 graphs is replayed on the real pool over real sqlite3, reading in_transaction, isolation_level / PRAGMA read_uncommitted of the raw DBAPI connection and the rows another connection sees after every step.",
    design_ref="3.5, 4 (C24)",
    note="trusted: TLC; pysqlite legacy transaction control as the database model (autocommit switch commits an open transaction: driver semantics, modelled); SQLite only (PostgreSQL/MariaDB not executable); error path = failing statement; disconnect/invalidation paths are C26/C27",
    technique="TLA+ spec (PoolReset.tla) + TLC exhaustive model checking per (pool class, reset_on_return); spec->code replay of every state-graph edge on real pools over sqlite3")
INVS = ["CleanWhileIdle", "TypeOK"]
PROPS = ["CleanTxnAtCheckout", "CleanIsoAtCheckout", "PublishedOnlyByCommit", "NothingLeaksRollback"]
NEED = ["Checkout", "Exec", "ExecFail", "Begin", "Commit", "CommitFail", "Rollback", "SetIso", "Close", "Drop", "RawExec", "RawCommit", "RawRollback", "RawClose"]


def main(chk):
    rng = random.Random(chk.seed)
    base = dict(MaxRows=2, MaxCheckouts=3, MaxDepth=10) if chk.quick else dict(MaxRows=3, MaxCheckouts=4, MaxDepth=13)
    states = trans = nwalks = steps_total = nontriv = 0
    samples, runs, cov = [], [], {}
    consts = dict(base, Rors={tlc.q("rollback"), tlc.q("commit"), tlc.q("none")},
                  Kinds={tlc.q("queue"), tlc.q("null"), tlc.q("static"), tlc.q("singleton")})
    cfgt = tlc.cfg(constants=consts, init="InitEmit", invariants=INVS, properties=PROPS, view="View",
                   action_constraints=["Emit"], constraints=["Depth"])
    g = graph.dump("PoolReset", cfgt, chk.work, timeout=2400)
    r = g.tlc
    if r.violated:
        chk.violation({"spec": "PoolReset", "action": "TLC", "invariant": r.violated},
                      "TLC: %s violated in PoolReset.tla" % (r.violated,))
    states, trans = r.distinct, r.generated
    for e in g.edges:
        cov[e[1]["a"]] = cov.get(e[1]["a"], 0) + 1
        # non-trivial: a checkout that follows an earlier checkout/return (state could have been left behind)
        if e[1]["a"] == "Checkout" and g.states[e[0]]["nco"] > 0:
            nontriv += 1
    walks, plan = graph.plan_tours(g, base["MaxDepth"], rng)
    extra = graph.random_walks(g, 1000, base["MaxDepth"], rng)
    steps_total, mism = graph.replay(g, walks + extra, lambda wid, wd: Driver(wid, wd), chk.work + "/replay", nproc=16)
    for m in mism:
        a = m["act"] if isinstance(m["act"], dict) else {"a": m["act"]}
        cfgd = m["to"] or {}
        chk.violation({"spec": "PoolReset", "action": a.get("a"), "arg": a.get("arg"), "kind": "conformance",
                       "pool": cfgd.get("kind"), "ror": cfgd.get("ror")},
                      "real pool diverges from PoolReset.tla (%s, reset_on_return=%s): %s" % (cfgd.get("kind"), cfgd.get("ror"), m["mismatch"]), m)
    nwalks = len(walks) + len(extra)
    runs.append(dict(distinct=r.distinct, generated=r.generated, edges=len(g.edges), plan=plan, inits=len(g.inits)))
    for w in sorted(walks, key=len)[-3:]:
        s0 = g.states[g.edges[w[0]][0]]
        samples.append({"pool": s0["kind"], "ror": s0["ror"],
                        "walk": ["%s%s->%s" % (g.edges[ei][1]["a"], "(%s)" % g.edges[ei][1]["arg"] if g.edges[ei][1]["arg"] else "",
                                               g.edges[ei][1]["ret"]) for ei in w]})
    if len(g.inits) != 12:
        chk.machinery("expected 12 initial configurations, TLC produced %d" % len(g.inits))
    for a in NEED:
        if not cov.get(a):
            chk.machinery("vacuous: action %s never taken" % a)
    return chk.finish(
        dict(states=states, transitions=trans, traces_validated_against_impl=nwalks, distinct_nontrivial=nontriv,
             evaluations=steps_total, samples=samples, tlc_runs=runs, action_coverage=cov, exhaustive=True,
             rule="every labelled edge of PoolReset's state graph for each (pool class, reset_on_return) replayed on the real pool; "
                  "non-trivial = Checkout edges that follow at least one earlier checkout/return (state could have been left behind)",
             checker_cmd="tlc PoolReset.tla (VIEW View, ACTION_CONSTRAINT Emit) x 12 configurations"),
        assumptions=["SQLite only, pysqlite legacy transaction mode (so in_transaction is observable)",
                     "garbage collection = dropping the last reference + gc.collect() (CPython refcounting runs the pool finalizer synchronously)",
                     "bounds: %s" % base])
