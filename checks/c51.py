"""C51 (ORM-object clause) Pickling mapped objects preserves their state - OrmSessionExt.tla (DESIGN 3.8, 4 "C51", 5)."""
from checks import ormsessionext_common as X

LEVEL = "model_checking"
MANIFEST = dict(
    text="ORM-object clause only. OrmSessionExt.tla adds Pickle(o, protocol): pickle.loads(pickle.dumps(o, protocol)) for protocols 2-5 of transient, pending, persistent (loaded, modified, fully or partially expired), deleted and detached objects anywhere in bounded session histories; the copy of an attached object becomes a further model object, the copy of an unattached one replaces it. TLC checks that the copy is detached (transient when the original had no identity key), carries the same identity key, loaded values, unloaded/expired attribute set, modified flag and attribute history, belongs to no session and changes nothing else (PickleCopy / PickleSelf). Every edge is replayed on a real Session: the copy is compared with the original field by field (dict, key, expired_attributes, modified, committed_state, load_options) and then takes part in the rest of the walk - add / delete / expire / refresh / attribute read / flush / commit of the re-attached copy must behave as OrmSession.tla says for a detached object with that state.",
    design_ref="3.8, 4 (C51), 5",
    note="claimed: mapped-object clause only; Rows, frozen Results, MetaData, ext.serializer statements and loader options on pickled instances are not covered (DESIGN 5); the mapping has no relationships, so object graphs with loaded collections are not pickled; trusted: TLC, CPython pickle",
    technique="TLA+ spec (OrmSessionExt.tla EXTENDS OrmSession.tla) + TLC exhaustive model checking; spec->code replay of every state-graph edge into a real Session with real pickle round trips")

INVS = ["OneIdentity", "OnePerObject"]
PROPS = ["PickleCopy", "PickleSelf", "PickleOptValue"]
FOOTPRINT = ["Pickle", "PickleOpt", "Add", "Delete", "SetV", "Expire", "ExpireV", "Expunge", "Read", "Refresh", "Flush", "Commit", "Rollback"]


def spec(chk):
    q = chk.quick
    return dict(
        cfgs=[dict(name="pickle", acts=["SetV", "Expire", "ExpireV", "Expunge", "Read", "Refresh", "Pickle", "PickleOpt"], depth=5 if q else 6, edge_sample=0.5,
                   edge_probs={"PickleOpt": 0.25},
                   deep_depth=6 if q else 7, eoc=True, protos=(2, 3, 4, 5), random=200 if q else 2000)],
        invs=INVS, props=PROPS, footprint=FOOTPRINT,
        nontrivial=lambda frm, act: act["a"] in ("Pickle", "PickleOpt"))


def main(chk):
    P = spec(chk)
    res = X.run_ext(chk, "C51", P)
    return X.finish(chk, "C51", P, res,
                    "every labelled edge of the OrmSessionExt state graph (Pickle with protocols 2-5 from every state) replayed on a real Session; "
                    "non-trivial = Pickle edges", INVS, PROPS,
                    ["only the mapped-object clause of C51 (Rows / FrozenResult / MetaData / ext.serializer: not applicable, DESIGN 5)",
                     "SQLite only; one mapped class T(id, v) without relationships or loader options"])
