"""Shared by checks/c11.py, c09.py, c22.py (package StmtShapes: RowLookup.tla, TypePipeline.tla, ConstructGrammar.tla).

Section C11: builds the real statement for one RowLookup case (select list over tables a / b with colliding names, label
style, label_length, wrapper, textual mode), executes it on SQLite and reports the outcome of every lookup key the
specification lists.  Nothing here decides anything: outcomes are compared with the specification's by checks/c11.py.
"""
import warnings

# ------------------------------------------------------------------------------------------------ C11
# expression values: every expression that can appear in a select list has its own value
VAL = {"aid": 11, "ax": 12, "al": 13, "ak": 14, "bid": 21, "bx": 22, "by": 23, "bk": 24, "sum": 34, "anon": 35, "lit": 7}
ITEM_EXPR = {"Lax_lx": "ax", "Lbx_x": "bx", "Lby_a_x": "by", "Lsum": "sum", "Laid_k": "aid", "txt": "aid"}
# second branch of the UNION ALL wrapper: value + 100
UNION_OFF = 100


class RowLookupWorld:
    """tables, engines (one per label_length) and statement construction"""

    def __init__(self, workdir=None):
        import sqlalchemy as sa
        self.sa = sa
        self.m = sa.MetaData()
        I = sa.Integer
        self.a = sa.Table("a", self.m, sa.Column("id", I), sa.Column("x", I), sa.Column("longcolname", I), sa.Column("p", I, key="k"))
        self.b = sa.Table("b", self.m, sa.Column("id", I), sa.Column("x", I), sa.Column("y", I), sa.Column("r", I, key="k"))
        a, b = self.a, self.b
        self.cols = {"aid": a.c.id, "ax": a.c.x, "al": a.c.longcolname, "ak": a.c.k,
                     "bid": b.c.id, "bx": b.c.x, "by": b.c.y, "bk": b.c.k}
        self.engines = {}
        # ORM side assertion: the same tables mapped imperatively (attribute keys: id, x, longcolname, k / id, x, y, k)
        from sqlalchemy.orm import registry
        reg = registry()
        self.A = type("A", (object,), {})
        self.B = type("B", (object,), {})
        reg.map_imperatively(self.A, a, primary_key=[a.c.id])
        reg.map_imperatively(self.B, b, primary_key=[b.c.id])
        A, B = self.A, self.B
        self.attrs = {"aid": A.id, "ax": A.x, "al": A.longcolname, "ak": A.k, "bid": B.id, "bx": B.x, "by": B.y, "bk": B.k}

    def observe_orm(self, case):
        """ORM-enabled select of the same select list (mapped attributes instead of table columns) plus the two entities:
        -> dict(exec_error | cells, attr{id: outcome}, col{id: outcome}, entities{attr id: value})"""
        sa = self.sa
        from sqlalchemy import exc
        from sqlalchemy.orm import Session
        from sqlalchemy.sql import selectable as sel
        styles = {"none": sel.LABEL_STYLE_NONE, "tpc": sel.LABEL_STYLE_TABLENAME_PLUS_COL, "dis": sel.LABEL_STYLE_DISAMBIGUATE_ONLY}
        items = case["items"]
        out = {}
        with warnings.catch_warnings():
            warnings.simplefilter("ignore")
            with Session(self.engine(case["ll"])) as s:
                st = sa.select(*[self.attrs[i] for i in items], self.A, self.B).select_from(self.A).join(self.B, sa.true())
                st = st.set_label_style(styles[case["style"]])
                try:
                    row = s.execute(st).first()
                except exc.InvalidRequestError as e:
                    return {"exec_error": str(e)[:200]}
                n = len(items)
                out["exec_error"] = None
                out["cells"] = list(row)[:n]

                def oc(fn):
                    try:
                        return ("val", fn())
                    except (exc.InvalidRequestError, KeyError) as e:     # NoSuchColumnError is both
                        return ("raise", type(e).__name__)
                    except Exception as e:
                        return ("exc", "%s: %s" % (type(e).__name__, e))
                out["attr"] = {i: oc(lambda: row._mapping[self.attrs[i]]) for i in self.attrs}
                out["col"] = {i: oc(lambda: row._mapping[self.cols[i]]) for i in self.cols}
                ea, eb = row[n], row[n + 1]
                out["entities"] = {"aid": ea.id, "ax": ea.x, "al": ea.longcolname, "ak": ea.k, "bid": eb.id, "bx": eb.x, "by": eb.y, "bk": eb.k}
                out["entity_lookup"] = [oc(lambda: row._mapping[self.A] is ea), oc(lambda: row.A is ea), oc(lambda: row._mapping[self.B] is eb)]
        return out

    def engine(self, ll):
        if ll not in self.engines:
            from sqlalchemy.pool import StaticPool
            sa = self.sa
            e = sa.create_engine("sqlite://", label_length=ll or None, poolclass=StaticPool)
            self.m.create_all(e)
            with e.begin() as c:
                c.execute(self.a.insert().values(id=11, x=12, longcolname=13, k=14))
                c.execute(self.b.insert().values(id=21, x=22, y=23, k=24))
            self.engines[ll] = e
        return self.engines[ll]

    def dispose(self):
        for e in self.engines.values():
            e.dispose()
        self.engines = {}

    # -------------------------------------------------------------------------------------------- construction
    def build_item(self, it):
        sa, a, b = self.sa, self.a, self.b
        if it in self.cols:
            return self.cols[it]
        if it == "Lax_lx":
            return a.c.x.label("lx")
        if it == "Lbx_x":
            return b.c.x.label("x")
        if it == "Lby_a_x":
            return b.c.y.label("a_x")
        if it == "Laid_k":
            return a.c.id.label("k")
        if it == "Lsum":
            return (a.c.x + b.c.x).label("longlabelname")
        if it == "anon":
            return a.c.x + b.c.y
        if it == "lit":
            return sa.literal_column("7")
        if it == "txt":
            return sa.text("a.id")
        raise KeyError(it)

    def build(self, case):
        """-> (statement, objmap: object id -> object, posobjs: the object selected at each position)"""
        sa = self.sa
        from sqlalchemy.sql import selectable as sel
        styles = {"none": sel.LABEL_STYLE_NONE, "tpc": sel.LABEL_STYLE_TABLENAME_PLUS_COL, "dis": sel.LABEL_STYLE_DISAMBIGUATE_ONLY}
        items = case["items"]
        om = {}
        for it in items:
            if it not in om:
                om[it] = self.build_item(it)         # the same item twice = the same object twice
        for n, c in self.cols.items():
            om.setdefault(n, c)
        inner = sa.select(*[om[i] for i in items]).select_from(self.a).join(self.b, sa.true()).set_label_style(styles[case["style"]])
        posobjs = [om[i] for i in items]
        wrap, mode = case["wrap"], case["mode"]
        stmt = inner
        if wrap in ("subq", "cte"):
            sq = inner.subquery("sq") if wrap == "subq" else inner.cte("sq")
            stmt = sa.select(sq)
            posobjs = list(sq.c)
            for it, c in zip(items, posobjs):
                om["sq." + it] = c
        elif wrap == "union":
            second = sa.select(*[sa.literal_column(str(VAL[ITEM_EXPR.get(i, i)] + UNION_OFF)) for i in items])
            stmt = sa.union_all(inner, second)
        if mode != "pos":
            # the comment keeps statements of different cases apart in the compiled cache (equal SQL text can arise from two label
            # styles; TextualSelect.positional is not part of the cache key)
            e = self.engine(case["ll"])
            sql = str(stmt.compile(e, compile_kwargs={"literal_binds": True})) + " /* %s %s %s */" % (mode, case["style"], case["wrap"])
            if mode == "text":
                stmt = sa.text(sql)
            elif mode == "tpos":
                stmt = sa.text(sql).columns(*posobjs)
            elif mode == "tname":
                stmt = sel.TextualSelect(sa.text(sql), posobjs, positional=False)
            else:
                raise KeyError(mode)
        return stmt, om, posobjs

    # -------------------------------------------------------------------------------------------- observation
    @staticmethod
    def outcome(fn, attr=False):
        from sqlalchemy import exc
        try:
            return ("val", fn())
        except exc.NoSuchColumnError:
            return ("NoSuch", None)
        except exc.InvalidRequestError as e:
            if "Ambiguous column name" in str(e):
                return ("Amb", None)
            return ("exc", "InvalidRequestError: %s" % e)
        except AttributeError as e:
            if attr and "Could not locate column in row" in str(e):
                return ("NoSuch", None)       # Row.__getattr__ turns the NoSuchColumnError of a missing key into AttributeError
            return ("exc", "AttributeError: %s" % e)
        except Exception as e:            # anything else is reported as it is
            return ("exc", "%s: %s" % (type(e).__name__, e))

    def observe(self, case):
        """run the case twice (second run: freshly built equal statement, served from the compiled cache) and return
        dict(exec_error, keys, rows, str{key:[o1,o2]}, attr{key:o}, obj{id:o}, pos[o..], fresh[o..], cint[o..], cols_ok)"""
        from sqlalchemy import exc
        eng = self.engine(case["ll"])
        out = {"runs": []}
        with warnings.catch_warnings():
            warnings.simplefilter("ignore")
            for run in (0, 1):
                stmt, om, posobjs = self.build(case)
                with eng.connect() as conn:
                    try:
                        res = conn.execute(stmt)
                    except exc.InvalidRequestError as e:
                        out["runs"].append({"exec_error": "InvalidRequestError", "msg": str(e)})
                        continue
                    r = {"exec_error": None, "keys": list(res.keys())}
                    rows = res.all()
                    r["rows"] = [list(x) for x in rows]
                    row = rows[0]
                    r["str"] = {k: self.outcome(lambda: row._mapping[k]) for k in case["strkeys"]}
                    r["attr"] = {k: self.outcome(lambda: getattr(row, k), attr=True) for k in case["strkeys"] if k.isidentifier() and not k.startswith("_")}
                    r["obj"] = {k: self.outcome(lambda: row._mapping[om[k]]) for k in case["objkeys"] if k in om}
                    r["posobj"] = [self.outcome(lambda: row._mapping[o]) for o in posobjs]
                    r["rows_posobj"] = [[self.outcome(lambda: x._mapping[o]) for o in posobjs] for x in rows]
                    # Result.columns(): every non-raising key at once, and integer positions one by one
                    cint = []
                    for i in range(len(posobjs)):
                        res2 = conn.execute(stmt)
                        cint.append(self.outcome(lambda: res2.columns(i).all()[0][0]))
                        res2.close()
                    r["cint"] = cint
                    good = [k for k in case["strkeys"] if r["str"][k][0] == "val"]
                    goodo = [k for k in r["obj"] if r["obj"][k][0] == "val"]
                    res3 = conn.execute(stmt)
                    r["columns"] = self.outcome(lambda: list(res3.columns(*(good + [om[k] for k in goodo])).all()[0]))
                    res3.close()
                    r["columns_expect"] = [r["str"][k][1] for k in good] + [r["obj"][k][1] for k in goodo]
                    res4 = conn.execute(stmt)
                    r["mappings"] = self.outcome(lambda: [dict(x) for x in res4.mappings().all()])
                    res4.close()
                out["runs"].append(r)
        if case["mode"] == "pos" and case["wrap"] == "none" and all(i in self.cols for i in case["items"]):
            out["orm"] = self.observe_orm(case)
        return out


def _j(chars):
    return "".join(chars)


def rowlookup_prepare(c):
    """TLC case (names as character lists) -> case for RowLookupWorld.observe + expectation tables"""
    case = dict(items=list(c["items"]), style=c["style"], ll=c["ll"], mode=c["mode"], wrap=c["wrap"], execError=c["execError"])
    if c["execError"]:
        case.update(strkeys=[], objkeys=[])
        return case
    case["keys"] = [_j(k) for k in c["keys"]]
    case["str"] = {_j(e["k"]): (e["o"], e["l"]) for e in c["str"]}
    case["obj"] = {e["k"]: (e["o"], e["l"]) for e in c["obj"]}
    case["strkeys"] = sorted(case["str"])
    case["objkeys"] = sorted(case["obj"])
    case["fresh"] = [(e["o"], e["l"]) for e in c["fresh"]]
    case["cint"] = [(e["o"], e["l"]) for e in c["cint"]]
    case["exprs"] = list(c["exprs"])
    case["posids"] = list(c["posids"])
    case["finding"] = c["finding"]
    case["differs"] = c["differs"]
    case["strategy"] = c["strategy"]
    return case


AMB, NOSUCH, UNSPEC = -1, -2, -3


def rowlookup_compare(case, obs):
    """-> list of (kind, detail) mismatches; kind 'legacy' = the real code answers like the pinned mechanism where the repaired one
    differs (a finding of class case['finding']), anything else is an unexplained disagreement"""
    out = []
    if case["execError"]:
        for ri, r in enumerate(obs["runs"]):
            if not r["exec_error"]:
                out.append(("other", "run%d: executed, specification expects InvalidRequestError (duplicate column expression in textual SQL)" % ri))
        return out
    vals = [VAL[e] for e in case["exprs"]]

    def exp(o):
        return ("val", vals[o]) if o >= 0 else ("Amb", None) if o == AMB else ("NoSuch", None)

    def cmp(what, real, pair):
        o, l = pair
        if o == UNSPEC:
            return
        if real == exp(o):
            return
        if l != UNSPEC and o != l and real == exp(l):
            out.append(("legacy", "%s: real %r = pinned mechanism %r, repaired mechanism %r" % (what, real, exp(l), exp(o))))
        else:
            out.append(("other", "%s: real %r, specification %r (pinned %r)" % (what, real, exp(o), exp(l) if l != UNSPEC else None)))

    o = obs.get("orm")
    if o is not None:
        once = {i for i in case["items"] if case["items"].count(i) == 1}
        if o["exec_error"]:
            # the ORM loader itself looks the selected columns up: it may refuse a list in which a selected column is ambiguous
            if not any(case["obj"][i][0] == AMB or case["obj"][i][1] == AMB for i in case["items"]):
                out.append(("other", "ORM select raised %s although no selected column is ambiguous" % o["exec_error"]))
        else:
            if o["cells"] != vals:
                out.append(("other", "ORM row cells %r, expressions %r" % (o["cells"], vals)))
            for kind in ("attr", "col"):
                for i, (st_, v) in o[kind].items():
                    if st_ == "exc" or (st_ == "val" and v != VAL[i]):
                        out.append(("other", "ORM row._mapping[<%s %s>] = %r, the expression's value is %r" % (kind, i, v, VAL[i])))
                    elif st_ == "raise" and kind == "attr" and i in once:
                        out.append(("other", "ORM row._mapping[<attr %s>] raises %s although the attribute is selected exactly once" % (i, v)))
            if o["entities"] != {i: VAL[i] for i in o["entities"]}:
                out.append(("other", "ORM entities loaded %r" % (o["entities"],)))
            if o["entity_lookup"] != [("val", True)] * 3:
                out.append(("other", "ORM entity lookup %r" % (o["entity_lookup"],)))
    for ri, r in enumerate(obs["runs"]):
        if r["exec_error"]:
            out.append(("other", "run%d: %s %s" % (ri, r["exec_error"], r.get("msg", "")[:200])))
            continue
        if r["rows"][0] != vals:
            out.append(("other", "run%d: row[i] cells %r, expressions evaluate to %r" % (ri, r["rows"][0], vals)))
        if case["wrap"] == "union" and (len(r["rows"]) != 2 or r["rows"][1] != [v + UNION_OFF for v in vals]):
            out.append(("other", "run%d: union rows %r" % (ri, r["rows"])))
        if r["keys"] != case["keys"]:
            out.append(("other", "run%d: Result.keys() %r, specification %r" % (ri, r["keys"], case["keys"])))
        for k in case["strkeys"]:
            cmp("run%d row._mapping[%r]" % (ri, k), r["str"][k], case["str"][k])
            if k in r["attr"]:
                cmp("run%d row.%s" % (ri, k), r["attr"][k], case["str"][k])
        for k in r["obj"]:
            if ri == 1 and k in case["posids"]:
                continue            # the second run's selected objects follow the Fresh rule below
            cmp("run%d row._mapping[<%s>]" % (ri, k), r["obj"][k], case["obj"][k])
        for i, o in enumerate(r["posobj"]):
            if ri == 0:
                cmp("run0 row._mapping[<selected %d %s>]" % (i, case["posids"][i]), o, case["obj"][case["posids"][i]])
            else:
                cmp("run1(cached) row._mapping[<selected %d %s>]" % (i, case["posids"][i]), o, case["fresh"][i])
        if case["wrap"] == "union":
            for i, o in enumerate(r["rows_posobj"][1]):
                if o[0] == "val" and r["posobj"][i][0] == "val" and o[1] != r["posobj"][i][1] + UNION_OFF:
                    out.append(("other", "run%d union second row, selected %d: %r vs first row %r" % (ri, i, o, r["posobj"][i])))
        for i, o in enumerate(r["cint"]):
            cmp("run%d Result.columns(%d)" % (ri, i), o, case["cint"][i])
        if r["columns_expect"] and r["columns"] != ("val", r["columns_expect"]):
            out.append(("other", "run%d Result.columns(*keys) %r, single lookups %r" % (ri, r["columns"], r["columns_expect"])))
        if len(set(case["keys"])) == len(case["keys"]) and all(case["str"][k][0] >= 0 for k in case["keys"]):
            # every result key is unambiguous: the mapping view is the dictionary key -> cell
            if r["mappings"] != ("val", [dict(zip(case["keys"], x)) for x in r["rows"]]):
                out.append(("other", "run%d mappings() %r" % (ri, r["mappings"])))
    return out


# ------------------------------------------------------------------------------------------------ C09 (clause 2)
class TypePipelineWorld:
    """Counting types on real SQLite.  Every processing stage appends its tag to the (string) value and records
    (tag, token) in self.log, so the loaded value IS the pipeline the value went through and the log counts the calls."""

    TOKENS = ("v1", "v2", "v3")

    def __init__(self):
        import sqlalchemy as sa
        from sqlalchemy import event
        from sqlalchemy.pool import StaticPool
        self.sa = sa
        self.log = []
        self.types = self._make_types()
        self.engine = sa.create_engine("sqlite://", poolclass=StaticPool)

        @event.listens_for(self.engine, "connect")
        def _fn(dbapi_con, rec):
            dbapi_con.create_function("tagbe", 1, lambda v: None if v is None else v + "|BE")
            dbapi_con.create_function("tagce", 1, lambda v: None if v is None else v + "|CE")

        self.meta = sa.MetaData()
        self.tables, self.dtables, self.ctables, self.classes = {}, {}, {}, {}
        from sqlalchemy.orm import registry
        reg = registry()
        for name, ty in self.types.items():
            t = sa.Table("t_" + name, self.meta, sa.Column("id", sa.Integer, primary_key=True), sa.Column("c", ty))
            self.tables[name] = t
            self.dtables[name] = sa.Table("d_" + name, self.meta, sa.Column("id", sa.Integer, primary_key=True),
                                          sa.Column("c", ty, default="v1"))
            self.ctables[name] = sa.Table("c_" + name, self.meta, sa.Column("id", sa.Integer, primary_key=True),
                                          sa.Column("c", ty, default=lambda: "v1"))
            cls = type("O_" + name, (object,), {})
            reg.map_imperatively(cls, t)
            self.classes[name] = cls
        self.meta.create_all(self.engine)

    @staticmethod
    def tok(v):
        return v.split("|")[0] if isinstance(v, str) else v

    def _make_types(self):
        sa = self.sa
        from sqlalchemy.types import TypeDecorator, UserDefinedType
        log = self.log
        tok = self.tok

        class P(UserDefinedType):
            cache_ok = True

            def get_col_spec(self, **kw):
                return "VARCHAR"

            def bind_processor(self, dialect):
                def process(v):
                    if v is None:
                        return None
                    log.append(("b:P", tok(v)))
                    return v + "|b:P"
                return process

            def result_processor(self, dialect, coltype):
                def process(v):
                    if v is None:
                        return None
                    log.append(("r:P", tok(v)))
                    return v + "|r:P"
                return process

            def literal_processor(self, dialect):
                def process(v):
                    log.append(("l:P", tok(v)))
                    return "'%s|l:P'" % v
                return process

        class XP(P):
            def bind_expression(self, bindvalue):
                return sa.func.tagbe(bindvalue, type_=self)

            def column_expression(self, col):
                return sa.func.tagce(col, type_=self)

        def dec(name, impl_, sqlx=False):
            class D(TypeDecorator):
                impl = impl_
                cache_ok = True

                def process_bind_param(self, value, dialect):
                    if value is None:
                        return None
                    log.append(("b:" + name, tok(value)))
                    return value + "|b:" + name

                def process_literal_param(self, value, dialect):
                    if value is None:
                        return None
                    log.append(("l:" + name, tok(value)))
                    return value + "|l:" + name

                def process_result_value(self, value, dialect):
                    if value is None:
                        return None
                    log.append(("r:" + name, tok(value)))
                    return value + "|r:" + name

                if sqlx:
                    def bind_expression(self, bindvalue):
                        return sa.func.tagbe(bindvalue, type_=self)

                    def column_expression(self, col):
                        return sa.func.tagce(col, type_=self)
            D.__name__ = name + ("X" if sqlx else "") + "_over_" + getattr(impl_, "__name__", "t")
            return D

        D1S = dec("D1", sa.String)
        D1P = dec("D1", P)
        return {"D1S": D1S(), "D2D1S": dec("D2", D1S)(), "D1P": D1P(), "D2D1P": dec("D2", D1P)(), "P": P(),
                "X1S": dec("D1", sa.String, True)(), "X2D1P": dec("D2", D1P, True)(), "D1XP": dec("D1", XP)()}

    # ---------------------------------------------------------------------------------------------- one case
    def run(self, t, w, r):
        """-> dict(tokens: {token: dict(stored, loaded, wev, rev)}, sql=..., compile_only=bool) ; raises on machinery problems"""
        sa = self.sa
        from sqlalchemy.orm import Session, aliased
        tab = self.tables[t]
        cls = self.classes[t]
        log = self.log
        out = {}
        with warnings.catch_warnings():
            warnings.simplefilter("ignore")
            with self.engine.begin() as conn:
                for tb in (tab, self.dtables[t], self.ctables[t]):
                    conn.execute(tb.delete())
            del log[:]
            # ------------------------------------------------------------------ write
            wtab = tab
            toks = ["v1"]
            combined = None            # RETURNING rows of a statement that writes and reads at once
            with self.engine.begin() as conn:
                if r in ("ret_insert", "ret_many"):
                    if r == "ret_insert":
                        st = tab.insert().returning(tab.c.c)
                        combined = conn.execute(st.values(id=1, c="v1")).all() if w == "values" else conn.execute(st, {"id": 1, "c": "v1"}).all()
                    else:
                        toks = ["v1", "v2"]
                        combined = conn.execute(tab.insert().returning(tab.c.c), [{"id": 1, "c": "v1"}, {"id": 2, "c": "v2"}]).all()
                elif w == "values":
                    conn.execute(tab.insert().values(id=1, c="v1"))
                elif w == "params":
                    conn.execute(tab.insert(), {"id": 1, "c": "v1"})
                elif w == "many":
                    toks = ["v1", "v2"]
                    conn.execute(tab.insert(), [{"id": 1, "c": "v1"}, {"id": 2, "c": "v2"}])
                elif w == "many_ret":
                    toks = ["v1", "v2"]
                    conn.execute(tab.insert().returning(tab.c.id), [{"id": 1, "c": "v1"}, {"id": 2, "c": "v2"}]).all()
                elif w == "literal":
                    sql = str(tab.insert().values(id=1, c="v1").compile(self.engine, compile_kwargs={"literal_binds": True}))
                    conn.exec_driver_sql(sql)
                elif w == "default":
                    wtab = self.dtables[t]
                    conn.execute(wtab.insert().values(id=1))
                elif w == "callable_default":
                    wtab = self.ctables[t]
                    conn.execute(wtab.insert(), [{"id": 1}])
                elif w == "update":
                    conn.exec_driver_sql("insert into %s (id, c) values (1, 'old')" % tab.name)
                    conn.execute(tab.update().where(tab.c.id == 1).values(c="v1"))
                elif w in ("orm_add", "orm_update", "orm_bulk"):
                    pass
                else:
                    raise KeyError(w)
            if w in ("orm_add", "orm_update", "orm_bulk"):
                with Session(self.engine) as s:
                    if w == "orm_add":
                        o = cls()
                        o.id, o.c = 1, "v1"
                        s.add(o)
                        s.commit()
                    elif w == "orm_update":
                        s.connection().exec_driver_sql("insert into %s (id, c) values (1, 'old')" % tab.name)
                        o = s.get(cls, 1)
                        del log[:]
                        o.c = "v1"
                        s.commit()
                    else:
                        toks = ["v1", "v2"]
                        s.execute(sa.insert(cls), [{"id": 1, "c": "v1"}, {"id": 2, "c": "v2"}])
                        s.commit()
            wlog = list(log)
            del log[:]
            with self.engine.begin() as conn:
                stored = dict((self.tok(x[0]), x[0]) for x in conn.exec_driver_sql("select c from %s" % wtab.name).all())
                if wtab is not tab:           # the read side always works on the main table
                    for v in stored.values():
                        conn.exec_driver_sql("insert into %s (id, c) values (1, ?)" % tab.name, (v,))
                # a second / third row for the compound members, written raw (already "stored" form of the same pipeline)
                base = stored[toks[0]]
                have = {self.tok(x[0]) for x in conn.exec_driver_sql("select c from %s" % tab.name).all()}
                for i, tk in enumerate(("v1", "v2", "v3"), 1):
                    if tk not in have:
                        conn.exec_driver_sql("insert into %s (id, c) values (?, ?)" % tab.name, (i, tk + base[len(toks[0]):]))
            del log[:]
            # ------------------------------------------------------------------ read
            c = tab.c.c

            def leaf(i):
                return sa.select(c).where(tab.c.id == i)
            want = "v1"
            loaded = None
            compile_only = None
            if combined is not None:
                loaded = {self.tok(x[0]): x[0] for x in combined}
                rlog = [e for e in wlog if e[0].startswith("r:")]
                wlog = [e for e in wlog if not e[0].startswith("r:")]
                want = None
            elif r.startswith("orm_"):
                with Session(self.engine) as s:
                    if r == "orm_entity":
                        loaded = {"v1": s.scalars(sa.select(cls).where(cls.id == 1)).one().c}
                    elif r == "orm_attr":
                        loaded = {"v1": s.execute(sa.select(cls.c).where(cls.id == 1)).scalar_one()}
                    elif r == "orm_refresh":
                        o = s.get(cls, 1)
                        s.expire(o)
                        del log[:]
                        loaded = {"v1": o.c}
                        o.c
                    elif r == "orm_aliased":
                        al = aliased(cls)
                        loaded = {"v1": s.scalars(sa.select(al).where(al.id == 1)).one().c}
                    elif r == "orm_subq":
                        al = aliased(cls, sa.select(cls).where(cls.id == 1).subquery())
                        loaded = {"v1": s.scalars(sa.select(al)).one().c}
                    else:
                        raise KeyError(r)
                rlog = list(log)
            else:
                with self.engine.begin() as conn:
                    if r == "sel":
                        st = leaf(1)
                    elif r == "label":
                        st = sa.select(c.label("lbl")).where(tab.c.id == 1)
                    elif r == "cached":
                        st = leaf(1)
                        conn.execute(leaf(1)).all()
                        del log[:]
                    elif r == "columns_view":
                        st = None
                        res = conn.execute(sa.select(tab.c.id, c).where(tab.c.id == 1))
                        rows = res.columns("c").all()
                        rows[0][0], rows[0].c, rows[0]._mapping["c"]
                        loaded = {"v1": rows[0][0]}
                    elif r == "subq":
                        sq = sa.select(c, tab.c.id).subquery()
                        st = sa.select(sq.c.c).where(sq.c.id == 1)
                    elif r == "cte":
                        sq = sa.select(c, tab.c.id).cte("w")
                        st = sa.select(sq.c.c).where(sq.c.id == 1)
                    elif r == "scalar":
                        st = sa.select(leaf(1).scalar_subquery())
                    elif r == "subq2":
                        sq = sa.select(c.label("k"), tab.c.id).subquery()
                        sq2 = sa.select(sq.c.k, sq.c.id).subquery()
                        st = sa.select(sq2.c.k).where(sq2.c.id == 1)
                    elif r in ("union0", "union1"):
                        st = sa.union_all(leaf(1), leaf(2))
                        want = "v1" if r == "union0" else "v2"
                    elif r == "subq_union1":
                        st = sa.select(sa.union_all(leaf(1), leaf(2)).subquery().c.c)
                        want = "v2"
                    elif r == "union1_subq":
                        sq = sa.select(c, tab.c.id).subquery()
                        st = sa.union_all(leaf(1), sa.select(sq.c.c).where(sq.c.id == 2))
                        want = "v2"
                    elif r in ("nested01", "nested10", "nested11"):
                        # SQLite cannot parse a parenthesised compound: the rendered SQL of the leaf SELECT is the observation
                        st = None
                        if r == "nested01":
                            u, want = sa.union_all(sa.union_all(leaf(1), leaf(2)), leaf(3)), "v2"
                        elif r == "nested10":
                            u, want = sa.union_all(leaf(1), sa.union_all(leaf(2), leaf(3))), "v2"
                        else:
                            u, want = sa.union_all(leaf(1), sa.union_all(leaf(2), leaf(3))), "v3"
                        from sqlalchemy.dialects import postgresql
                        sql = str(u.compile(dialect=postgresql.dialect(), compile_kwargs={"literal_binds": True}))
                        compile_only = sql
                    elif r == "ret_update":
                        st = tab.update().where(tab.c.id == 1).values(id=1).returning(c)
                    elif r == "ret_delete":
                        st = tab.delete().where(tab.c.id == 1).returning(c)
                    else:
                        raise KeyError(r)
                    if st is not None:
                        rows = conn.execute(st).all()
                        loaded = {self.tok(x[0]): x[0] for x in rows}
                rlog = list(log)
            out = {"want": want, "toks": toks, "stored": stored, "loaded": loaded, "wlog": wlog, "rlog": rlog, "compile_only": compile_only}
        return out


# ------------------------------------------------------------------------------------------------ C22
class ConstructBuilder:
    """Builds the real construct(s) of a ConstructGrammar derivation [k, a, b, c, d, e].  build() returns a list of
    (label, compilable) - one statement, or the DDL elements of the derivation - and raises only what the constructors raise."""

    def __init__(self):
        import sqlalchemy as sa
        self.sa = sa
        m = self.m = sa.MetaData()
        self.t = sa.Table("t", m, sa.Column("id", sa.Integer, primary_key=True), sa.Column("x", sa.Integer), sa.Column("y", sa.Integer),
                          sa.Column("s", sa.String(30)), sa.Column("j", sa.JSON), sa.Column("ts", sa.DateTime), sa.Column("b", sa.Boolean),
                          sa.Column("n", sa.Numeric(10, 2)))
        self.u = sa.Table("u", m, sa.Column("id", sa.Integer, primary_key=True), sa.Column("t_id", sa.ForeignKey("t.id")),
                          sa.Column("z", sa.Integer), sa.Column("s", sa.String(30)))
        self.v = sa.Table("v", m, sa.Column("id", sa.Integer, primary_key=True), sa.Column("u_id", sa.ForeignKey("u.id")),
                          sa.Column("w", sa.Integer, server_default=sa.text("0")), sa.Column("d", sa.Integer, default=7))

    # ---------------------------------------------------------------------------------------------- SELECT
    def _cols(self, a, frm):
        sa, t, u = self.sa, self.t, self.u
        f = sa.func
        if a == "plain":
            return [t.c.id, t.c.x]
        if a == "star":
            return [sa.literal_column("*")]
        if a == "label":
            return [t.c.id.label("ident"), (t.c.x + t.c.y).label("total")]
        if a == "case":
            return [sa.case((t.c.x > 1, "big"), (t.c.x == 1, "one"), else_="small"), sa.case({1: "a", 2: "b"}, value=t.c.y)]
        if a == "cast":
            return [sa.cast(t.c.x, sa.String), sa.type_coerce(t.c.s, sa.Integer), sa.cast(t.c.s, sa.Numeric(8, 3)), sa.try_cast(t.c.s, sa.Integer)]
        if a == "func":
            return [f.count(t.c.id), f.max(t.c.x), f.coalesce(t.c.x, 0), f.now(), f.lower(t.c.s), f.char_length(t.c.s), f.random()]
        if a == "window":
            return [t.c.id, f.row_number().over(partition_by=t.c.x, order_by=t.c.y.desc()),
                    f.sum(t.c.y).over(order_by=t.c.id, rows=(None, 0)), f.rank().over(order_by=t.c.x, range_=(-1, 1))]
        if a == "scalar":
            return [t.c.id, sa.select(f.count(u.c.id)).where(u.c.t_id == t.c.id).scalar_subquery().label("n_u")]
        if a == "concat":
            return [t.c.s + "x", t.c.s.concat(t.c.s), f.concat(t.c.s, "a", "b"), sa.literal("a") + t.c.s]
        if a == "tuple":
            return [t.c.id, sa.tuple_(t.c.x, t.c.y) == sa.tuple_(1, 2)]
        if a == "extract":
            return [sa.extract("year", t.c.ts), sa.extract("dow", t.c.ts), f.date_trunc("month", t.c.ts)]
        if a == "literal":
            return [sa.literal(1), sa.literal("a'b"), sa.literal(None), sa.literal(1.5), sa.null(), sa.true(), sa.literal_column("1")]
        if a == "bindtyped":
            return [sa.bindparam("p1", 5, type_=sa.Integer), sa.bindparam("p2", type_=sa.String), sa.bindparam("p3", value=[1, 2], expanding=True)
                    if False else sa.bindparam("p3", 2.5, type_=sa.Float)]
        if a == "aggfilter":
            return [f.count(t.c.id).filter(t.c.x > 1), f.sum(t.c.y).filter(t.c.b).over(partition_by=t.c.x)]
        if a == "within_group":
            return [f.percentile_cont(0.5).within_group(t.c.x), f.array_agg(t.c.x), f.aggregate_strings(t.c.s, ",")]
        if a == "json_idx":
            return [t.c.j["k"], t.c.j[("a", "b")], t.c.j["k"].as_string(), t.c.j[1].as_integer()]
        if a == "collate":
            return [sa.collate(t.c.s, "NOCASE"), t.c.s.collate("C").label("c2")]
        if a == "not_bool":
            return [~t.c.b, sa.not_(t.c.x > 1), t.c.b.is_(True), -t.c.x, t.c.b & (t.c.x > 0)]
        if a == "arith":
            return [t.c.x / t.c.y, t.c.x // 2, t.c.x % 3, t.c.x * (t.c.y - 1), t.c.n / 3, t.c.x.op("&")(1), f.pow(t.c.x, 2), t.c.x.bitwise_xor(3)]
        if a == "coalesce_nullif":
            return [f.coalesce(t.c.s, "z"), f.nullif(t.c.x, 0), f.greatest(t.c.x, t.c.y) if False else f.abs(t.c.x), t.c.x.is_distinct_from(t.c.y)]
        raise KeyError(a)

    def _from(self, b, stmt_cols):
        """-> (froms applied to a select builder: function(select) -> select)"""
        sa, t, u, v = self.sa, self.t, self.u, self.v
        if b == "t":
            return lambda s: s.select_from(t)
        if b == "join":
            return lambda s: s.select_from(t.join(u, t.c.id == u.c.t_id))
        if b == "outer":
            return lambda s: s.select_from(t.outerjoin(u))
        if b == "full":
            return lambda s: s.select_from(t.join(u, t.c.id == u.c.t_id, full=True))
        if b == "selfjoin":
            t2 = t.alias("t2")
            return lambda s: s.select_from(t.join(t2, t.c.x == t2.c.id))
        if b == "subq":
            sq = sa.select(u.c.t_id, sa.func.count().label("cnt")).group_by(u.c.t_id).subquery("sq")
            return lambda s: s.select_from(t.join(sq, sq.c.t_id == t.c.id)).add_columns(sq.c.cnt)
        if b == "cte":
            c = sa.select(u.c.t_id, u.c.z).where(u.c.z > 0).cte("c1")
            return lambda s: s.select_from(t.join(c, c.c.t_id == t.c.id)).add_columns(c.c.z)
        if b == "rcte":
            c = sa.select(t.c.id, t.c.x).where(t.c.x.is_(None)).cte("tree", recursive=True)
            c = c.union_all(sa.select(t.c.id, t.c.x).join(c, t.c.x == c.c.id))
            return lambda s: s.select_from(t.join(c, c.c.id == t.c.id))
        if b == "lateral":
            lat = sa.select(u.c.z).where(u.c.t_id == t.c.id).limit(1).lateral("lat")
            return lambda s: s.select_from(t.join(lat, sa.true())).add_columns(lat.c.z)
        if b == "values":
            vals = sa.values(sa.column("k", sa.Integer), sa.column("nm", sa.String), name="vv").data([(1, "a"), (2, "b")])
            return lambda s: s.select_from(t.join(vals, vals.c.k == t.c.id)).add_columns(vals.c.nm)
        if b == "alias":
            ta = t.alias("ta")
            return lambda s: s.select_from(t.join(ta, ta.c.id == t.c.id)).where(ta.c.x > 0)
        if b == "join3":
            return lambda s: s.select_from(t.join(u, t.c.id == u.c.t_id).outerjoin(v, v.c.u_id == u.c.id)).add_columns(v.c.w)
        if b == "tablesample":
            ts = sa.tablesample(t, sa.func.bernoulli(1), name="smp", seed=sa.func.random())
            return lambda s: s.select_from(t.join(ts, ts.c.id == t.c.id))
        if b == "func_table":
            fn = sa.func.generate_series(1, 5).table_valued("value", name="gs")
            return lambda s: s.select_from(t.join(fn, fn.c.value == t.c.id)).add_columns(fn.c.value)
        raise KeyError(b)

    def _crit(self, c, tab=None):
        sa, t, u = self.sa, tab if tab is not None else self.t, self.u
        T = self.t
        if c == "none":
            return None
        if c == "eq":
            return t.c.id == 5
        if c == "in":
            return t.c.id.in_([1, 2, 3])
        if c == "in_empty":
            return t.c.id.in_([])
        if c == "notin":
            return sa.and_(t.c.id.not_in([1, 2]), t.c.id.not_in([]))
        if c == "in_subq":
            return t.c.id.in_(sa.select(u.c.t_id).where(u.c.z > 0))
        if c == "exists":
            return sa.exists().where(u.c.t_id == t.c.id)
        if c == "between":
            return t.c.id.between(1, 10)
        if c == "like":
            return sa.or_(T.c.s.like("a%") if tab is None else t.c.id > 0, t.c.id.is_not(None))
        if c == "ilike_esc":
            return sa.or_(T.c.s.ilike("a/%%", escape="/"), T.c.s.contains("x_y", autoescape=True), T.c.s.icontains("q"))
        if c == "tuple_in":
            return sa.tuple_(t.c.id, t.c.id).in_([(1, 2), (3, 4)])
        if c == "any":
            return sa.or_(t.c.id == sa.any_(sa.select(u.c.z).scalar_subquery()), t.c.id > sa.all_(sa.select(u.c.z).scalar_subquery()))
        if c == "regexp":
            return sa.or_(T.c.s.regexp_match("^a"), T.c.s.regexp_replace("a", "b") == "b")
        if c == "isdistinct":
            return sa.and_(t.c.id.is_distinct_from(3), t.c.id.is_not_distinct_from(None))
        if c == "null_cmp":
            return sa.and_(t.c.id == None, t.c.id != None, t.c.id.is_(sa.null()))  # noqa: E711
        if c == "bool_ops":
            return sa.or_(sa.and_(t.c.id > 1, sa.not_(t.c.id < 5)), sa.and_(), sa.false(), ~sa.or_(t.c.id == 1, t.c.id == 2))
        if c == "startswith_auto":
            return sa.and_(T.c.s.startswith("a%", autoescape=True), T.c.s.endswith(sa.bindparam("sfx"), escape="^"), T.c.s.istartswith("b"))
        if c == "in_expanding_tuple":
            return sa.and_(t.c.id.in_(sa.bindparam("ids", expanding=True)), sa.tuple_(t.c.id, t.c.id).in_(sa.bindparam("tups", expanding=True)))
        if c == "scalar_cmp":
            return t.c.id > sa.select(sa.func.avg(u.c.z)).scalar_subquery()
        if c == "true_false":
            return sa.and_(sa.true(), sa.or_(sa.false(), t.c.id == 1))
        if c == "correlated":
            return t.c.id == sa.select(sa.func.max(u.c.t_id)).where(u.c.z == t.c.id).correlate(t).scalar_subquery()
        raise KeyError(c)

    def _mod(self, d, s):
        sa, t = self.sa, self.t
        if d == "none":
            return s
        if d == "group":
            return s.group_by(t.c.x)
        if d == "having":
            return s.group_by(t.c.x).having(sa.func.count(t.c.id) > 1)
        if d == "order":
            return s.order_by(t.c.x.desc(), t.c.id)
        if d == "order_nulls":
            return s.order_by(t.c.x.desc().nulls_last(), t.c.y.asc().nulls_first())
        if d == "limit":
            return s.limit(5)
        if d == "offset":
            return s.order_by(t.c.id).offset(3)
        if d == "limit_offset":
            return s.order_by(t.c.id).limit(5).offset(2)
        if d == "limit_expr":
            return s.order_by(t.c.id).limit(sa.bindparam("lim", 5) + 1).offset(sa.literal_column("2"))
        if d == "fetch":
            return s.order_by(t.c.id).fetch(3).offset(1)
        if d == "fetch_ties":
            return s.order_by(t.c.id).fetch(3, with_ties=True)
        if d == "fetch_percent":
            return s.order_by(t.c.id).fetch(10, percent=True)
        if d == "distinct":
            return s.distinct()
        if d == "distinct_on":
            return s.distinct(t.c.x).order_by(t.c.x)
        if d == "for_update":
            return s.with_for_update()
        if d == "for_update_of":
            return s.with_for_update(of=t, nowait=True)
        if d == "for_update_skip":
            return s.with_for_update(skip_locked=True, key_share=True)
        if d == "for_share_nowait":
            return s.with_for_update(read=True, nowait=True, of=[t.c.id])
        if d == "hint":
            return s.with_hint(t, "USE INDEX (ix)", "mysql").with_hint(t, "WITH (NOLOCK)", "mssql").with_statement_hint("/* h */").prefix_with("SQL_NO_CACHE", dialect="mysql")
        if d == "prefix_suffix":
            return s.prefix_with("/* p */").suffix_with("/* s */")
        if d == "order_label":
            lab = (t.c.x + 1).label("xl")
            return s.add_columns(lab).order_by(lab, sa.desc("xl"), sa.text("1"))
        if d == "group_rollup":
            return s.group_by(sa.func.rollup(t.c.x, t.c.y))
        raise KeyError(d)

    def _wrap(self, e, s):
        sa, t, u = self.sa, self.t, self.u
        if e == "none":
            return s
        ncols = len(s.selected_columns) if hasattr(s, "selected_columns") else 2
        filler = sa.select(*[sa.literal(0).label("f%d" % i) for i in range(ncols)])
        if e == "union":
            return sa.union(s, filler)
        if e == "union_all_limit":
            return sa.union_all(s, filler).order_by(sa.text("1")).limit(3)
        if e == "intersect":
            return sa.intersect(s, filler)
        if e == "except":
            return sa.except_all(s, filler) if False else sa.except_(s, filler)
        if e == "subq_of":
            sq = s.subquery("w")
            return sa.select(sq).limit(2)
        if e == "cte_of":
            c = s.cte("wc")
            return sa.select(sa.func.count()).select_from(c)
        if e == "exists_of":
            return sa.select(sa.exists(s.with_only_columns(sa.literal(1))).label("e"))
        if e == "scalar_of":
            return sa.select(u.c.id, s.with_only_columns(sa.func.count()).scalar_subquery().label("cnt"))
        if e == "nested_union":
            return sa.union_all(s, sa.union(filler, filler))
        if e == "cte_nested":
            inner = s.cte("inner_c")
            outer = sa.select(sa.func.count().label("k")).select_from(inner).cte("outer_c", nesting=True)
            return sa.select(outer.c.k)
        if e == "alias_of_union":
            al = sa.union_all(s, filler).subquery("un")
            return sa.select(sa.func.count()).select_from(al)
        if e == "in_select_of":
            return sa.select(u.c.id).where(u.c.t_id.in_(s.with_only_columns(t.c.id)))
        raise KeyError(e)

    def _select(self, x):
        sa = self.sa
        cols = self._cols(x["a"], x["b"])
        s = sa.select(*cols)
        s = self._from(x["b"], cols)(s)
        crit = self._crit(x["c"])
        if crit is not None:
            s = s.where(crit)
        s = self._mod(x["d"], s)
        return self._wrap(x["e"], s)

    # ---------------------------------------------------------------------------------------------- DML
    def _ret(self, st, r, tab):
        sa = self.sa
        if r == "none":
            return st
        if r == "cols":
            return st.returning(tab.c.id, tab.c.x)
        if r == "star":
            return st.returning(tab)
        if r == "expr":
            return st.returning(tab.c.x + 1, sa.func.coalesce(tab.c.y, 0))
        if r == "label":
            return st.returning(tab.c.id.label("new_id"), (tab.c.x * 2).label("dbl"))
        raise KeyError(r)

    def _insert(self, x):
        sa, t, u = self.sa, self.t, self.u
        from sqlalchemy.dialects import mysql, postgresql, sqlite
        ups = x["c"]
        ctor = sa.insert
        if ups.startswith("pg_"):
            ctor = postgresql.insert
        elif ups.startswith("sl_"):
            ctor = sqlite.insert
        elif ups.startswith("my_"):
            ctor = mysql.insert
        st = ctor(t)
        a = x["a"]
        if a == "values":
            st = st.values(id=1, x=2, s="a")
        elif a == "multi":
            st = st.values([{"id": 1, "x": 2}, {"id": 2, "x": 3}])
        elif a == "from_select":
            st = st.from_select(["id", "x"], sa.select(u.c.id, u.c.z).where(u.c.z > 0))
        elif a == "defaults":
            st = st.values()
        elif a == "exprs":
            st = st.values(id=sa.func.coalesce(sa.select(sa.func.max(t.c.id)).scalar_subquery(), 0) + 1, x=sa.literal(2) * 3, s=sa.func.lower("A"),
                           ts=sa.func.now())
        elif a == "params_only":
            st = st.values(id=sa.bindparam("pid"), x=sa.bindparam("px", type_=sa.Integer))
        elif a == "from_select_cte":
            c = sa.select(u.c.id, u.c.z).cte("src")
            st = st.from_select(["id", "x"], sa.select(c.c.id, c.c.z))
        elif a == "from_union":
            st = st.from_select(["id", "x"], sa.union_all(sa.select(u.c.id, u.c.z), sa.select(sa.literal(9), sa.literal(9))))
        elif a == "sql_default_cols":
            st = ctor(self.v).values(id=1)
        else:
            raise KeyError(a)
        tab = self.v if a == "sql_default_cols" else t
        xcol = tab.c.x if tab is t else tab.c.w
        if ups == "pg_nothing":
            st = st.on_conflict_do_nothing()
        elif ups == "pg_update":
            st = st.on_conflict_do_update(index_elements=[tab.c.id], set_={xcol.name: st.excluded[xcol.name]})
        elif ups == "pg_update_where":
            st = st.on_conflict_do_update(index_elements=["id"], index_where=tab.c.id > 0, set_={xcol.name: 5}, where=xcol < 10)
        elif ups == "pg_constraint":
            st = st.on_conflict_do_update(constraint="pk_t", set_={xcol.name: 1})
        elif ups == "pg_excluded_expr":
            st = st.on_conflict_do_update(index_elements=["id"], set_={xcol.name: st.excluded[xcol.name] + xcol, "id": sa.func.abs(st.excluded.id)})
        elif ups == "sl_nothing":
            st = st.on_conflict_do_nothing(index_elements=["id"])
        elif ups == "sl_update":
            st = st.on_conflict_do_update(index_elements=[tab.c.id], set_={xcol.name: st.excluded[xcol.name]})
        elif ups == "sl_update_where":
            st = st.on_conflict_do_update(index_elements=["id"], index_where=tab.c.id > 0, set_={xcol.name: 5}, where=xcol < 10)
        elif ups == "my_dup":
            st = st.on_duplicate_key_update(**{xcol.name: 5})
        elif ups == "my_dup_expr":
            st = st.on_duplicate_key_update(**{xcol.name: st.inserted[xcol.name] + 1})
        elif ups != "none":
            raise KeyError(ups)
        if tab is t:
            st = self._ret(st, x["b"], t)
        elif x["b"] != "none":
            st = st.returning(tab.c.id, tab.c.w)
        d = x["d"]
        if d == "cte":
            c = sa.select(u.c.id).where(u.c.z > 1).cte("pre")
            st = st.add_cte(c)
        elif d == "prefix":
            st = st.prefix_with("OR REPLACE", dialect="sqlite").prefix_with("IGNORE", dialect="mysql")
        elif d == "hint":
            st = st.with_hint("WITH (PAGLOCK)", dialect_name="mssql")
        elif d == "inline":
            st = st.inline()
        elif d == "return_defaults":
            st = st.return_defaults() if x["b"] == "none" else st
        elif d == "sort_by_parameter_order":
            if x["b"] != "none":
                st = ctor(tab).values(id=1).returning(tab.c.id, sort_by_parameter_order=True)
        elif d != "none":
            raise KeyError(d)
        return st

    def _update(self, x):
        sa, t, u = self.sa, self.t, self.u
        st = sa.update(t)
        a = x["a"]
        if a == "values":
            st = st.values(x=5, s="q")
        elif a == "expr":
            st = st.values(x=t.c.x + 1, s=sa.func.upper(t.c.s), ts=sa.func.now())
        elif a == "subq":
            st = st.values(x=sa.select(sa.func.max(u.c.z)).where(u.c.t_id == t.c.id).scalar_subquery())
        elif a == "from_":
            st = st.values(x=u.c.z).where(u.c.t_id == t.c.id)
        elif a == "ordered":
            st = st.ordered_values((t.c.y, 1), (t.c.x, t.c.y + 1))
        elif a == "case":
            st = st.values(x=sa.case((t.c.y > 1, 1), else_=0))
        elif a == "self_ref":
            st = st.values({t.c.x: t.c.y, t.c.y: t.c.x})
        elif a == "tuple_bind":
            st = st.values(x=sa.bindparam("newx"), j={"a": [1, 2]}, b=True, n=1.5)
        elif a == "null_set":
            st = st.values(x=None, s=sa.null())
        else:
            raise KeyError(a)
        crit = self._crit(x["b"])
        if crit is not None:
            st = st.where(crit)
        st = self._ret(st, x["c"], t)
        d = x["d"]
        if d == "cte":
            c = sa.select(u.c.t_id).where(u.c.z > 1).cte("tgt")
            st = st.where(t.c.id.in_(sa.select(c.c.t_id)))
        elif d == "prefix":
            st = st.prefix_with("LOW_PRIORITY", dialect="mysql").prefix_with("/* all */")
        elif d == "hint":
            st = st.with_hint("WITH (PAGLOCK)", dialect_name="mssql")
        elif d == "limit_my":
            st = st.with_dialect_options(mysql_limit=5)
        elif d == "return_defaults":
            st = st.return_defaults() if x["c"] == "none" else st
        elif d == "from_cte":
            c = sa.select(u.c.t_id, u.c.z).cte("src")
            st = st.values(y=c.c.z).where(c.c.t_id == t.c.id)
        elif d != "none":
            raise KeyError(d)
        return st

    def _delete(self, x):
        sa, t, u = self.sa, self.t, self.u
        st = sa.delete(t)
        crit = self._crit(x["a"])
        if crit is not None:
            st = st.where(crit)
        st = self._ret(st, x["b"], t)
        d = x["c"]
        if d == "cte":
            c = sa.select(u.c.t_id).where(u.c.z > 1).cte("doomed")
            st = st.where(t.c.id.in_(sa.select(c.c.t_id)))
        elif d == "using":
            st = st.where(u.c.t_id == t.c.id).where(u.c.z > 3)
        elif d == "prefix":
            st = st.prefix_with("LOW_PRIORITY", dialect="mysql").prefix_with("/* all */")
        elif d == "hint":
            st = st.with_hint("WITH (PAGLOCK)", dialect_name="mssql")
        elif d == "limit_my":
            st = st.with_dialect_options(mysql_limit=5)
        elif d != "none":
            raise KeyError(d)
        return st

    # ---------------------------------------------------------------------------------------------- DDL
    def _ddl(self, x):
        sa = self.sa
        from sqlalchemy import schema as sch
        nm = x["d"]
        conv = {"ix": "ix_%(column_0_label)s", "uq": "uq_%(table_name)s_%(column_0_name)s", "ck": "ck_%(table_name)s_%(constraint_name)s",
                "fk": "fk_%(table_name)s_%(column_0_name)s_%(referred_table_name)s", "pk": "pk_%(table_name)s"}
        m = sa.MetaData(naming_convention=conv if nm == "convention" else None, schema="sch1" if nm in ("schema", "schema_translate") else None)
        long_ = "a_rather_long_identifier_name_that_goes_on_and_on_past_thirty_chars"

        def N(base):
            if nm == "quoted":
                return {"p": "Par ent", "c": "select", "g": 'we"ird'}.get(base, base.upper() + " x")
            if nm == "long_names":
                return base + "_" + long_
            return base
        g, feat = x["a"], x["b"]
        I = sa.Integer
        extra_cols, targs, tkw = [], [], {}
        if feat == "index":
            extra_cols = [sa.Column("ival", I, index=True)]
        elif feat == "unique":
            extra_cols = [sa.Column("uval", I, unique=True), sa.Column("u2", I)]
            targs = [sa.UniqueConstraint("uval", "u2", name=None if nm == "convention" else "uq_two")]
        elif feat == "check":
            extra_cols = [sa.Column("cval", I, sa.CheckConstraint("cval > 0", name="cval_pos"))]
            targs = [sa.CheckConstraint("cval < 100", name="ck_upper")]
        elif feat == "identity":
            extra_cols = [sa.Column("idn", I, sa.Identity(start=5, increment=2, always=True, cycle=True))]
        elif feat == "computed":
            extra_cols = [sa.Column("cv", I), sa.Column("cc", I, sa.Computed("cv * 2", persisted=True)), sa.Column("cd", I, sa.Computed("cv + 1"))]
        elif feat == "server_default":
            extra_cols = [sa.Column("sd1", I, server_default="5"), sa.Column("sd2", sa.String(10), server_default=sa.text("'x'")),
                          sa.Column("sd3", sa.DateTime, server_default=sa.func.now()), sa.Column("sd4", sa.Boolean, server_default=sa.true())]
        elif feat == "comment":
            extra_cols = [sa.Column("cm", I, comment="it's a column")]
            tkw = {"comment": "table's comment"}
        elif feat == "sequence":
            extra_cols = [sa.Column("sq", I, sa.Sequence(N("seq1"), start=3, increment=2, metadata=m))]
        elif feat in ("func_index", "partial_index"):
            extra_cols = [sa.Column("fv", sa.String(20)), sa.Column("fw", I)]
        elif feat == "types_wide":
            extra_cols = [sa.Column("c1", sa.Numeric(12, 4)), sa.Column("c2", sa.Float(53)), sa.Column("c3", sa.Text), sa.Column("c4", sa.LargeBinary),
                          sa.Column("c5", sa.Date), sa.Column("c6", sa.Time), sa.Column("c7", sa.DateTime(timezone=True)), sa.Column("c8", sa.Interval),
                          sa.Column("c9", sa.JSON), sa.Column("c10", sa.Uuid), sa.Column("c11", sa.BigInteger), sa.Column("c12", sa.SmallInteger),
                          sa.Column("c13", sa.Unicode(40)), sa.Column("c14", sa.UnicodeText), sa.Column("c15", sa.String), sa.Column("c16", sa.Double),
                          sa.Column("c17", sa.PickleType), sa.Column("c18", sa.ARRAY(sa.Integer))]
        elif feat == "enum_bool":
            extra_cols = [sa.Column("e1", sa.Enum("a", "b", "it's", name="en1")), sa.Column("e2", sa.Enum("x", "y", native_enum=False, create_constraint=True, name="en2")),
                          sa.Column("b1", sa.Boolean(create_constraint=True, name="b1ck")), sa.Column("e3", sa.Enum("p", "q", name="en3", length=20, native_enum=False))]
        elif feat == "autoinc_false":
            pass
        elif feat == "temp_prefix":
            tkw = {"prefixes": ["TEMPORARY"]}
        elif feat == "dialect_kw":
            tkw = {"mysql_engine": "InnoDB", "mysql_charset": "utf8mb4", "sqlite_autoincrement": True, "postgresql_with_oids": False,
                   "mssql_clustered": None} if False else {"mysql_engine": "InnoDB", "mysql_charset": "utf8mb4", "sqlite_autoincrement": True}
        pk = sa.Column("id", I, primary_key=True, autoincrement=False) if feat == "autoinc_false" else sa.Column("id", I, primary_key=True)
        if feat == "composite_pk":
            pcols = [sa.Column("id", I, primary_key=True), sa.Column("id2", I, primary_key=True)]
        else:
            pcols = [pk]
        tabs = []
        P = sa.Table(N("p"), m, *(pcols + extra_cols + targs), **tkw)
        tabs.append(P)
        pid = P.c.id
        if feat in ("func_index", "partial_index"):
            if feat == "func_index":
                sa.Index(N("ix_fn"), sa.func.lower(P.c.fv), P.c.fw.desc())
            else:
                sa.Index(N("ix_part"), P.c.fw, postgresql_where=P.c.fw > 0, sqlite_where=P.c.fw > 0, mssql_where=P.c.fw > 0, unique=True)
        fkname = None if nm == "convention" else "fk_c_p"
        if g == "fk":
            tabs.append(sa.Table(N("c"), m, sa.Column("id", I, primary_key=True), sa.Column("p_id", I, sa.ForeignKey(pid, name=fkname))))
        elif g == "selfref":
            P.append_column(sa.Column("parent_id", I, sa.ForeignKey(pid, name=None if nm == "convention" else "fk_self")))
        elif g == "cycle":
            C = sa.Table(N("c"), m, sa.Column("id", I, primary_key=True), sa.Column("p_id", I, sa.ForeignKey(pid, name=fkname)))
            P.append_column(sa.Column("c_id", I, sa.ForeignKey(C.c.id, name="fk_p_c", use_alter=True)))
            tabs.append(C)
        elif g == "composite_fk":
            Q = sa.Table(N("q"), m, sa.Column("a", I, primary_key=True), sa.Column("b", I, primary_key=True))
            tabs.append(Q)
            tabs.append(sa.Table(N("c"), m, sa.Column("id", I, primary_key=True), sa.Column("qa", I), sa.Column("qb", I),
                                 sa.ForeignKeyConstraint(["qa", "qb"], [Q.c.a, Q.c.b], name=None if nm == "convention" else "fk_c_q")))
        elif g == "chain3":
            C = sa.Table(N("c"), m, sa.Column("id", I, primary_key=True), sa.Column("p_id", I, sa.ForeignKey(pid, name=fkname)))
            G = sa.Table(N("g"), m, sa.Column("id", I, primary_key=True), sa.Column("c_id", I, sa.ForeignKey(C.c.id, name=None if nm == "convention" else "fk_g_c")))
            tabs += [C, G]
        elif g == "fk_ondelete":
            tabs.append(sa.Table(N("c"), m, sa.Column("id", I, primary_key=True),
                                 sa.Column("p_id", I, sa.ForeignKey(pid, name=fkname, ondelete="CASCADE", onupdate="SET NULL"))))
        elif g == "fk_deferrable":
            tabs.append(sa.Table(N("c"), m, sa.Column("id", I, primary_key=True),
                                 sa.Column("p_id", I, sa.ForeignKey(pid, name=fkname, deferrable=True, initially="DEFERRED", match="FULL"))))
        elif g == "m2m":
            C = sa.Table(N("c"), m, sa.Column("id", I, primary_key=True))
            tabs += [C, sa.Table(N("pc"), m, sa.Column("p_id", I, sa.ForeignKey(pid, name=None if nm == "convention" else "fk_pc_p"), primary_key=True),
                                 sa.Column("c_id", I, sa.ForeignKey(C.c.id, name=None if nm == "convention" else "fk_pc_c"), primary_key=True))]
        elif g != "single":
            raise KeyError(g)
        op = x["c"]
        out = []
        if op == "create_table":
            out = [("CreateTable(%s)" % tb.name, sch.CreateTable(tb)) for tb in tabs]
        elif op == "drop_table":
            out = [("DropTable(%s)" % tb.name, sch.DropTable(tb)) for tb in tabs]
        elif op == "create_if_not_exists":
            out = [("CreateTable(%s, if_not_exists)" % tb.name, sch.CreateTable(tb, if_not_exists=True)) for tb in tabs]
        elif op == "drop_if_exists":
            out = [("DropTable(%s, if_exists)" % tb.name, sch.DropTable(tb, if_exists=True)) for tb in tabs]
        elif op in ("create_all", "drop_all"):
            out = [(op, ("metadata", m, op))]
        elif op in ("create_index", "drop_index"):
            for tb in tabs:
                for ix in sorted(tb.indexes, key=lambda i: str(i.name)):
                    out.append(("%s(%s)" % (op, ix.name), sch.CreateIndex(ix) if op == "create_index" else sch.DropIndex(ix)))
        elif op in ("add_constraint", "drop_constraint"):
            for tb in tabs:
                for cons in sorted(tb.constraints, key=lambda c: (type(c).__name__, str(c.name))):
                    if isinstance(cons, sa.PrimaryKeyConstraint):
                        continue
                    out.append(("%s(%s %s)" % (op, type(cons).__name__, cons.name),
                                sch.AddConstraint(cons) if op == "add_constraint" else sch.DropConstraint(cons, cascade=True)))
        elif op == "create_sequence":
            for sq in m._sequences.values():
                out += [("CreateSequence", sch.CreateSequence(sq)), ("DropSequence", sch.DropSequence(sq, if_exists=True))]
        elif op == "set_comment":
            out = [("SetTableComment", sch.SetTableComment(P)), ("DropTableComment", sch.DropTableComment(P)),
                   ("SetColumnComment", sch.SetColumnComment(P.c.cm)), ("DropColumnComment", sch.DropColumnComment(P.c.cm))]
        else:
            raise KeyError(op)
        return out

    # ---------------------------------------------------------------------------------------------- CTE family
    def _cte(self, x):
        """[cte, kind, site, reuse, second, outer]: ONE cte object referenced from one / two sibling scopes"""
        sa, t, u = self.sa, self.t, self.u
        kind, site, reuse, second, outer = x["a"], x["b"], x["c"], x["d"], x["e"]
        sites_all = ["from", "scalar", "exists", "derived", "union_arm"]
        base_q = sa.select(t.c.id, t.c.x).where(t.c.x > 5)
        if kind == "plain" or kind == "nest_here":
            c = base_q.cte("n")
        elif kind == "recursive":
            c = base_q.cte("n", recursive=True)
            c = c.union_all(sa.select(t.c.id, t.c.x).join(c, t.c.x == c.c.id))
        elif kind == "nesting":
            c = base_q.cte("n", nesting=True)
        else:
            raise KeyError(kind)
        sites = [site]
        if reuse == "two":
            nxt = sites_all[(sites_all.index(site) + 1) % len(sites_all)]
            if outer != "select":
                nxt = {"from": "scalar", "scalar": "exists", "exists": "from"}[site]
            sites.append(site if second == "same" else nxt)
        dml = outer != "select"
        cols, froms, crit, arms = [], [], [], []

        def scope(i):
            si = sa.select(c.c.id).where(c.c.x < 10 * (i + 1))
            if kind == "nest_here":
                si = si.add_cte(c, nest_here=True)
            return si
        nfrom = 0
        for i, st in enumerate(sites):
            if st == "from":
                tgt = c if nfrom == 0 else c.alias("n_again")
                nfrom += 1
                froms.append(tgt)
                if dml:
                    crit.append(tgt.c.x > i)
                else:
                    cols.append(tgt.c.x.label("fx%d" % i))
            elif st == "scalar":
                sc = scope(i).scalar_subquery()
                if dml:
                    crit.append(t.c.x > sc)
                else:
                    cols.append(sc.label("sc%d" % i))
            elif st == "exists":
                crit.append(scope(i).where(c.c.id == t.c.id).exists())
            elif st == "derived":
                dq = scope(i).subquery("d%d" % i)
                froms.append(dq)
                cols.append(dq.c.id.label("dv%d" % i))
            elif st == "union_arm":
                arms.append(scope(i))
            else:
                raise KeyError(st)
        body = sa.select(t.c.id, *cols).select_from(t)
        for f in froms:
            body = body.join(f, sa.true())
        if crit:
            body = body.where(*crit)
        if kind == "nest_here" and "from" in sites:
            body = body.add_cte(c, nest_here=True)
        if arms:
            content = bool(cols or froms or crit)
            stmt = sa.union_all(*(([body] if content else []) + arms + ([] if content or len(arms) > 1 else [sa.select(t.c.id)])))
        else:
            stmt = body
        if outer == "select":
            return stmt
        if outer == "insert_from":
            return sa.insert(u).from_select(["id"], stmt)
        if outer == "update_where":
            return sa.update(u).values(z=5).where(u.c.t_id.in_(stmt))
        if outer == "delete_where":
            return sa.delete(u).where(u.c.t_id.in_(stmt))
        raise KeyError(outer)

    def build(self, x):
        k = x["k"]
        if k == "cte":
            return [("cte", self._cte(x))]
        if k == "select":
            return [("select", self._select(x))]
        if k == "insert":
            return [("insert", self._insert(x))]
        if k == "update":
            return [("update", self._update(x))]
        if k == "delete":
            return [("delete", self._delete(x))]
        if k == "ddl":
            return self._ddl(x)
        raise KeyError(k)


def dialect_variants():
    """-> list of (name, base dialect name, factory)"""
    from sqlalchemy.dialects import mssql, mysql, oracle, postgresql, sqlite
    from sqlalchemy.dialects.mysql import mariadb as _mariadb
    from sqlalchemy.dialects.postgresql import asyncpg as _asyncpg

    def ver(factory, **attrs):
        def make():
            d = factory()
            for k, v in attrs.items():
                setattr(d, k, v)
            return d
        return make

    def mssql_old():
        d = mssql.dialect()
        d.server_version_info = (10, 0)
        d._supports_offset_fetch = False
        return d

    def oracle_old():
        d = oracle.dialect()
        d.server_version_info = (11, 2)
        d._supports_offset_fetch = False
        d.use_ansi = True
        return d

    return [("sqlite", "sqlite", sqlite.dialect), ("sqlite_numeric", "sqlite", lambda: sqlite.dialect(paramstyle="numeric")),
            ("postgresql", "postgresql", postgresql.dialect), ("postgresql_asyncpg", "postgresql", _asyncpg.dialect),
            ("postgresql_9", "postgresql", ver(postgresql.dialect, server_version_info=(9, 2))),
            ("mysql", "mysql", mysql.dialect), ("mysql_56", "mysql", ver(mysql.dialect, server_version_info=(5, 6, 40))),
            ("mysql_8", "mysql", ver(mysql.dialect, server_version_info=(8, 0, 30))),
            ("mariadb", "mariadb", _mariadb.MariaDBDialect),
            ("mariadb_10_6", "mariadb", ver(_mariadb.MariaDBDialect, server_version_info=(10, 6, 5))),
            ("mssql", "mssql", mssql.dialect), ("mssql_2008", "mssql", mssql_old),
            ("mssql_2019", "mssql", ver(mssql.dialect, server_version_info=(15, 0), _supports_offset_fetch=True)),
            ("oracle", "oracle", oracle.dialect), ("oracle_11", "oracle", oracle_old),
            ("oracle_noansi", "oracle", lambda: oracle.dialect(use_ansi=False))]


COMPILE_VARIANTS = [("plain", {}, {}), ("literal_binds", {"compile_kwargs": {"literal_binds": True}}, {}),
                    ("render_postcompile", {"compile_kwargs": {"render_postcompile": True}}, {}),
                    ("schema_translate", {"schema_translate_map": {None: "tr", "sch1": "tr2"}}, {}),
                    ("schema_translate_render", {"schema_translate_map": {None: "tr", "sch1": "tr2"}, "compile_kwargs": {"render_schema_translate": True}}, {})]

# sqlalchemy.exc.IdentifierError ("identifier exceeds maximum length") is the documented error of the same family for names that
# cannot be rendered on a dialect; it is accepted like the four classes the property lists
DOCUMENTED = ("CompileError", "UnsupportedCompilationError", "ArgumentError", "InvalidRequestError", "NotImplementedError", "IdentifierError")


def compile_everywhere(builder, x, dialects, variants):
    """-> (ncompiled, nraised_documented, [(sig, text)] for undocumented exception classes, constructor_error or None)"""
    import traceback
    from sqlalchemy import exc
    from sqlalchemy.engine.mock import MockConnection
    try:
        with warnings.catch_warnings():
            warnings.simplefilter("ignore")
            items = builder.build(x)
    except (exc.ArgumentError, exc.InvalidRequestError, exc.CompileError, NotImplementedError) as e:
        return 0, 0, [], "%s: %s" % (type(e).__name__, str(e)[:160])
    n = doc = 0
    bad = []
    for dname, base, dialect in dialects:
        for vname, kw, _ in variants:
            for label, item in items:
                n += 1
                try:
                    with warnings.catch_warnings():
                        warnings.simplefilter("ignore")
                        if isinstance(item, tuple):
                            _, meta, op = item
                            if "compile_kwargs" in kw:
                                continue            # create_all has no compile flags
                            stmts = []
                            ckw = {"schema_translate_map": kw["schema_translate_map"]} if "schema_translate_map" in kw else {}
                            eng = MockConnection(dialect, lambda sql, *a, **k: stmts.append(str(sql.compile(dialect=dialect, **ckw))))
                            getattr(meta, op)(eng, checkfirst=False)
                        else:
                            str(item.compile(dialect=dialect, **kw))
                except (exc.CompileError, exc.ArgumentError, exc.InvalidRequestError, exc.IdentifierError, NotImplementedError):
                    doc += 1
                except Exception as e:
                    tb = traceback.extract_tb(e.__traceback__)
                    fr = [f for f in tb if "/sqlalchemy/" in f.filename]
                    where = "%s:%s" % (fr[-1].filename.split("/sqlalchemy/")[-1], fr[-1].name) if fr else "?"
                    sig = {"spec": "ConstructGrammar", "action": "compile", "exc": type(e).__name__, "dialect": base, "dialect_variant": dname,
                           "compile_variant": vname, "kind": x["k"], "where": where,
                           "derivation": "|".join(x[f] for f in "kabcde"), "element": label}
                    bad.append((sig, "%s on %s/%s, %s [%s]: %s: %s (raised in %s)" % (
                        label, dname, vname, x["k"], sig["derivation"], type(e).__name__, str(e)[:200], where)))
    return n, doc, bad, None
