"""Shared by checks/c11.py, c09.py, c22.py (package StmtShapes: RowLookup.tla, TypePipeline.tla, ConstructGrammar.tla).

Section C11: builds the real statement for one RowLookup case (select list over tables a / b with colliding names, label
style, label_length, wrapper, textual mode), executes it on SQLite and reports the outcome of every lookup key the
specification lists.  Nothing here decides anything: outcomes are compared with the specification's by checks/c11.py.
"""
import warnings

# ------------------------------------------------------------------------------------------------ C11
# expression values: every expression that can appear in a select list has its own value
VAL = {"aid": 11, "ax": 12, "al": 13, "ak": 14, "bid": 21, "bx": 22, "by": 23, "bk": 24, "sum": 34, "anon": 35, "lit": 7}
ITEM_EXPR = {"Lax_lx": "ax", "Lbx_x": "bx", "Lby_a_x": "by", "Lsum": "sum", "Laid_k": "aid", "txt": "aid"}
# second branch of the UNION ALL wrapper: value + 100
UNION_OFF = 100


class RowLookupWorld:
    """tables, engines (one per label_length) and statement construction"""

    def __init__(self, workdir=None):
        import sqlalchemy as sa
        self.sa = sa
        self.m = sa.MetaData()
        I = sa.Integer
        self.a = sa.Table("a", self.m, sa.Column("id", I), sa.Column("x", I), sa.Column("longcolname", I), sa.Column("p", I, key="k"))
        self.b = sa.Table("b", self.m, sa.Column("id", I), sa.Column("x", I), sa.Column("y", I), sa.Column("r", I, key="k"))
        a, b = self.a, self.b
        self.cols = {"aid": a.c.id, "ax": a.c.x, "al": a.c.longcolname, "ak": a.c.k,
                     "bid": b.c.id, "bx": b.c.x, "by": b.c.y, "bk": b.c.k}
        self.engines = {}

    def engine(self, ll):
        if ll not in self.engines:
            from sqlalchemy.pool import StaticPool
            sa = self.sa
            e = sa.create_engine("sqlite://", label_length=ll or None, poolclass=StaticPool)
            self.m.create_all(e)
            with e.begin() as c:
                c.execute(self.a.insert().values(id=11, x=12, longcolname=13, k=14))
                c.execute(self.b.insert().values(id=21, x=22, y=23, k=24))
            self.engines[ll] = e
        return self.engines[ll]

    def dispose(self):
        for e in self.engines.values():
            e.dispose()
        self.engines = {}

    # -------------------------------------------------------------------------------------------- construction
    def build_item(self, it):
        sa, a, b = self.sa, self.a, self.b
        if it in self.cols:
            return self.cols[it]
        if it == "Lax_lx":
            return a.c.x.label("lx")
        if it == "Lbx_x":
            return b.c.x.label("x")
        if it == "Lby_a_x":
            return b.c.y.label("a_x")
        if it == "Laid_k":
            return a.c.id.label("k")
        if it == "Lsum":
            return (a.c.x + b.c.x).label("longlabelname")
        if it == "anon":
            return a.c.x + b.c.y
        if it == "lit":
            return sa.literal_column("7")
        if it == "txt":
            return sa.text("a.id")
        raise KeyError(it)

    def build(self, case):
        """-> (statement, objmap: object id -> object, posobjs: the object selected at each position)"""
        sa = self.sa
        from sqlalchemy.sql import selectable as sel
        styles = {"none": sel.LABEL_STYLE_NONE, "tpc": sel.LABEL_STYLE_TABLENAME_PLUS_COL, "dis": sel.LABEL_STYLE_DISAMBIGUATE_ONLY}
        items = case["items"]
        om = {}
        for it in items:
            if it not in om:
                om[it] = self.build_item(it)         # the same item twice = the same object twice
        for n, c in self.cols.items():
            om.setdefault(n, c)
        inner = sa.select(*[om[i] for i in items]).select_from(self.a).join(self.b, sa.true()).set_label_style(styles[case["style"]])
        posobjs = [om[i] for i in items]
        wrap, mode = case["wrap"], case["mode"]
        stmt = inner
        if wrap in ("subq", "cte"):
            sq = inner.subquery("sq") if wrap == "subq" else inner.cte("sq")
            stmt = sa.select(sq)
            posobjs = list(sq.c)
            for it, c in zip(items, posobjs):
                om["sq." + it] = c
        elif wrap == "union":
            second = sa.select(*[sa.literal_column(str(VAL[ITEM_EXPR.get(i, i)] + UNION_OFF)) for i in items])
            stmt = sa.union_all(inner, second)
        if mode != "pos":
            # the comment keeps statements of different cases apart in the compiled cache (equal SQL text can arise from two label
            # styles; TextualSelect.positional is not part of the cache key)
            e = self.engine(case["ll"])
            sql = str(stmt.compile(e, compile_kwargs={"literal_binds": True})) + " /* %s %s %s */" % (mode, case["style"], case["wrap"])
            if mode == "text":
                stmt = sa.text(sql)
            elif mode == "tpos":
                stmt = sa.text(sql).columns(*posobjs)
            elif mode == "tname":
                stmt = sel.TextualSelect(sa.text(sql), posobjs, positional=False)
            else:
                raise KeyError(mode)
        return stmt, om, posobjs

    # -------------------------------------------------------------------------------------------- observation
    @staticmethod
    def outcome(fn):
        from sqlalchemy import exc
        try:
            return ("val", fn())
        except exc.NoSuchColumnError:
            return ("NoSuch", None)
        except exc.InvalidRequestError as e:
            if "Ambiguous column name" in str(e):
                return ("Amb", None)
            return ("exc", "InvalidRequestError: %s" % e)
        except AttributeError as e:
            # Row.__getattr__ turns a missing key into AttributeError
            return ("NoSuch", None)
        except Exception as e:            # anything else is reported as it is
            return ("exc", "%s: %s" % (type(e).__name__, e))

    def observe(self, case):
        """run the case twice (second run: freshly built equal statement, served from the compiled cache) and return
        dict(exec_error, keys, rows, str{key:[o1,o2]}, attr{key:o}, obj{id:o}, pos[o..], fresh[o..], cint[o..], cols_ok)"""
        from sqlalchemy import exc
        eng = self.engine(case["ll"])
        out = {"runs": []}
        with warnings.catch_warnings():
            warnings.simplefilter("ignore")
            for run in (0, 1):
                stmt, om, posobjs = self.build(case)
                with eng.connect() as conn:
                    try:
                        res = conn.execute(stmt)
                    except exc.InvalidRequestError as e:
                        out["runs"].append({"exec_error": "InvalidRequestError", "msg": str(e)})
                        continue
                    r = {"exec_error": None, "keys": list(res.keys())}
                    rows = res.all()
                    r["rows"] = [list(x) for x in rows]
                    row = rows[0]
                    r["str"] = {k: self.outcome(lambda: row._mapping[k]) for k in case["strkeys"]}
                    r["attr"] = {k: self.outcome(lambda: getattr(row, k)) for k in case["strkeys"] if k.isidentifier() and not k.startswith("_")}
                    r["obj"] = {k: self.outcome(lambda: row._mapping[om[k]]) for k in case["objkeys"] if k in om}
                    r["posobj"] = [self.outcome(lambda: row._mapping[o]) for o in posobjs]
                    r["rows_posobj"] = [[self.outcome(lambda: x._mapping[o]) for o in posobjs] for x in rows]
                    # Result.columns(): every non-raising key at once, and integer positions one by one
                    cint = []
                    for i in range(len(posobjs)):
                        res2 = conn.execute(stmt)
                        cint.append(self.outcome(lambda: res2.columns(i).all()[0][0]))
                        res2.close()
                    r["cint"] = cint
                    good = [k for k in case["strkeys"] if r["str"][k][0] == "val"]
                    goodo = [k for k in r["obj"] if r["obj"][k][0] == "val"]
                    res3 = conn.execute(stmt)
                    r["columns"] = self.outcome(lambda: list(res3.columns(*(good + [om[k] for k in goodo])).all()[0]))
                    res3.close()
                    r["columns_expect"] = [r["str"][k][1] for k in good] + [r["obj"][k][1] for k in goodo]
                    res4 = conn.execute(stmt)
                    r["mappings"] = self.outcome(lambda: [dict(x) for x in res4.mappings().all()])
                    res4.close()
                out["runs"].append(r)
        return out


def _j(chars):
    return "".join(chars)


def rowlookup_prepare(c):
    """TLC case (names as character lists) -> case for RowLookupWorld.observe + expectation tables"""
    case = dict(items=list(c["items"]), style=c["style"], ll=c["ll"], mode=c["mode"], wrap=c["wrap"], execError=c["execError"])
    if c["execError"]:
        case.update(strkeys=[], objkeys=[])
        return case
    case["keys"] = [_j(k) for k in c["keys"]]
    case["str"] = {_j(e["k"]): (e["o"], e["l"]) for e in c["str"]}
    case["obj"] = {e["k"]: (e["o"], e["l"]) for e in c["obj"]}
    case["strkeys"] = sorted(case["str"])
    case["objkeys"] = sorted(case["obj"])
    case["fresh"] = [(e["o"], e["l"]) for e in c["fresh"]]
    case["cint"] = [(e["o"], e["l"]) for e in c["cint"]]
    case["exprs"] = list(c["exprs"])
    case["posids"] = list(c["posids"])
    case["finding"] = c["finding"]
    case["differs"] = c["differs"]
    case["strategy"] = c["strategy"]
    return case


AMB, NOSUCH, UNSPEC = -1, -2, -3


def rowlookup_compare(case, obs):
    """-> list of (kind, detail) mismatches; kind 'legacy' = the real code answers like the pinned mechanism where the repaired one
    differs (a finding of class case['finding']), anything else is an unexplained disagreement"""
    out = []
    if case["execError"]:
        for ri, r in enumerate(obs["runs"]):
            if not r["exec_error"]:
                out.append(("other", "run%d: executed, specification expects InvalidRequestError (duplicate column expression in textual SQL)" % ri))
        return out
    vals = [VAL[e] for e in case["exprs"]]

    def exp(o):
        return ("val", vals[o]) if o >= 0 else ("Amb", None) if o == AMB else ("NoSuch", None)

    def cmp(what, real, pair):
        o, l = pair
        if o == UNSPEC:
            return
        if real == exp(o):
            return
        if l != UNSPEC and o != l and real == exp(l):
            out.append(("legacy", "%s: real %r = pinned mechanism %r, repaired mechanism %r" % (what, real, exp(l), exp(o))))
        else:
            out.append(("other", "%s: real %r, specification %r (pinned %r)" % (what, real, exp(o), exp(l) if l != UNSPEC else None)))

    for ri, r in enumerate(obs["runs"]):
        if r["exec_error"]:
            out.append(("other", "run%d: %s %s" % (ri, r["exec_error"], r.get("msg", "")[:200])))
            continue
        if r["rows"][0] != vals:
            out.append(("other", "run%d: row[i] cells %r, expressions evaluate to %r" % (ri, r["rows"][0], vals)))
        if case["wrap"] == "union" and (len(r["rows"]) != 2 or r["rows"][1] != [v + UNION_OFF for v in vals]):
            out.append(("other", "run%d: union rows %r" % (ri, r["rows"])))
        if r["keys"] != case["keys"]:
            out.append(("other", "run%d: Result.keys() %r, specification %r" % (ri, r["keys"], case["keys"])))
        for k in case["strkeys"]:
            cmp("run%d row._mapping[%r]" % (ri, k), r["str"][k], case["str"][k])
            if k in r["attr"]:
                cmp("run%d row.%s" % (ri, k), r["attr"][k], case["str"][k])
        for k in r["obj"]:
            if ri == 1 and k in case["posids"]:
                continue            # the second run's selected objects follow the Fresh rule below
            cmp("run%d row._mapping[<%s>]" % (ri, k), r["obj"][k], case["obj"][k])
        for i, o in enumerate(r["posobj"]):
            if ri == 0:
                cmp("run0 row._mapping[<selected %d %s>]" % (i, case["posids"][i]), o, case["obj"][case["posids"][i]])
            else:
                cmp("run1(cached) row._mapping[<selected %d %s>]" % (i, case["posids"][i]), o, case["fresh"][i])
        if case["wrap"] == "union":
            for i, o in enumerate(r["rows_posobj"][1]):
                if o[0] == "val" and r["posobj"][i][0] == "val" and o[1] != r["posobj"][i][1] + UNION_OFF:
                    out.append(("other", "run%d union second row, selected %d: %r vs first row %r" % (ri, i, o, r["posobj"][i])))
        for i, o in enumerate(r["cint"]):
            cmp("run%d Result.columns(%d)" % (ri, i), o, case["cint"][i])
        if r["columns_expect"] and r["columns"] != ("val", r["columns_expect"]):
            out.append(("other", "run%d Result.columns(*keys) %r, single lookups %r" % (ri, r["columns"], r["columns_expect"])))
        if len(set(case["keys"])) == len(case["keys"]) and all(case["str"][k][0] >= 0 for k in case["keys"]):
            # every result key is unambiguous: the mapping view is the dictionary key -> cell
            if r["mappings"] != ("val", [dict(zip(case["keys"], x)) for x in r["rows"]]):
                out.append(("other", "run%d mappings() %r" % (ri, r["mappings"])))
    return out


# ------------------------------------------------------------------------------------------------ C09 (clause 2)
class TypePipelineWorld:
    """Counting types on real SQLite.  Every processing stage appends its tag to the (string) value and records
    (tag, token) in self.log, so the loaded value IS the pipeline the value went through and the log counts the calls."""

    TOKENS = ("v1", "v2", "v3")

    def __init__(self):
        import sqlalchemy as sa
        from sqlalchemy import event
        from sqlalchemy.pool import StaticPool
        self.sa = sa
        self.log = []
        self.types = self._make_types()
        self.engine = sa.create_engine("sqlite://", poolclass=StaticPool)

        @event.listens_for(self.engine, "connect")
        def _fn(dbapi_con, rec):
            dbapi_con.create_function("tagbe", 1, lambda v: None if v is None else v + "|BE")
            dbapi_con.create_function("tagce", 1, lambda v: None if v is None else v + "|CE")

        self.meta = sa.MetaData()
        self.tables, self.dtables, self.ctables, self.classes = {}, {}, {}, {}
        from sqlalchemy.orm import registry
        reg = registry()
        for name, ty in self.types.items():
            t = sa.Table("t_" + name, self.meta, sa.Column("id", sa.Integer, primary_key=True), sa.Column("c", ty))
            self.tables[name] = t
            self.dtables[name] = sa.Table("d_" + name, self.meta, sa.Column("id", sa.Integer, primary_key=True),
                                          sa.Column("c", ty, default="v1"))
            self.ctables[name] = sa.Table("c_" + name, self.meta, sa.Column("id", sa.Integer, primary_key=True),
                                          sa.Column("c", ty, default=lambda: "v1"))
            cls = type("O_" + name, (object,), {})
            reg.map_imperatively(cls, t)
            self.classes[name] = cls
        self.meta.create_all(self.engine)

    @staticmethod
    def tok(v):
        return v.split("|")[0] if isinstance(v, str) else v

    def _make_types(self):
        sa = self.sa
        from sqlalchemy.types import TypeDecorator, UserDefinedType
        log = self.log
        tok = self.tok

        class P(UserDefinedType):
            cache_ok = True

            def get_col_spec(self, **kw):
                return "VARCHAR"

            def bind_processor(self, dialect):
                def process(v):
                    if v is None:
                        return None
                    log.append(("b:P", tok(v)))
                    return v + "|b:P"
                return process

            def result_processor(self, dialect, coltype):
                def process(v):
                    if v is None:
                        return None
                    log.append(("r:P", tok(v)))
                    return v + "|r:P"
                return process

            def literal_processor(self, dialect):
                def process(v):
                    log.append(("l:P", tok(v)))
                    return "'%s|l:P'" % v
                return process

        class XP(P):
            def bind_expression(self, bindvalue):
                return sa.func.tagbe(bindvalue, type_=self)

            def column_expression(self, col):
                return sa.func.tagce(col, type_=self)

        def dec(name, impl_, sqlx=False):
            class D(TypeDecorator):
                impl = impl_
                cache_ok = True

                def process_bind_param(self, value, dialect):
                    if value is None:
                        return None
                    log.append(("b:" + name, tok(value)))
                    return value + "|b:" + name

                def process_literal_param(self, value, dialect):
                    if value is None:
                        return None
                    log.append(("l:" + name, tok(value)))
                    return value + "|l:" + name

                def process_result_value(self, value, dialect):
                    if value is None:
                        return None
                    log.append(("r:" + name, tok(value)))
                    return value + "|r:" + name

                if sqlx:
                    def bind_expression(self, bindvalue):
                        return sa.func.tagbe(bindvalue, type_=self)

                    def column_expression(self, col):
                        return sa.func.tagce(col, type_=self)
            D.__name__ = name + ("X" if sqlx else "") + "_over_" + getattr(impl_, "__name__", "t")
            return D

        D1S = dec("D1", sa.String)
        D1P = dec("D1", P)
        return {"D1S": D1S(), "D2D1S": dec("D2", D1S)(), "D1P": D1P(), "D2D1P": dec("D2", D1P)(), "P": P(),
                "X1S": dec("D1", sa.String, True)(), "X2D1P": dec("D2", D1P, True)(), "D1XP": dec("D1", XP)()}

    # ---------------------------------------------------------------------------------------------- one case
    def run(self, t, w, r):
        """-> dict(tokens: {token: dict(stored, loaded, wev, rev)}, sql=..., compile_only=bool) ; raises on machinery problems"""
        sa = self.sa
        from sqlalchemy.orm import Session, aliased
        tab = self.tables[t]
        cls = self.classes[t]
        log = self.log
        out = {}
        with warnings.catch_warnings():
            warnings.simplefilter("ignore")
            with self.engine.begin() as conn:
                for tb in (tab, self.dtables[t], self.ctables[t]):
                    conn.execute(tb.delete())
            del log[:]
            # ------------------------------------------------------------------ write
            wtab = tab
            toks = ["v1"]
            combined = None            # RETURNING rows of a statement that writes and reads at once
            with self.engine.begin() as conn:
                if r in ("ret_insert", "ret_many"):
                    if r == "ret_insert":
                        st = tab.insert().returning(tab.c.c)
                        combined = conn.execute(st.values(id=1, c="v1")).all() if w == "values" else conn.execute(st, {"id": 1, "c": "v1"}).all()
                    else:
                        toks = ["v1", "v2"]
                        combined = conn.execute(tab.insert().returning(tab.c.c), [{"id": 1, "c": "v1"}, {"id": 2, "c": "v2"}]).all()
                elif w == "values":
                    conn.execute(tab.insert().values(id=1, c="v1"))
                elif w == "params":
                    conn.execute(tab.insert(), {"id": 1, "c": "v1"})
                elif w == "many":
                    toks = ["v1", "v2"]
                    conn.execute(tab.insert(), [{"id": 1, "c": "v1"}, {"id": 2, "c": "v2"}])
                elif w == "many_ret":
                    toks = ["v1", "v2"]
                    conn.execute(tab.insert().returning(tab.c.id), [{"id": 1, "c": "v1"}, {"id": 2, "c": "v2"}]).all()
                elif w == "literal":
                    sql = str(tab.insert().values(id=1, c="v1").compile(self.engine, compile_kwargs={"literal_binds": True}))
                    conn.exec_driver_sql(sql)
                elif w == "default":
                    wtab = self.dtables[t]
                    conn.execute(wtab.insert().values(id=1))
                elif w == "callable_default":
                    wtab = self.ctables[t]
                    conn.execute(wtab.insert(), [{"id": 1}])
                elif w == "update":
                    conn.exec_driver_sql("insert into %s (id, c) values (1, 'old')" % tab.name)
                    conn.execute(tab.update().where(tab.c.id == 1).values(c="v1"))
                elif w in ("orm_add", "orm_update", "orm_bulk"):
                    pass
                else:
                    raise KeyError(w)
            if w in ("orm_add", "orm_update", "orm_bulk"):
                with Session(self.engine) as s:
                    if w == "orm_add":
                        o = cls()
                        o.id, o.c = 1, "v1"
                        s.add(o)
                        s.commit()
                    elif w == "orm_update":
                        s.connection().exec_driver_sql("insert into %s (id, c) values (1, 'old')" % tab.name)
                        o = s.get(cls, 1)
                        del log[:]
                        o.c = "v1"
                        s.commit()
                    else:
                        toks = ["v1", "v2"]
                        s.execute(sa.insert(cls), [{"id": 1, "c": "v1"}, {"id": 2, "c": "v2"}])
                        s.commit()
            wlog = list(log)
            del log[:]
            with self.engine.begin() as conn:
                stored = dict((self.tok(x[0]), x[0]) for x in conn.exec_driver_sql("select c from %s" % wtab.name).all())
                if wtab is not tab:           # the read side always works on the main table
                    for v in stored.values():
                        conn.exec_driver_sql("insert into %s (id, c) values (1, ?)" % tab.name, (v,))
                # a second / third row for the compound members, written raw (already "stored" form of the same pipeline)
                base = stored[toks[0]]
                have = {self.tok(x[0]) for x in conn.exec_driver_sql("select c from %s" % tab.name).all()}
                for i, tk in enumerate(("v1", "v2", "v3"), 1):
                    if tk not in have:
                        conn.exec_driver_sql("insert into %s (id, c) values (?, ?)" % tab.name, (i, tk + base[len(toks[0]):]))
            del log[:]
            # ------------------------------------------------------------------ read
            c = tab.c.c

            def leaf(i):
                return sa.select(c).where(tab.c.id == i)
            want = "v1"
            loaded = None
            compile_only = None
            if combined is not None:
                loaded = {self.tok(x[0]): x[0] for x in combined}
                rlog = [e for e in wlog if e[0].startswith("r:")]
                wlog = [e for e in wlog if not e[0].startswith("r:")]
                want = None
            elif r.startswith("orm_"):
                with Session(self.engine) as s:
                    if r == "orm_entity":
                        loaded = {"v1": s.scalars(sa.select(cls).where(cls.id == 1)).one().c}
                    elif r == "orm_attr":
                        loaded = {"v1": s.execute(sa.select(cls.c).where(cls.id == 1)).scalar_one()}
                    elif r == "orm_refresh":
                        o = s.get(cls, 1)
                        s.expire(o)
                        del log[:]
                        loaded = {"v1": o.c}
                        o.c
                    elif r == "orm_aliased":
                        al = aliased(cls)
                        loaded = {"v1": s.scalars(sa.select(al).where(al.id == 1)).one().c}
                    elif r == "orm_subq":
                        al = aliased(cls, sa.select(cls).where(cls.id == 1).subquery())
                        loaded = {"v1": s.scalars(sa.select(al)).one().c}
                    else:
                        raise KeyError(r)
                rlog = list(log)
            else:
                with self.engine.begin() as conn:
                    if r == "sel":
                        st = leaf(1)
                    elif r == "label":
                        st = sa.select(c.label("lbl")).where(tab.c.id == 1)
                    elif r == "cached":
                        st = leaf(1)
                        conn.execute(leaf(1)).all()
                        del log[:]
                    elif r == "columns_view":
                        st = None
                        res = conn.execute(sa.select(tab.c.id, c).where(tab.c.id == 1))
                        rows = res.columns("c").all()
                        rows[0][0], rows[0].c, rows[0]._mapping["c"]
                        loaded = {"v1": rows[0][0]}
                    elif r == "subq":
                        sq = sa.select(c, tab.c.id).subquery()
                        st = sa.select(sq.c.c).where(sq.c.id == 1)
                    elif r == "cte":
                        sq = sa.select(c, tab.c.id).cte("w")
                        st = sa.select(sq.c.c).where(sq.c.id == 1)
                    elif r == "scalar":
                        st = sa.select(leaf(1).scalar_subquery())
                    elif r == "subq2":
                        sq = sa.select(c.label("k"), tab.c.id).subquery()
                        sq2 = sa.select(sq.c.k, sq.c.id).subquery()
                        st = sa.select(sq2.c.k).where(sq2.c.id == 1)
                    elif r in ("union0", "union1"):
                        st = sa.union_all(leaf(1), leaf(2))
                        want = "v1" if r == "union0" else "v2"
                    elif r == "subq_union1":
                        st = sa.select(sa.union_all(leaf(1), leaf(2)).subquery().c.c)
                        want = "v2"
                    elif r == "union1_subq":
                        sq = sa.select(c, tab.c.id).subquery()
                        st = sa.union_all(leaf(1), sa.select(sq.c.c).where(sq.c.id == 2))
                        want = "v2"
                    elif r in ("nested01", "nested10", "nested11"):
                        # SQLite cannot parse a parenthesised compound: the rendered SQL of the leaf SELECT is the observation
                        st = None
                        if r == "nested01":
                            u, want = sa.union_all(sa.union_all(leaf(1), leaf(2)), leaf(3)), "v2"
                        elif r == "nested10":
                            u, want = sa.union_all(leaf(1), sa.union_all(leaf(2), leaf(3))), "v2"
                        else:
                            u, want = sa.union_all(leaf(1), sa.union_all(leaf(2), leaf(3))), "v3"
                        from sqlalchemy.dialects import postgresql
                        sql = str(u.compile(dialect=postgresql.dialect(), compile_kwargs={"literal_binds": True}))
                        compile_only = sql
                    elif r == "ret_update":
                        st = tab.update().where(tab.c.id == 1).values(id=1).returning(c)
                    elif r == "ret_delete":
                        st = tab.delete().where(tab.c.id == 1).returning(c)
                    else:
                        raise KeyError(r)
                    if st is not None:
                        rows = conn.execute(st).all()
                        loaded = {self.tok(x[0]): x[0] for x in rows}
                rlog = list(log)
            out = {"want": want, "toks": toks, "stored": stored, "loaded": loaded, "wlog": wlog, "rlog": rlog, "compile_only": compile_only}
        return out
