"""Shared by checks/c11.py, c09.py, c22.py (package StmtShapes: RowLookup.tla, TypePipeline.tla, ConstructGrammar.tla).

Section C11: builds the real statement for one RowLookup case (select list over tables a / b with colliding names, label
style, label_length, wrapper, textual mode), executes it on SQLite and reports the outcome of every lookup key the
specification lists.  Nothing here decides anything: outcomes are compared with the specification's by checks/c11.py.
"""
import warnings

# ------------------------------------------------------------------------------------------------ C11
# expression values: every expression that can appear in a select list has its own value
VAL = {"aid": 11, "ax": 12, "al": 13, "ak": 14, "bid": 21, "bx": 22, "by": 23, "bk": 24, "sum": 34, "anon": 35, "lit": 7}
ITEM_EXPR = {"Lax_lx": "ax", "Lbx_x": "bx", "Lby_a_x": "by", "Lsum": "sum", "Laid_k": "aid", "txt": "aid"}
# second branch of the UNION ALL wrapper: value + 100
UNION_OFF = 100


class RowLookupWorld:
    """tables, engines (one per label_length) and statement construction"""

    def __init__(self, workdir=None):
        import sqlalchemy as sa
        self.sa = sa
        self.m = sa.MetaData()
        I = sa.Integer
        self.a = sa.Table("a", self.m, sa.Column("id", I), sa.Column("x", I), sa.Column("longcolname", I), sa.Column("p", I, key="k"))
        self.b = sa.Table("b", self.m, sa.Column("id", I), sa.Column("x", I), sa.Column("y", I), sa.Column("r", I, key="k"))
        a, b = self.a, self.b
        self.cols = {"aid": a.c.id, "ax": a.c.x, "al": a.c.longcolname, "ak": a.c.k,
                     "bid": b.c.id, "bx": b.c.x, "by": b.c.y, "bk": b.c.k}
        self.engines = {}

    def engine(self, ll):
        if ll not in self.engines:
            from sqlalchemy.pool import StaticPool
            sa = self.sa
            e = sa.create_engine("sqlite://", label_length=ll or None, poolclass=StaticPool)
            self.m.create_all(e)
            with e.begin() as c:
                c.execute(self.a.insert().values(id=11, x=12, longcolname=13, k=14))
                c.execute(self.b.insert().values(id=21, x=22, y=23, k=24))
            self.engines[ll] = e
        return self.engines[ll]

    def dispose(self):
        for e in self.engines.values():
            e.dispose()
        self.engines = {}

    # -------------------------------------------------------------------------------------------- construction
    def build_item(self, it):
        sa, a, b = self.sa, self.a, self.b
        if it in self.cols:
            return self.cols[it]
        if it == "Lax_lx":
            return a.c.x.label("lx")
        if it == "Lbx_x":
            return b.c.x.label("x")
        if it == "Lby_a_x":
            return b.c.y.label("a_x")
        if it == "Laid_k":
            return a.c.id.label("k")
        if it == "Lsum":
            return (a.c.x + b.c.x).label("longlabelname")
        if it == "anon":
            return a.c.x + b.c.y
        if it == "lit":
            return sa.literal_column("7")
        if it == "txt":
            return sa.text("a.id")
        raise KeyError(it)

    def build(self, case):
        """-> (statement, objmap: object id -> object, posobjs: the object selected at each position)"""
        sa = self.sa
        from sqlalchemy.sql import selectable as sel
        styles = {"none": sel.LABEL_STYLE_NONE, "tpc": sel.LABEL_STYLE_TABLENAME_PLUS_COL, "dis": sel.LABEL_STYLE_DISAMBIGUATE_ONLY}
        items = case["items"]
        om = {}
        for it in items:
            if it not in om:
                om[it] = self.build_item(it)         # the same item twice = the same object twice
        for n, c in self.cols.items():
            om.setdefault(n, c)
        inner = sa.select(*[om[i] for i in items]).select_from(self.a).join(self.b, sa.true()).set_label_style(styles[case["style"]])
        posobjs = [om[i] for i in items]
        wrap, mode = case["wrap"], case["mode"]
        stmt = inner
        if wrap in ("subq", "cte"):
            sq = inner.subquery("sq") if wrap == "subq" else inner.cte("sq")
            stmt = sa.select(sq)
            posobjs = list(sq.c)
            for it, c in zip(items, posobjs):
                om["sq." + it] = c
        elif wrap == "union":
            second = sa.select(*[sa.literal_column(str(VAL[ITEM_EXPR.get(i, i)] + UNION_OFF)) for i in items])
            stmt = sa.union_all(inner, second)
        if mode != "pos":
            e = self.engine(case["ll"])
            sql = str(stmt.compile(e, compile_kwargs={"literal_binds": True})) + " /* %s */" % mode
            if mode == "text":
                stmt = sa.text(sql)
            elif mode == "tpos":
                stmt = sa.text(sql).columns(*posobjs)
            elif mode == "tname":
                stmt = sel.TextualSelect(sa.text(sql), posobjs, positional=False)
            else:
                raise KeyError(mode)
        return stmt, om, posobjs

    # -------------------------------------------------------------------------------------------- observation
    @staticmethod
    def outcome(fn):
        from sqlalchemy import exc
        try:
            return ("val", fn())
        except exc.NoSuchColumnError:
            return ("NoSuch", None)
        except exc.InvalidRequestError as e:
            if "Ambiguous column name" in str(e):
                return ("Amb", None)
            return ("exc", "InvalidRequestError: %s" % e)
        except AttributeError as e:
            # Row.__getattr__ turns a missing key into AttributeError
            return ("NoSuch", None)
        except Exception as e:            # anything else is reported as it is
            return ("exc", "%s: %s" % (type(e).__name__, e))

    def observe(self, case):
        """run the case twice (second run: freshly built equal statement, served from the compiled cache) and return
        dict(exec_error, keys, rows, str{key:[o1,o2]}, attr{key:o}, obj{id:o}, pos[o..], fresh[o..], cint[o..], cols_ok)"""
        from sqlalchemy import exc
        eng = self.engine(case["ll"])
        out = {"runs": []}
        with warnings.catch_warnings():
            warnings.simplefilter("ignore")
            for run in (0, 1):
                stmt, om, posobjs = self.build(case)
                with eng.connect() as conn:
                    try:
                        res = conn.execute(stmt)
                    except exc.InvalidRequestError as e:
                        out["runs"].append({"exec_error": "InvalidRequestError", "msg": str(e)})
                        continue
                    r = {"exec_error": None, "keys": list(res.keys())}
                    rows = res.all()
                    r["rows"] = [list(x) for x in rows]
                    row = rows[0]
                    r["str"] = {k: self.outcome(lambda: row._mapping[k]) for k in case["strkeys"]}
                    r["attr"] = {k: self.outcome(lambda: getattr(row, k)) for k in case["strkeys"] if k.isidentifier() and not k.startswith("_")}
                    r["obj"] = {k: self.outcome(lambda: row._mapping[om[k]]) for k in case["objkeys"] if k in om}
                    r["posobj"] = [self.outcome(lambda: row._mapping[o]) for o in posobjs]
                    r["rows_posobj"] = [[self.outcome(lambda: x._mapping[o]) for o in posobjs] for x in rows]
                    # Result.columns(): every non-raising key at once, and integer positions one by one
                    cint = []
                    for i in range(len(posobjs)):
                        res2 = conn.execute(stmt)
                        cint.append(self.outcome(lambda: res2.columns(i).all()[0][0]))
                        res2.close()
                    r["cint"] = cint
                    good = [k for k in case["strkeys"] if r["str"][k][0] == "val"]
                    goodo = [k for k in r["obj"] if r["obj"][k][0] == "val"]
                    res3 = conn.execute(stmt)
                    r["columns"] = self.outcome(lambda: list(res3.columns(*(good + [om[k] for k in goodo])).all()[0]))
                    res3.close()
                    r["columns_expect"] = [r["str"][k][1] for k in good] + [r["obj"][k][1] for k in goodo]
                    res4 = conn.execute(stmt)
                    r["mappings"] = self.outcome(lambda: [dict(x) for x in res4.mappings().all()])
                    res4.close()
                out["runs"].append(r)
        return out


def _j(chars):
    return "".join(chars)


def rowlookup_prepare(c):
    """TLC case (names as character lists) -> case for RowLookupWorld.observe + expectation tables"""
    case = dict(items=list(c["items"]), style=c["style"], ll=c["ll"], mode=c["mode"], wrap=c["wrap"], execError=c["execError"])
    if c["execError"]:
        case.update(strkeys=[], objkeys=[])
        return case
    case["keys"] = [_j(k) for k in c["keys"]]
    case["str"] = {_j(e["k"]): (e["o"], e["l"]) for e in c["str"]}
    case["obj"] = {e["k"]: (e["o"], e["l"]) for e in c["obj"]}
    case["strkeys"] = sorted(case["str"])
    case["objkeys"] = sorted(case["obj"])
    case["fresh"] = [(e["o"], e["l"]) for e in c["fresh"]]
    case["cint"] = [(e["o"], e["l"]) for e in c["cint"]]
    case["exprs"] = list(c["exprs"])
    case["posids"] = list(c["posids"])
    case["finding"] = c["finding"]
    case["differs"] = c["differs"]
    case["strategy"] = c["strategy"]
    return case


AMB, NOSUCH, UNSPEC = -1, -2, -3


def rowlookup_compare(case, obs):
    """-> list of (kind, detail) mismatches; kind 'legacy' = the real code answers like the pinned mechanism where the repaired one
    differs (a finding of class case['finding']), anything else is an unexplained disagreement"""
    out = []
    if case["execError"]:
        for ri, r in enumerate(obs["runs"]):
            if not r["exec_error"]:
                out.append(("other", "run%d: executed, specification expects InvalidRequestError (duplicate column expression in textual SQL)" % ri))
        return out
    vals = [VAL[e] for e in case["exprs"]]

    def exp(o):
        return ("val", vals[o]) if o >= 0 else ("Amb", None) if o == AMB else ("NoSuch", None)

    def cmp(what, real, pair):
        o, l = pair
        if o == UNSPEC:
            return
        if real == exp(o):
            return
        if l != UNSPEC and o != l and real == exp(l):
            out.append(("legacy", "%s: real %r = pinned mechanism %r, repaired mechanism %r" % (what, real, exp(l), exp(o))))
        else:
            out.append(("other", "%s: real %r, specification %r (pinned %r)" % (what, real, exp(o), exp(l) if l != UNSPEC else None)))

    for ri, r in enumerate(obs["runs"]):
        if r["exec_error"]:
            out.append(("other", "run%d: %s %s" % (ri, r["exec_error"], r.get("msg", "")[:200])))
            continue
        if r["rows"][0] != vals:
            out.append(("other", "run%d: row[i] cells %r, expressions evaluate to %r" % (ri, r["rows"][0], vals)))
        if case["wrap"] == "union" and (len(r["rows"]) != 2 or r["rows"][1] != [v + UNION_OFF for v in vals]):
            out.append(("other", "run%d: union rows %r" % (ri, r["rows"])))
        if r["keys"] != case["keys"]:
            out.append(("other", "run%d: Result.keys() %r, specification %r" % (ri, r["keys"], case["keys"])))
        for k in case["strkeys"]:
            cmp("run%d row._mapping[%r]" % (ri, k), r["str"][k], case["str"][k])
            if k in r["attr"]:
                cmp("run%d row.%s" % (ri, k), r["attr"][k], case["str"][k])
        for k in r["obj"]:
            if ri == 1 and k in case["posids"]:
                continue            # the second run's selected objects follow the Fresh rule below
            cmp("run%d row._mapping[<%s>]" % (ri, k), r["obj"][k], case["obj"][k])
        for i, o in enumerate(r["posobj"]):
            if ri == 0:
                cmp("run0 row._mapping[<selected %d %s>]" % (i, case["posids"][i]), o, case["obj"][case["posids"][i]])
            else:
                cmp("run1(cached) row._mapping[<selected %d %s>]" % (i, case["posids"][i]), o, case["fresh"][i])
        if case["wrap"] == "union":
            for i, o in enumerate(r["rows_posobj"][1]):
                if o[0] == "val" and r["posobj"][i][0] == "val" and o[1] != r["posobj"][i][1] + UNION_OFF:
                    out.append(("other", "run%d union second row, selected %d: %r vs first row %r" % (ri, i, o, r["posobj"][i])))
        for i, o in enumerate(r["cint"]):
            cmp("run%d Result.columns(%d)" % (ri, i), o, case["cint"][i])
        if r["columns_expect"] and r["columns"] != ("val", r["columns_expect"]):
            out.append(("other", "run%d Result.columns(*keys) %r, single lookups %r" % (ri, r["columns"], r["columns_expect"])))
        if r["mappings"][0] != "val":
            out.append(("other", "run%d mappings(): %r" % (ri, r["mappings"])))
        elif len(set(case["keys"])) == len(case["keys"]) and r["mappings"][1][0] != dict(zip(case["keys"], vals)):
            out.append(("other", "run%d mappings() %r" % (ri, r["mappings"][1][0])))
    return out
