"""C32 A failed flush leaves the database untouched and the session recoverable - OrmSession.tla (DESIGN 3.8, Appendix F)."""
from checks import ormsession_common as C

LEVEL = "model_checking"
MANIFEST = dict(
    text="OrmSession.tla simulates the unit of work statement by statement (UPDATE groups, executemany INSERT, DELETE, the SELECTs that load expired objects) and fails it at every position: FlushFail(k) injects a driver-level fault before the k-th DML statement (before_cursor_execute raising), FlushFail(-1) raises from the after_flush event, and natural IntegrityError / StaleDataError / ObjectDeletedError arise from key collisions; TLC checks that a failing call commits nothing, puts the session into the needs-rollback state in which commit/begin_nested/get/flush raise PendingRollbackError and the database does not move, that the innermost scope is restored at once (added objects transient), that rollback() ends it, and (composite action FailRedo) that repeating the same work after the rollback succeeds and yields exactly the database, identity map and object states of the failure-free flush. Every labelled edge (including every FlushFail position and every FailRedo) is replayed on a real Session comparing outcome class, statement count, object states, events and rows after every step.",
    design_ref="3.8, 4 (C32), Appendix F, F.2",
    note="trusted: TLC, SQLite; faults are injected through SQLAlchemy's own event hooks (engine before_cursor_execute, session after_flush); mapper-level before_insert hooks and disconnect errors are not separate fault kinds",
    technique="TLA+ spec (OrmSession.tla) + TLC exhaustive model checking; spec->code replay of every state-graph edge (every crash point of every flush in the bound) into a real Session")

ABS_INVS = ["RefCommitted", "RefLive", "AttrAgree", "NoTxMeansCommitted"]
ABS_PROPS = ["FailedFlushCommitsNothing", "FailNeedsRollback", "PendingRollbackUntilRollback", "FailRestoresScope", "RedoOk", "AfterRollback"]
MECH_INVS = ["OneIdentity", "RefCommitted", "RefLive", "NoTxMeansCommitted"]
MECH_PROPS = ["FailedFlushCommitsNothing", "FailNeedsRollback", "PendingRollbackUntilRollback"]
FOOTPRINT = ["Add", "SetV", "SetPk", "Delete", "Flush", "FlushFail", "FailRedo", "Commit", "Rollback", "BeginNested", "SpRollback", "Get"]


def spec(chk):
    q = chk.quick
    acts = ["SetV", "SetPk", "Fail", "Redo", "Sp", "Get"]
    return dict(
        cfgs=[
            dict(name="fail", objs=2, maxsp=1, depth=6 if q else 7, ideal_depth=7 if q else 8, eoc=True, acts=acts,
                 random=200 if q else 2000, sim=(40, 20) if q else (600, 30)),
            dict(name="fail3", objs=3, maxsp=1, depth=5 if q else 6, ideal_depth=5 if q else 7, eoc=True, acts=["SetV", "Fail", "Redo"] + ([] if q else ["SetPk", "Sp"]),
                 random=100 if q else 1000),
        ],
        mech_invs=MECH_INVS, mech_props=MECH_PROPS, abs_invs=ABS_INVS, abs_props=ABS_PROPS,
        devs={"ksw": dict(acts=["SetPk", "Fail"])},
        footprint=FOOTPRINT,
        nontrivial=lambda frm, act: act["a"] in ("FlushFail", "FailRedo") or (isinstance(act["ret"], str) and act["ret"] in (
            "IntegrityError", "StaleDataError", "ObjectDeletedError", "PendingRollbackError")) or (act["a"] in ("Rollback", "SpRollback") and frm["needrb"]),
    )


def main(chk):
    P = spec(chk)
    tot, cov, samples, plans, dev_real, dev_hits = C.run_property(chk, "C32", P)
    return chk.finish(
        dict(states=tot["states"], transitions=tot["transitions"], traces_validated_against_impl=tot["walks"] + tot["random_walks"],
             distinct_nontrivial=tot["nontrivial"], evaluations=tot["steps"], samples=samples[:4], plan=plans, action_coverage=cov,
             edges=tot["edges"], ideal_states=tot.get("ideal_states", 0), ideal_transitions=tot.get("ideal_transitions", 0),
             tlc_runs=tot["tlc_runs"], timing={k: v for k, v in tot.items() if k.startswith("t_")}, deep_walk_steps=tot.get("deep_walk_steps", 0),
             deviations_present=sorted(dev_real), deviations_exposed=dev_hits, exhaustive=True,
             rule="every labelled edge of the OrmSession state graph (cfgs %s) replayed on a real Session; non-trivial = injected faults at each "
                  "DML position / after_flush, fail-rollback-redo composites, naturally failing flushes, calls refused with PendingRollbackError "
                  "and the rollbacks that end the failed state" % [c["name"] for c in P["cfgs"]],
             checker_cmd="tlc OrmSession.tla (INVARIANT %s; PROPERTY %s)" % (",".join(ABS_INVS), ",".join(ABS_PROPS))),
        assumptions=["SQLite only (file, autocommit=False, NullPool); one mapped class T(id, v); at most 3 DML statements per flush in the bound",
                     "redo = the same attribute changes, add() in the original order, delete(), flush; enabled when the failed flush is the first work of its transaction scope and the failure-free flush succeeds",
                     "bounded: %s" % [(c["name"], c["objs"], c["maxsp"], c["depth"]) for c in P["cfgs"]]])
