"""Binding of Generative.tla (C03) to real Core / ORM / Query statement objects.

A walk of the state graph is a program: Derive(p, m) calls generative method m on node p, Copy(p, how) clones / copies / pickles it,
Compile(n, d) compiles node n with dialect d for the first time.  After EVERY step every node that has been compiled so far is compiled
again on EVERY dialect and must give the SQL string and parameters (a) of its first recording on that dialect and (b) of the statement
with the same derivation built afresh in one go (so a parent that changed before it was ever compiled is seen too); at the end of the walk
all nodes are compiled on all dialects.  Around the first compilation the statement's defining attributes (the names in
_traverse_internals / the Query's __dict__) are snapshotted and must be the very same objects with the very same elements afterwards.
"""
import copy
import pickle

import sqlalchemy as sa
from sqlalchemy import exc as sa_exc
from sqlalchemy.orm import Session, defer, selectinload
from sqlalchemy.sql import util as sql_util
from sqlalchemy.sql import visitors

from checks import stmt_common as sc
from checks.stmt_common import A, B  # noqa: F401  (pickled ORM statements refer to them by module path)

_DIALECTS = {}


def dialect(name):
    d = _DIALECTS.get(name)
    if d is None:
        from sqlalchemy.engine import url
        d = url.URL.create(name).get_dialect()()
        _DIALECTS[name] = d
    return d


def root(kind):
    w = sc.world()
    a = w.tabs[None]
    if kind == "select":
        return sa.select(a.c.id, a.c.x)
    if kind == "orm":
        return sa.select(A)
    if kind == "query":
        return Session().query(A)
    if kind == "compound":
        return sa.union(sa.select(a.c.id, a.c.x), sa.select(a.c.id, a.c.y))
    if kind == "insert":
        return sa.insert(a)
    if kind == "update":
        return sa.update(a)
    if kind == "delete":
        return sa.delete(a)
    raise ValueError(kind)


def apply(kind, st, m):
    """the generative call; every method has one fixed argument list"""
    w = sc.world()
    a, b = w.tabs[None], w.b
    if kind in ("orm", "query"):
        X, Y, ID = A.x, A.y, A.id
    else:
        X, Y, ID = a.c.x, a.c.y, a.c.id
    flt = "filter" if kind == "query" else "where"
    if m == "where":
        return getattr(st, flt)(X == 5)
    if m == "wherein":
        return getattr(st, flt)(Y.in_([1, 2]))
    if m == "having":
        return st.having(sa.func.count(ID) > 1)
    if m == "join":
        return st.join(A.bs) if kind in ("orm", "query") else st.join(b, a.c.id == b.c.a_id)
    if m == "outerjoin":
        return st.outerjoin(A.bs) if kind in ("orm", "query") else st.outerjoin(b, a.c.id == b.c.a_id)
    if m == "order":
        return st.order_by(ID)
    if m == "group":
        return st.group_by(X)
    if m == "limit":
        return st.limit(3)
    if m == "offset":
        return st.offset(2)
    if m == "distinct":
        return st.distinct()
    if m == "prefix":
        return st.prefix_with("/*p*/")
    if m == "execopt":
        return st.execution_options(foo="bar")
    if m == "label_style":
        return st.set_label_style(sa.LABEL_STYLE_TABLENAME_PLUS_COL)
    if m == "only":
        return st.with_entities(ID) if kind == "query" else st.with_only_columns(ID)
    if m == "addcol":
        return st.add_columns(Y)
    if m == "order2":
        return st.order_by(X)
    if m == "mvalues":
        return st.values([{"x": 1, "y": 1}, {"x": 2, "y": 2}])
    if m == "mvalues2":
        return st.values([{"x": 3, "y": 3}])
    if m == "dialectopt":
        return st.with_dialect_options(mysql_limit=5)
    if m == "dialectopt2":
        return st.with_dialect_options(mysql_limit=7)
    if m == "values":
        return st.values(y=7)
    if m == "values2":
        return st.values(x=8)
    if m == "returning":
        return st.returning(a.c.id)
    if m == "returning2":
        return st.returning(a.c.x)
    if m == "options":
        return st.options(selectinload(A.bs))
    if m == "options2":
        return st.options(defer(A.y))
    raise ValueError(m)


def do_copy(kind, st, how):
    if how == "copy":
        return copy.copy(st)
    if how == "clone":
        return st._clone() if kind != "query" else st._generate()
    if how == "deepclone":
        return visitors.cloned_traverse(st, {}, {})
    if how == "adapt":
        # a ClauseAdapter for a selectable that does not occur in the statement: a deep clone in which nothing is replaced
        return sql_util.ClauseAdapter(sc.world().dtabs[None].alias("unrelated")).traverse(st)
    if how == "pickle":
        if kind == "orm":
            # plain pickle does not support ORM-annotated constructs; the documented route is sqlalchemy.ext.serializer
            from sqlalchemy.ext import serializer
            return serializer.loads(serializer.dumps(st), sc.world().md)
        return pickle.loads(pickle.dumps(st))
    raise ValueError(how)


def compile_(kind, st, dname):
    """-> (sql text | exception class name, params)"""
    try:
        el = st.statement if kind == "query" else st
        c = el.compile(dialect=dialect(dname))
        # the columns the statement exports (what select(stmt.cte()) / a subquery of it would offer) belong to what it means
        cols = [c_.key for c_ in el.exported_columns] if kind != "query" else []
        return str(c), dict(c.params), cols
    except (sa_exc.CompileError, sa_exc.InvalidRequestError, sa_exc.ArgumentError) as e:
        return "raise " + type(e).__name__, {}, []


def cache_key(kind, st):
    """the statement's cache key as the engine's compiled cache would see it (structure + extracted literal values)"""
    el = st.statement if kind == "query" else st
    ck = el._generate_cache_key()
    if ck is None:
        return None
    return ck.key, repr([bp.value for bp in ck.bindparams])


def memoize(kind, st):
    """Memo(n): read the memoized attributes a program may touch without compiling anything"""
    el = st.statement if kind == "query" else st
    el._generate_cache_key()
    for name in ("exported_columns", "selected_columns", "_all_selected_columns", "dialect_options", "dialect_kwargs"):
        getattr(el, name, None)


def _names(kind, st):
    if kind == "query":
        skip = getattr(st, "_memoized_keys", ())
        return [k for k in st.__dict__ if k.startswith("_") and k not in skip]      # (`dispatch` is a lazily created event hub, not state)
    return [n for n, _ in st._traverse_internals]


def snapshot(kind, st):
    snap = {}
    for n in _names(kind, st):
        v = getattr(st, n, None)
        if n == "dialect_options":
            # a lazily populated registry: compilers look up e.g. oracle_fetch_approximate / mysql_limit and the DEFAULTS get filled
            # in as a side effect; only what the user specified is state of the statement
            c = _user_dialect_options(v)
        elif isinstance(v, (list, tuple)):
            c = list(v)
        elif isinstance(v, dict):
            c = dict(v)
        else:
            c = None
        snap[n] = (v, c)
    return snap


def _user_dialect_options(v):
    return {d: dict(getattr(o, "_non_defaults", {})) for d, o in dict(v).items() if getattr(o, "_non_defaults", None)}


def changed(kind, st, snap):
    out = []
    names = _names(kind, st)
    if set(names) != set(snap):
        out.append("attribute set changed: %r" % sorted(set(names) ^ set(snap)))
    for n, (v, c) in snap.items():
        cur = getattr(st, n, None)
        if cur is not v:
            out.append("%s rebound" % n)
        elif n == "dialect_options":
            if _user_dialect_options(cur) != c:
                out.append("dialect_options (user-specified part) changed")
        elif c is not None:
            if isinstance(c, list):
                if len(cur) != len(c) or any(x is not y for x, y in zip(cur, c)):
                    out.append("%s contents changed" % n)
            elif dict(cur) != c:
                out.append("%s contents changed" % n)
    return out


class Driver:
    def __init__(self, wid, workdir, kind, dialects):
        self.kind = kind
        self.dialects = dialects
        self.expected = {}          # (descr, dialect) -> (sql, params) of the statement built afresh in one go
        self.compiles = 0

    def fresh(self, descr, dname):
        k = (descr, dname)
        v = self.expected.get(k)
        if v is None:
            st = root(self.kind)
            for m in descr:
                st = apply(self.kind, st, m)
            v = self.expected[k] = compile_(self.kind, st, dname)
        return v

    def _check_keys(self, flags):
        """C02 clause 2 along derivation chains: two statements of the tree with EQUAL cache keys compile identically on every
        dialect.  (This is how a memoized cache key inherited from the parent shows: the child would be served the parent's SQL by
        an engine's compiled cache.)  Equality with the key of a freshly built statement is NOT demanded: compilation legitimately
        leaves traces in the key - ORM compilation merges ORM compile options into statement._compile_options, the Oracle / MySQL
        compilers fill in dialect_options defaults - none of which changes the SQL."""
        seen = {}
        for i, comp in enumerate(flags):
            if not comp or self.pickled[i]:
                continue        # (an unpickled statement owns copies of the tables: its key differs anyway)
            k = cache_key(self.kind, self.nodes[i])
            if k is None:
                continue
            j = seen.setdefault(k, i)
            if j != i and self.descr[j] != self.descr[i]:
                for d in self.dialects:
                    if self.fresh(self.descr[i], d) != self.fresh(self.descr[j], d):
                        return "nodes %d (%s) and %d (%s) have equal cache keys but compile differently on %s" % (
                            j + 1, "/".join(self.descr[j]) or "(root)", i + 1, "/".join(self.descr[i]) or "(root)", d)
        return None

    def reset(self, state):
        rd = tuple(state[0][2]) if not isinstance(state[0][2], str) else ()
        st = root(self.kind)
        for m in rd:
            st = apply(self.kind, st, m)
        self.nodes = [st]
        self.descr = [rd]
        self.pickled = [False]
        self.info = [dict(via="root", par=None)]
        self.walk = set(rd)          # every method (and copy operation) used in this walk so far
        self.first = {}

    def _tag(self, i, symptom):
        """structured prefix of a mismatch: how the statement concerned came to be (used for known-finding signatures)"""
        inf = self.info[i]
        p = inf["par"]
        j, deep = i, False          # is the statement, or an ancestor of it, a deep clone?
        while j is not None:
            deep = deep or self.info[j]["via"] in ("deepclone", "adapt")
            j = self.info[j]["par"]
        return "[symptom=%s via=%s method=%s parent_via=%s parent_memoized=%s from_deep_clone=%s walk=%s] " % (
            symptom, inf["via"], inf.get("m", "-"), self.info[p]["via"] if p is not None else "-", inf.get("par_memo", False), deep,
            ",".join(sorted(self.walk)))

    def _check_node(self, i, dname):
        got = compile_(self.kind, self.nodes[i], dname)
        self.compiles += 1
        exp = self.fresh(self.descr[i], dname)
        if got != exp:
            sym = "sql" if got[:2] != exp[:2] else "exported_columns"
            return self._tag(i, sym + " dialect=" + dname) + "node %d %s on %s compiles to %r, the same derivation built afresh compiles to %r" % (
                i + 1, "/".join(self.descr[i]) or "(root)", dname, got, exp)
        f = self.first.setdefault((i, dname), got)
        if f != got:
            return self._tag(i, "changed dialect=" + dname) + "node %d on %s compiles to %r, its first recording was %r" % (i + 1, dname, got, f)
        return None

    def step(self, frm, act, to):
        a = act["a"]
        kind = self.kind
        if a == "Derive" and act.get("r") == "InvalidRequestError":
            try:
                apply(kind, self.nodes[act["n"] - 1], act["x"])
                return "%s did not raise; spec: InvalidRequestError (documented refusal)" % act["x"]
            except sa_exc.InvalidRequestError:
                pass
            self.walk.add(act["x"])
        elif a == "Memo":
            memoize(kind, self.nodes[act["n"] - 1])
        elif a == "Derive":
            p = act["n"] - 1
            pinf = dict(via="derive", par=p, m=act["x"], par_memo=bool(frm[p][3] or frm[p][4]))
            self.walk.add(act["x"])
            try:
                new = apply(kind, self.nodes[p], act["x"])
            except (sa_exc.SQLAlchemyError, AttributeError, TypeError, KeyError) as e:
                self.info.append(pinf)
                return self._tag(len(self.info) - 1, "exception exc=" + type(e).__name__) + "%s raised %s (%s); spec: ok" % (act["x"], type(e).__name__, str(e)[:120])
            if new is self.nodes[p]:
                # allowed only for a call that changes nothing (set_label_style() with the style already set returns self): the
                # derivation with and without the call must then mean the same on every dialect
                for d in self.dialects:
                    if self.fresh(self.descr[p] + (act["x"],), d) != self.fresh(self.descr[p], d):
                        return "generative method %s returned the statement it was called on although it changes the SQL on %s" % (act["x"], d)
            self.nodes.append(new)
            self.descr.append(self.descr[p] + (act["x"],))
            self.pickled.append(self.pickled[p])
            self.info.append(pinf)
        elif a == "Copy":
            p = act["n"] - 1
            self.walk.add(act["x"])
            new = do_copy(kind, self.nodes[p], act["x"])
            if new is self.nodes[p]:
                return "%s returned the same object" % act["x"]
            self.nodes.append(new)
            self.descr.append(self.descr[p])
            self.pickled.append(self.pickled[p] or act["x"] == "pickle")
            self.info.append(dict(via=act["x"], par=p, par_memo=bool(frm[p][3] or frm[p][4])))
        elif a == "Compile":
            i = act["n"] - 1
            st = self.nodes[i]
            snap = snapshot(kind, st)
            m = self._check_node(i, act["x"])
            if m:
                return m
            ch = changed(kind, st, snap)
            if ch:
                return "compilation on %s modified the statement: %s" % (act["x"], "; ".join(ch))
        else:
            return "unknown action %r" % a
        if len(self.nodes) != len(to):
            return "program holds %d statements, spec %d" % (len(self.nodes), len(to))
        # after every step: every compiled node, every dialect
        for i, nd in enumerate(to):
            if nd[3]:
                for d in self.dialects:
                    m = self._check_node(i, d)
                    if m:
                        return m
        return self._check_keys([nd[3] for nd in to])

    def finish(self, state):
        for i in range(len(self.nodes)):
            for d in self.dialects:
                m = self._check_node(i, d)
                if m:
                    return "drain: " + m
        m = self._check_keys([True] * len(self.nodes))
        return ("drain: " + m) if m else None
