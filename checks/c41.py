"""C41 ORM queries return the rows their relational meaning specifies - OrmQuery.tla part 1 (DESIGN 3.14, 4 C40-C42).

TLC: every (data set, query) initial state is evaluated by the specification's relational semantics (Eval) and checked against the
theorems (LimitIsSlice, OrderOK, AnyIsSemiJoin, SetOpsOK, HasIsJoin, JoinOK, ThreeValued, DistinctOK, GroupOK, GraphOK); one JSON case each.
Binding, per case, on real SQLite:
  calibration   the Core select() built by the harness from Table objects (explicit ON / EXISTS / aliases) must return the spec's rows
                (else exit 2: the oracle itself would be wrong)
  conformance   the same query written with ORM vocabulary (entities, joins along relationships, any()/has()/contains()/== obj, aliased(),
                of_type(), UNION as an aliased entity) through session.execute, session.scalars, Result.unique, the legacy Query
                (all / first / count / exists), SELECT COUNT(*) FROM (subquery), SELECT EXISTS, an aliased entity over the statement as
                subquery and select(entity).from_statement(core statement): entities by primary key and ALL their column values, plain
                values, count and exists must equal the spec's result and correspond one-to-one with the Core rows.
"""
import random

from checks import ormquery_common as oq

LEVEL = "model_checking"
MANIFEST = dict(
    text="OrmQuery.tla defines, by relational algebra under SQL's three-valued logic, the result of a query grammar over three tables "
         "P <- C <- G (rows with NULL attributes and NULL foreign keys, empty collections): 13 WHERE forms per root (column comparisons, "
         "any()/has() with and without criteria and nested, NOT, correlated COUNT subquery, [NOT] IN subquery, UNION, contains()/== object), "
         "9 JOIN forms (inner/outer along the collection and along the many-to-one, with criteria on the joined row), 7 select forms (entity, "
         "columns, one column, entity pair, entity+column, GROUP BY with columns and with an entity), DISTINCT, 5 orderings, LIMIT/OFFSET. TLC "
         "checks ten theorems on every case (limit after order is a slice, any() = semi-join, has() = join to the parent, NOT IN with NULLs, "
         "DISTINCT, GROUP BY sums, count/exists = rows). Every case (systematic grid + seeded random data sets and queries) runs on SQLite: the "
         "harness's hand-built Core select must equal the spec (calibration), and the ORM spelling through ten API paths must return exactly "
         "those entities (all column values), values, count and exists, one-to-one with the Core rows.",
    design_ref="3.14 (OrmQuery), 4 (C40-C42)",
    note="trusted: TLC; SQLite as executor of the harness's Core statements; bounds <=3 parents x <=3 children x <=2 grandchildren, values "
         "1..2 + NULL; the legacy Query's documented entity de-duplication is modelled as the spec's `uniq` (named deviation); unordered "
         "queries are compared as multisets; other backends are not executable here",
    technique="TLA+ spec (OrmQuery.tla) + TLC theorem checking on every enumerated case; spec->code replay of every case through the ORM "
              "and through an independent Core statement")

INVS = ["Theorems"]
CASES = []
SEED = 0


def _sig(q, api, **kw):
    return dict(spec="OrmQuery", action=api, root=q["root"], pf=q["pf"], jn=q["jn"], sel=q["sel"], dist=q["dist"], ord=q["ord"],
                lim=q["lim"] != -1, off=q["off"] != -1, **kw)


def _same(got, exp, ordered):
    return got == exp if ordered else sorted(got) == sorted(exp)


def _ents_of(row, shape):
    out = []
    for x, s in zip(row, shape):
        if s[0] == "ent":
            out.append((s[1], oq.ent_cols(s[1], x)))
    return out


def worker(indices):
    import sqlalchemy as sa
    from sqlalchemy import orm
    oq.quiet()
    rel = oq.Rel()
    M = rel.mapping()
    rng = random.Random(SEED * 7919 + (indices[0] if indices else 0))
    viol, mach = [], []
    cnt = dict(cases=0, api_runs=0, nontrivial=0, entity_rows=0, sqlite_exists_quirk=0)
    for ci in indices:
        c = CASES[ci]
        q, ds = c["q"], c["ds"]
        cnt["cases"] += 1
        rel.load(ds)
        exp = [tuple(r) for r in c["rows"]]
        uq = [tuple(r) for r in c["uniq"]]
        ordered = c["ordered"]
        if exp and (q["pf"] != "none" or q["jn"] != "none"):
            cnt["nontrivial"] += 1
        # ---------------------------------------------------------------- calibration: spec vs Core on SQLite
        cstmt, shape = oq.core_select(q, rel)
        if q["pf"] == "uni":
            cstmt, shape = core_union(q, rel, sa)
        with rel.engine.connect() as conn:
            core = oq.core_rows(conn.execute(cstmt), shape)
        ctup = [t for t, _ in core]
        if not _same(ctup, exp, ordered):
            mach.append("calibration: Core rows %r, spec rows %r for q=%r ds=%r" % (ctup, exp, q, ds))
            continue
        bad_ent = None
        for t, ents in core:
            for cls, vals in ents:
                if vals is None:
                    continue
                g = (c["pgraph"] if cls == "P" else c["cgraph"] if cls == "C" else None)
                if cls == "P":
                    want = (vals[0], g[vals[0] - 1]["x"])
                elif cls == "C":
                    want = (vals[0], g[vals[0] - 1]["y"], g[vals[0] - 1]["pid"])
                else:
                    want = (vals[0], ds["gz"][vals[0] - 1], ds["gc"][vals[0] - 1])
                if want != vals:
                    bad_ent = (cls, vals, want)
        if bad_ent:
            mach.append("calibration: Core entity columns %r, spec %r (%r)" % (bad_ent[1], bad_ent[2], q))
            continue
        has_ent = q["sel"] in oq.ENTITY_SELS
        # SQLite 3.40 evaluates EXISTS (SELECT DISTINCT .. OFFSET n) without the DISTINCT (named deviation SqliteExistsDistinctOffset):
        # exists is what the backend answers for the CORE statement; anywhere else a disagreement with the spec is a calibration failure
        with rel.engine.connect() as conn:
            core_exists = bool(conn.scalar(sa.select(cstmt.exists())))
            core_count = conn.scalar(sa.select(sa.func.count()).select_from(cstmt.subquery()))
        if core_count != c["count"]:
            mach.append("calibration: Core count(*) %r, spec %r for q=%r ds=%r" % (core_count, c["count"], q, ds))
            continue
        if core_exists != c["exists"]:
            if q["dist"] and q["off"] != -1 and core_exists:
                cnt["sqlite_exists_quirk"] += 1
            else:
                mach.append("calibration: Core EXISTS %r, spec %r for q=%r ds=%r" % (core_exists, c["exists"], q, ds))
                continue

        def compare(api, rows, expected, with_entities=True, force_unordered=False):
            """rows: ORM result rows (tuples of entities / values)"""
            cnt["api_runs"] += 1
            tups = [oq.orm_tuple(r, q["sel"]) for r in rows]
            o = ordered and not force_unordered
            if not _same(tups, expected, o):
                viol.append((_sig(q, api, kind="rows"),
                             "%s returns %r, relational meaning (spec = Core) %r; q=%r ds=%r" % (api, tups, expected, q, ds),
                             dict(case=c, api=api, got=tups)))
                return
            if with_entities and has_ent:
                got = [(t, _ents_of(r, shape)) for t, r in zip(tups, rows)]
                want = core if expected is exp else None
                if want is None:
                    idx = {}
                    for t, e in core:
                        idx.setdefault(t, e)
                    want = [(t, idx[t]) for t in expected]
                if not o:
                    got, want = sorted(got, key=repr), sorted(want, key=repr)
                cnt["entity_rows"] += len(got)
                if got != want:
                    viol.append((_sig(q, api, kind="entity-values"),
                                 "%s: entity column values %r differ from the Core rows %r; q=%r ds=%r" % (api, got, want, q, ds),
                                 dict(case=c, api=api)))

        try:
            for alias in (False, True):
                tag = "+aliased" if alias else ""
                stmt = build(q, M, sa, orm, alias, ds)
                with orm.Session(rel.engine) as s:
                    compare("execute" + tag, s.execute(stmt).all(), exp)
                with orm.Session(rel.engine) as s:
                    got = s.scalars(stmt).all()
                    compare("scalars" + tag, [(x,) for x in got], [t[:1] for t in exp], with_entities=False)
                if alias:
                    continue
                with orm.Session(rel.engine) as s:
                    compare("unique" + tag, s.execute(stmt).unique().all(), uq)
                with orm.Session(rel.engine) as s:
                    cnt["api_runs"] += 2
                    n = s.scalar(sa.select(sa.func.count()).select_from(stmt.subquery()))
                    if n != c["count"]:
                        viol.append((_sig(q, "count-subquery" + tag, kind="count"),
                                     "SELECT count(*) FROM (stmt) = %r, rows returned %d; q=%r ds=%r" % (n, c["count"], q, ds), dict(case=c)))
                    e = s.scalar(sa.select(stmt.exists()))
                    if bool(e) != core_exists:
                        viol.append((_sig(q, "select-exists" + tag, kind="exists"),
                                     "SELECT EXISTS (stmt) = %r, rows returned %d; q=%r ds=%r" % (e, c["count"], q, ds), dict(case=c)))
            # ---- legacy Query
            with orm.Session(rel.engine) as s:
                qy = build_query(q, M, sa, orm, s, ds)
                compare("Query.all", [r if isinstance(r, tuple) or hasattr(r, "_fields") else (r,) for r in qy.all()],
                        uq if has_ent else exp)
                cnt["api_runs"] += 2
                n = qy.count()
                if n != c["count"]:
                    viol.append((_sig(q, "Query.count", kind="count"),
                                 "Query.count() = %r, rows of the query %d; q=%r ds=%r" % (n, c["count"], q, ds), dict(case=c)))
                e = s.query(qy.exists()).scalar()
                if bool(e) != core_exists:
                    viol.append((_sig(q, "Query.exists", kind="exists"),
                                 "Query.exists() = %r, rows of the query %d; q=%r ds=%r" % (e, c["count"], q, ds), dict(case=c)))
                if ordered and q["lim"] != 0:
                    f = qy.first()
                    f = None if f is None else (f if isinstance(f, tuple) or hasattr(f, "_fields") else (f,))
                    compare("Query.first", [] if f is None else [f], exp[:1])
            # ---- the statement as a subquery behind an aliased entity; entities from a Core statement
            if q["sel"] == "ent":
                R = M.P if q["root"] == "P" else M.C
                stmt = build(q, M, sa, orm, False, ds)
                with orm.Session(rel.engine) as s:
                    Ra = orm.aliased(R, stmt.subquery())
                    compare("aliased(subquery)", s.execute(sa.select(Ra)).all(), exp, force_unordered=True)
                with orm.Session(rel.engine) as s:
                    compare("from_statement(core)", s.execute(sa.select(R).from_statement(cstmt)).all(), exp)
        except Exception as ex:       # an exception on a well-formed query is a wrong result, not a harness failure
            import traceback
            viol.append((_sig(q, "exception", kind=type(ex).__name__),
                         "%s: %s for q=%r ds=%r" % (type(ex).__name__, " ".join(str(ex).split())[:300], q, ds),
                         dict(case=c, tb=traceback.format_exc()[-1500:])))
    return viol, mach, cnt


def _union_root(q, M, sa, orm):
    """pf = uni: the root entity is aliased(R, UNION of two entity selects)"""
    R = M.P if q["root"] == "P" else M.C
    rattr = R.x if q["root"] == "P" else R.y
    down = R.children if q["root"] == "P" else R.gs
    u = sa.union(sa.select(R).where(rattr == q["pv"]), sa.select(R).where(down.any())).subquery()
    return orm.aliased(R, u)


def build(q, M, sa, orm, alias, ds):
    if q["pf"] == "uni":
        pt = oq.orm_parts(dict(q, pf="none"), M, sa, orm, alias, root_entity=_union_root(q, M, sa, orm))
        return oq.orm_select(q, M, sa, orm, parts=pt)
    return oq.orm_select(q, M, sa, orm, alias, ds=ds)


def build_query(q, M, sa, orm, session, ds):
    if q["pf"] == "uni":
        return oq.orm_query(dict(q, pf="none"), M, sa, orm, session, root_entity=_union_root(q, M, sa, orm))
    return oq.orm_query(q, M, sa, orm, session, ds=ds)


def core_union(q, rel, sa):
    root = q["root"]
    r, d = (rel.p, rel.c) if root == "P" else (rel.c, rel.g)
    rattr = r.c.x if root == "P" else r.c.y
    fk = d.c.pid if root == "P" else d.c.cid
    u = sa.union(sa.select(r).where(rattr == q["pv"]),
                 sa.select(r).where(sa.exists(sa.select(sa.literal(1)).select_from(d).where(fk == r.c.id)))).subquery(r.name + "_u")
    return oq.core_select(dict(q, pf="none"), rel, root_table=u)


def plans_for(chk):
    base = dict(oq.BASE)
    sc = oq.scale()
    if chk.quick:
        return [("InitPart1", dict(base, K=1, GridKeepF=max(1, int(70 * sc)), GridKeep=max(1, int(30 * sc)), NQ=int(1500 * sc)))]
    return [("InitPart1", dict(base, K=1, NQ=int(6000 * sc))),
            ("InitPart1", dict(base, K=0, NQ=int(10000 * sc))),
            ("InitPart1", dict(base, K=0, NQ=int(3000 * sc), NP=2, NC=3, NG=3)),
            ("InitExh", dict(base, NP=2, NC=2, NG=1, MaxV=1, K=1))]


def main(chk):
    global CASES, SEED
    SEED = chk.seed
    cases, runs = oq.generate(chk, plans_for(chk), INVS, timeout=900 if chk.quick else 3000)
    # part 3: the many-to-many pair
    global MCASES
    sc = oq.scale()
    mplan = [("InitM2M", dict(oq.BASE, K=3 if chk.quick else 10, NQ=int((600 if chk.quick else 5000) * sc)))]
    mcases, mruns = oq.generate(chk, mplan, ["MTheorems"], timeout=600 if chk.quick else 1800)
    for r_ in mruns:
        r_["part"] = "many-to-many"
    MCASES = mcases
    mtot = dict(cases=0, api_runs=0, nontrivial=0, nested_nonempty=0, assoc_join_nonempty=0)
    for viol, mach, cnt in oq.pmap(worker_m2m, len(mcases)):
        if mach:
            chk.machinery("oracle calibration failed (many-to-many), first: %s" % mach[0])
        for sig, what, rp in viol:
            chk.violation(sig, what, rp)
        for k_ in mtot:
            mtot[k_] += cnt[k_]
    if oq.scale() >= 1 and not chk.violations:
        mcov = {}
        for c in mcases:
            if c["rows"]:
                key = "%s/%s" % (c["q"]["f"], "assoc-join" if c["q"]["ja"] else "plain")
                mcov[key] = mcov.get(key, 0) + 1
        for f in ("any", "anyc", "nanyc", "nest", "nestc", "cont", "ncont", "has", "nnone"):
            for j in ("plain",) + (() if f == "cont" else ("assoc-join",)):
                if not mcov.get("%s/%s" % (f, j)):
                    chk.machinery("vacuous: many-to-many form %s/%s never has a non-empty result" % (f, j))
    runs = runs + mruns
    rng = random.Random(chk.seed)
    rng.shuffle(cases)
    CASES = cases
    res = oq.pmap(worker, len(cases))
    tot = dict(cases=0, api_runs=0, nontrivial=0, entity_rows=0, sqlite_exists_quirk=0)
    for viol, mach, cnt in res:
        if mach:
            chk.machinery("oracle calibration failed (%d cases), first: %s" % (sum(len(m) for _, m, _ in res), mach[0]))
        for sig, what, rp in viol:
            chk.violation(sig, what, rp)
        for k_ in tot:
            tot[k_] += cnt[k_]
    cov = {}
    for c in cases:
        q = c["q"]
        for key in ("pf:" + q["pf"], "jn:" + q["jn"], "sel:" + q["sel"], "root:" + q["root"], "ord:" + q["ord"]):
            if c["rows"]:
                cov[key] = cov.get(key, 0) + 1
    need = (["pf:" + f for f in ("xeq", "xne", "xnull", "any", "anyc", "nanyc", "anyg", "cnt", "insub", "ninsub", "pnull", "has", "hasx",
                                 "nhasx", "uni", "cont")] +
            ["jn:" + j for j in oq.JDOWN + oq.JUP] + ["sel:" + s for s in ("ent", "cols", "x", "pair", "entcol", "grp", "entgrp")])
    for k_ in need:
        if oq.scale() >= 1 and not chk.violations and not cov.get(k_):
            chk.machinery("vacuous: no case with a non-empty result for " + k_)
    samples = [dict(ds=c["ds"], q=c["q"], rows=c["rows"]) for c in cases if len(c["rows"]) >= 2 and c["q"]["pf"] != "none"][:4]
    return chk.finish(
        dict(states=sum(r["distinct"] for r in runs), transitions=sum(r["generated"] for r in runs),
             traces_validated_against_impl=tot["cases"] + mtot["cases"], evaluations=tot["api_runs"] + mtot["api_runs"],
             distinct_nontrivial=tot["nontrivial"] + mtot["nontrivial"],
             m2m_cases=mtot["cases"], m2m_api_evaluations=mtot["api_runs"], m2m_nontrivial=mtot["nontrivial"],
             m2m_nested_any_nonempty=mtot["nested_nonempty"], m2m_assoc_join_nonempty=mtot["assoc_join_nonempty"],
             entity_rows_compared=tot["entity_rows"], sqlite_exists_quirk=tot["sqlite_exists_quirk"], samples=samples, tlc_runs=runs, form_coverage=cov, exhaustive=False,
             rule="one case per TLC initial state (data set x query); non-trivial = non-empty result of a query with a WHERE or JOIN form; each "
                  "case executed as Core (calibration) and through 10 ORM API paths, plain and with aliased entities",
             checker_cmd="tlc OrmQuery.tla (INIT InitGrid|InitRandom|InitExh, INVARIANT Theorems)"),
        assumptions=["SQLite only; bounded data sets (<=3 x <=3 x <=3 rows, values 1..2 + NULL); query grammar of OrmQuery.tla",
                     "legacy Query.all() de-duplicates rows that contain entities (documented): compared with the spec's `uniq`",
                     "queries without ORDER BY compared as multisets"])


# ============================================================================================ part 3: many-to-many
MCASES = []


class M2M:
    """I <-> O over the association table assoc(iid, oid); both directions mapped with secondary=, plus scalar views for has() / != None"""

    def __init__(self):
        import sqlalchemy as sa
        from sqlalchemy import orm
        from sqlalchemy.pool import StaticPool
        self.sa, self.orm = sa, orm
        md = sa.MetaData()
        self.i = sa.Table("i", md, sa.Column("id", sa.Integer, primary_key=True), sa.Column("x", sa.Integer))
        self.o = sa.Table("o", md, sa.Column("id", sa.Integer, primary_key=True), sa.Column("x", sa.Integer))
        self.a = sa.Table("assoc", md, sa.Column("iid", sa.Integer, sa.ForeignKey("i.id"), primary_key=True),
                          sa.Column("oid", sa.Integer, sa.ForeignKey("o.id"), primary_key=True))
        reg = orm.registry()

        class I:
            pass

        class O:
            pass
        reg.map_imperatively(I, self.i, properties=dict(
            rel=orm.relationship(O, secondary=self.a, back_populates="rel", order_by=self.o.c.id),
            one=orm.relationship(O, secondary=self.a, uselist=False, viewonly=True)))
        reg.map_imperatively(O, self.o, properties=dict(
            rel=orm.relationship(I, secondary=self.a, back_populates="rel", order_by=self.i.c.id),
            one=orm.relationship(I, secondary=self.a, uselist=False, viewonly=True)))
        reg.configure()
        self.I, self.O = I, O
        self.engine = sa.create_engine("sqlite://", poolclass=StaticPool, connect_args={"check_same_thread": False})
        md.create_all(self.engine)

    def load(self, ds):
        with self.engine.begin() as conn:
            for t in (self.a, self.i, self.o):
                conn.execute(t.delete())
            if ds["ni"]:
                conn.execute(self.i.insert(), [dict(id=n + 1, x=oq.n(v)) for n, v in enumerate(ds["ix"])])
            if ds["no"]:
                conn.execute(self.o.insert(), [dict(id=n + 1, x=oq.n(v)) for n, v in enumerate(ds["ox"])])
            if ds["link"]:
                conn.execute(self.a.insert(), [dict(iid=p[0], oid=p[1]) for p in ds["link"]])

    def orm_stmt(self, q):
        sa = self.sa
        R, T = (self.I, self.O) if q["root"] == "I" else (self.O, self.I)
        rfk, tfk = (self.a.c.iid, self.a.c.oid) if q["root"] == "I" else (self.a.c.oid, self.a.c.iid)
        f, v = q["f"], q["v"]
        if f == "any":
            crit = R.rel.any()
        elif f == "anyc":
            crit = R.rel.any(T.x == v)
        elif f == "nanyc":
            crit = ~R.rel.any(T.x == v)
        elif f == "nest":
            crit = R.rel.any(T.rel.any(R.id == v))
        elif f == "nestc":
            crit = R.rel.any(T.rel.any(R.x == v))
        elif f == "cont":
            crit = R.rel.contains(T(id=v))
        elif f == "ncont":
            crit = ~R.rel.contains(T(id=v))
        elif f == "has":
            crit = R.one.has(T.x == v)
        else:
            crit = R.one != None  # noqa: E711
        desc = q["ord"] == "idd"
        o = (lambda c: c.desc() if desc else c.asc())
        if q["ja"]:
            return sa.select(R, tfk).join(self.a, rfk == R.id).where(crit).order_by(o(R.id), o(tfk)), R
        return sa.select(R).where(crit).order_by(o(R.id)), R

    def core_stmt(self, q):
        """hand-built: every EXISTS over its own aliases of the association and entity tables"""
        sa = self.sa
        r, t = (self.i, self.o) if q["root"] == "I" else (self.o, self.i)
        fk = (lambda a, who: (a.c.iid if who is self.i else a.c.oid))
        f, v = q["f"], q["v"]
        a2, t2, a3, r3 = self.a.alias("a2"), t.alias("t2"), self.a.alias("a3"), r.alias("r3")

        def ex(*crit):
            return sa.exists(sa.select(sa.literal(1)).select_from(a2.join(t2, fk(a2, t) == t2.c.id)).where(fk(a2, r) == r.c.id, *crit))
        if f in ("any", "nnone"):
            crit = ex()
        elif f in ("anyc", "has"):
            crit = ex(t2.c.x == v)
        elif f == "nanyc":
            crit = ~ex(t2.c.x == v)
        elif f in ("nest", "nestc"):
            inner = sa.exists(sa.select(sa.literal(1)).select_from(a3.join(r3, fk(a3, r) == r3.c.id)).where(
                fk(a3, t) == t2.c.id, (r3.c.id == v) if f == "nest" else (r3.c.x == v)))
            crit = ex(inner)
        elif f == "cont":
            crit = ex(t2.c.id == v)
        else:
            crit = ~ex(t2.c.id == v)
        desc = q["ord"] == "idd"
        o = (lambda c: c.desc() if desc else c.asc())
        if q["ja"]:
            return sa.select(r.c.id, r.c.x, fk(self.a, t)).select_from(r.join(self.a, fk(self.a, r) == r.c.id)).where(crit).order_by(
                o(r.c.id), o(fk(self.a, t)))
        return sa.select(r.c.id, r.c.x).where(crit).order_by(o(r.c.id))


def worker_m2m(indices):
    import sqlalchemy as sa
    from sqlalchemy import orm
    oq.quiet()
    m = M2M()
    viol, mach = [], []
    cnt = dict(cases=0, api_runs=0, nontrivial=0, nested_nonempty=0, assoc_join_nonempty=0)
    for ci in indices:
        c = MCASES[ci]
        q, ds = c["q"], c["ds"]
        cnt["cases"] += 1
        m.load(ds)
        exp = [tuple(r) for r in c["rows"]]
        if exp:
            cnt["nontrivial"] += 1
            cnt["nested_nonempty"] += q["f"] in ("nest", "nestc")
            cnt["assoc_join_nonempty"] += bool(q["ja"])
        xs = ds["ix"] if q["root"] == "I" else ds["ox"]
        cstmt = m.core_stmt(q)
        with m.engine.connect() as conn:
            crow = conn.execute(cstmt).all()
        core = [((r[0],) + tuple(r[2:])) for r in crow]
        if core != exp or any(oq.z(r[1]) != xs[r[0] - 1] for r in crow):
            mach.append("calibration (many-to-many): Core rows %r, spec rows %r for q=%r ds=%r" % (core, exp, q, ds))
            continue
        sig = dict(spec="OrmQuery", part="m2m", root=q["root"], f=q["f"], ja=q["ja"], ord=q["ord"])
        try:
            stmt, R = m.orm_stmt(q)
            with orm.Session(m.engine) as s:
                rows = s.execute(stmt).all()
                got = [((r[0].id,) + tuple(r[1:])) for r in rows]
                vals_ok = all(oq.z(r[0].x) == xs[r[0].id - 1] for r in rows)
            apis = [("execute", got)]
            with orm.Session(m.engine) as s:
                apis.append(("scalars", [(e.id,) for e in s.scalars(stmt).all()] if not q["ja"] else got))
            with orm.Session(m.engine) as s:
                n = s.scalar(sa.select(sa.func.count()).select_from(stmt.order_by(None).subquery()))
                e = bool(s.scalar(sa.select(stmt.exists())))
            with orm.Session(m.engine) as s:
                qy = s.query(*stmt._raw_columns)
                if q["ja"]:
                    rfk = m.a.c.iid if q["root"] == "I" else m.a.c.oid
                    qy = qy.join(m.a, rfk == R.id)
                qy = qy.filter(*stmt._where_criteria).order_by(*stmt._order_by_clauses)
                lr = qy.all()
                apis.append(("Query.all", [((r[0].id,) + tuple(r[1:])) for r in lr] if q["ja"] else [(r.id,) for r in lr]))
                qn = qy.count()
            for api, g in apis:
                cnt["api_runs"] += 1
                if g != exp:
                    viol.append((dict(sig, action=api, kind="rows"),
                                 "many-to-many: %s returns %r, relational meaning (spec = Core) %r; q=%r ds=%r" % (api, g, exp, q, ds),
                                 dict(case=c, api=api, got=g, sql=str(stmt))))
            cnt["api_runs"] += 3
            if not vals_ok:
                viol.append((dict(sig, action="execute", kind="entity-values"), "many-to-many: entity attribute differs; q=%r ds=%r" % (q, ds), dict(case=c)))
            if n != c["count"] or qn != c["count"]:
                viol.append((dict(sig, action="count", kind="count"),
                             "many-to-many: count(*) over the statement = %r, Query.count() = %r, rows %d; q=%r ds=%r" % (n, qn, c["count"], q, ds),
                             dict(case=c)))
            if e != bool(exp):
                viol.append((dict(sig, action="select-exists", kind="exists"),
                             "many-to-many: EXISTS(stmt) = %r, rows %d; q=%r ds=%r" % (e, c["count"], q, ds), dict(case=c)))
        except Exception as ex_:
            import traceback
            viol.append((dict(sig, action="exception", kind=type(ex_).__name__),
                         "many-to-many: %s: %s for q=%r ds=%r" % (type(ex_).__name__, " ".join(str(ex_).split())[:300], q, ds),
                         dict(case=c, tb=traceback.format_exc()[-1500:])))
    return viol, mach, cnt
