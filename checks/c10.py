"""C10 Result objects deliver exactly the underlying rows under any access pattern - ResultCursor.tla (DESIGN 3.3, Appendix G)."""
import json
import os
import random
import time
from concurrent.futures import ThreadPoolExecutor

from engine import graph, tlc
from checks import resultcursor_driver as rd

LEVEL = "model_checking"
MANIFEST = dict(
    text="ResultCursor.tla is the mechanism of Result/ScalarResult/MappingResult (memoized row getters, the unique top-up loop of "
         "_manyrow_getter, _only_one_row, yield_per, partitions, columns, freeze, merge) over the raw layer of every fetch strategy "
         "(default cursor, BufferedRow with growing buffer, FullyBuffered, iterator/chunked/merged/frozen). TLC checks for every family and "
         "every row sequence of length 0..3 (quick) / 0..4 (thorough) over a 2-3 row domain with duplicates (and unhashable values) that each raw row is handed out at "
         "most once and in order, that every call returns the declaratively defined visible prefix (projected, de-duplicated), that rows are "
         "skipped only as duplicates or by first()/one()/close(), the exception classes of one()/first()/scalar_one() and that nothing is "
         "delivered after close. Every labelled edge of these state graphs is then replayed on 11 (quick) / 12 (thorough) real implementations in pure-Python mode "
         "and on the default strategy with the prebuilt compiled _result_cy/_row_cy, comparing each return value / exception class / closed "
         "flag and a final drain.",
    design_ref="3.3, 4 (C10), 6, Appendix G / G.2",
    note="trusted: TLC, sqlite3 cursor semantics (fetchmany(0) on the raw DBAPI cursor excluded: driver returns all rows); bounded rows/"
         "depth; one filtered view per walk; yield_per on ChunkedIteratorResult only before the first fetch (code comment: cannot change "
         "afterwards); 5 known findings (view unique() memo, FullyBuffered fetchmany(0), MergedResult close - fixed in /repo meanwhile; "
         "iterator held across close/exhaustion on cursor-backed and iterator-backed results)",
    technique="TLA+ spec (ResultCursor.tla) + TLC exhaustive model checking per family/scenario; spec->code replay of every state-graph "
              "edge into real Result objects (pure Python) and into the compiled binaries (default strategy)")

INVS = ["TypeOK"]
PROPS = ["PosMonotone", "DeliveredOnceInOrder", "ErrorsDeliverNothing", "ClosedIsFinal", "NothingAfterHard", "ListModel", "UniqueRespected",
         "NoSilentLoss", "OnlyOneSemantics", "AllCloses", "CloseCloses", "GenerativeMovesNothing", "FreezeKeepsVisible", "MergeKeepsRemaining"]
ALLSZ = {0, 1, 2, 5, 99}
# scenario -> (ops on the base Result, ops on the view, Sizes, PSizes)
SCEN = {
    "fetch": (["FetchOne", "Next", "IterStep", "FetchMany", "All", "First", "One", "OneOrNone", "Scalar", "ScalarOne", "ScalarOneOrNone",
               "Unique", "Close"], [], ALLSZ, {2}),
    "views": (["FetchOne", "All", "Unique", "Scalars", "Mappings"],
              ["FetchOne", "Next", "IterStep", "FetchMany", "All", "First", "One", "Unique", "Close"], {0, 2, 99}, {2}),
    "shape": (["FetchOne", "FetchMany", "Partitions", "All", "Unique", "Columns", "Tuples", "YieldPer", "Scalar"], [], ALLSZ, {0, 2, 99}),
    "shapev": (["FetchOne", "YieldPer", "Scalars", "Unique"], ["FetchMany", "Partitions", "All", "YieldPer", "Next"], {0, 1, 99}, {2, 99}),
    "compose": (["FetchOne", "FetchMany", "All", "Unique", "Freeze", "Merge", "One", "Columns"], [], {1, 99}, {2}),
    "iterhold": (["Iter", "ItNext", "FetchOne", "FetchMany", "All", "First", "Close", "Unique", "Scalars"], ["Iter", "FetchMany", "All", "Unique"],
                 {1, 99}, {2}),
    # unique() + sized fetches over LONGER row sets (4 rows, 3 distinct values): the refill loop of the unique many-row getter needs
    # a batch left short by duplicates followed by more new distinct rows than are missing (seeded change C10-1)
    "uniq": (["Unique", "FetchMany", "Partitions", "All", "YieldPer"], [], {2, 3}, {2}),
    "unhash": (["FetchOne", "FetchMany", "All", "Unique", "One", "Scalars", "Columns"], ["FetchMany", "All", "Next", "Unique"], {2, 99}, {2}),
}
FOOTPRINT = ["FetchOne", "Next", "IterStep", "Iter", "ItNext", "FetchMany", "Partitions", "All", "First", "One", "OneOrNone", "Scalar", "ScalarOne",
             "ScalarOneOrNone", "Unique", "Close", "YieldPer", "Scalars", "Mappings", "Tuples", "Columns", "Freeze", "Merge"]
ALL_IMPLS = ["iter", "chunk", "frozen", "merged", "cursor", "cursor_json", "cursor_merged", "stream1", "stream2", "stream3", "streamg", "full"]


def tier_plan(quick):
    """[(scenario, maxrows, calls per walk, ndom, impls, unhash)]"""
    if quick:
        return [
            ("fetch", 3, 4, 3, ["iter", "chunk", "frozen", "merged", "cursor", "cursor_json", "cursor_merged", "stream1", "stream2", "streamg",
                                "full"], False),
            ("views", 2, 4, 2, ["iter", "merged", "cursor", "full"], False),
            ("shape", 2, 4, 2, ["chunk", "iter@chunk", "merged@chunk", "cursor", "cursor_json", "streamg", "full"], False),
            ("shapev", 2, 4, 2, ["iter", "cursor", "stream1"], False),
            ("compose", 2, 4, 2, ["iter", "chunk", "cursor", "full"], False),
            ("unhash", 2, 3, 2, ["iter", "cursor_json"], True),
            ("iterhold", 2, 4, 2, ["iter", "merged", "cursor", "stream2", "full"], False),
            ("uniq", 4, 3, 3, ["iter", "chunk", "cursor", "stream2"], False),
        ]
    return [
        ("fetch", 4, 6, 3, ALL_IMPLS, False),
        ("views", 3, 4, 3, ["iter", "merged", "frozen", "cursor", "cursor_json", "full"], False),
        ("views", 2, 5, 2, ["stream1", "stream2", "streamg", "cursor_merged", "chunk"], False),
        ("shape", 3, 4, 2, ["iter", "frozen@chunk", "merged@chunk", "chunk", "cursor", "cursor_json", "stream1", "stream2", "streamg", "full"],
         False),
        ("shapev", 3, 4, 2, ["iter", "chunk", "cursor", "cursor_json", "stream1", "stream2", "full"], False),
        ("compose", 3, 4, 2, ["iter", "chunk", "frozen", "merged", "cursor", "cursor_json", "stream2", "streamg", "full"], False),
        ("unhash", 3, 4, 2, ["iter", "frozen", "cursor_json"], True),
        ("iterhold", 3, 4, 2, ["iter", "chunk", "frozen", "merged", "cursor", "cursor_json", "cursor_merged", "stream1", "stream2", "streamg",
                               "full"], False),
        ("uniq", 5, 4, 3, ["iter", "chunk", "cursor", "stream1", "stream2", "full"], False),
    ]


def consts(fams, scen, maxrows, depth, unhash, ndom=3, dev_view=False, dev_full=False):
    ops, vops, sizes, psizes = SCEN[scen]
    return dict(MaxRows=maxrows, MaxDepth=depth, Hi=2 if unhash else 1, NDom=ndom, UVals={2} if unhash else set(),
                Fams={tlc.q(f) for f in fams}, Ops={tlc.q(o) for o in ops}, ViewOps={tlc.q(o) for o in vops}, Sizes=set(sizes), PSizes=set(psizes),
                DevViewUniqueStale=dev_view, DevFullFetchmany0=dev_full)


def graph_plan(plan):
    """{gid: (consts, [(impl, cfg)], depth, unhash)} - one TLC run per (scenario, bounds, group of <= GROUP configurations)"""
    need = {}
    for scen, maxrows, depth, ndom, impls, unhash in plan:
        cfgs = {}
        for impl in impls:
            # "impl@cfg": replay impl on the walks of another configuration whose behaviours are a subset of its own (the chunk
            # configuration is the iter one minus yield_per() after the first fetch)
            impl, _, over = impl.partition("@")
            cfg = over or rd.cfg_of(impl)
            if cfg == "chunk" and "YieldPer" not in SCEN[scen][0] + SCEN[scen][1]:
                cfg = "iter"        # ChunkedIteratorResult differs from IteratorResult only in yield_per()
            cfgs.setdefault(cfg, []).append(impl)
        names = sorted(cfgs)
        for k in range(0, len(names), GROUP):
            grp = names[k:k + GROUP]
            gid = "%s%d%d%d-%d" % (scen, maxrows, depth, ndom, k // GROUP)
            need[gid] = (consts(grp, scen, maxrows, depth, unhash, ndom), [(i, c) for c in grp for i in cfgs[c]], depth, unhash)
    return need


GROUP = 3      # configurations per TLC run (one single-worker JVM dumps the edges of up to GROUP families)


def _prepare(args):
    """TLC model check + edge dump of one graph, tour planning, job file; the graph itself is dropped (memory)"""
    gid, c, impls, depth, unhash, work, seed, quick = args
    cfgt = tlc.cfg(constants=c, init="InitEmit", invariants=INVS, properties=PROPS, view="View", action_constraints=["Emit"],
                   constraints=["Depth"])
    g = rd.dump_compact("ResultCursor", cfgt, os.path.join(work, "tlc_" + gid), timeout=3000, heap="3g")
    r = g.tlc
    rng = random.Random("C10/%s/%s" % (seed, gid))
    walks, st = graph.plan_tours(g, depth, rng)
    ntour = len(walks)
    walks += rd.memo_walks(g, depth, rng)
    st["memo_walks"] = len(walks) - ntour
    walks += graph.random_walks(g, max(50, ntour // 4), depth, rng)
    job = rd.slim(g, walks, uvals=(2,) if unhash else ())
    files = rd.write_jobs(work, {gid: job})
    cov = {}
    for e in g.edges:
        cov[e[1]["a"]] = cov.get(e[1]["a"], 0) + 1
    ws = sorted(job["walks"].items())[0][1]
    w = ws[len(ws) // 2]
    sample = {"graph": gid, "rows": g.states[g.edges[w[0]][0]]["rows"],
              "calls": ["%s%s(%s)->%s" % ("v." if g.edges[ei][1]["h"] == "v" else "", g.edges[ei][1]["a"], g.edges[ei][1]["arg"],
                                          rd._show(g.edges[ei][1]["ret"])) for ei in w]}
    return gid, dict(file=files[gid], distinct=r.distinct, generated=r.generated, violated=r.violated, depth=r.depth, wall=round(r.wall, 1),
                     edges=len(g.edges), plan=st, cov=cov, sample=sample,
                     nontriv=sum(1 for e in g.edges if e[1]["idx"] or e[1]["ret"]["k"] == "err"),
                     est={cfg: rd.job_steps(job, cfg) for _, cfg in impls})


def build_graphs(chk, plan):
    """Runs TLC for every graph of the plan (a few JVMs side by side) and leaves one job file per graph in chk.work.
    Returns {gid: info}, {gid: (consts, [(impl, cfg)], depth, unhash)}"""
    need = graph_plan(plan)
    par = max(1, min(len(need), tlc.NPROC // 2 if tlc.NPROC > 2 else 1, 6 if chk.quick else 3))
    with ThreadPoolExecutor(par) as ex:
        info = dict(ex.map(_prepare, [(gid, v[0], v[1], v[2], v[3], chk.work, chk.seed, chk.quick) for gid, v in need.items()]))
    return info, need


def sig_of(m, mode):
    s = {"spec": "ResultCursor", "kind": "conformance", "mode": mode, "impl": m["impl"], "action": m["act"]["a"], "h": m["act"]["h"],
         "arg": json.dumps(m["act"]["arg"]), "scenario": m["gid"].split("-")[0].rstrip("0123456789")}
    s.update(m.get("labels") or {})
    return s


def report(chk, mism, mode):
    for m in mism:
        chk.violation(sig_of(m, mode),
                      "real %s (%s) diverges from ResultCursor.tla: %s [rows %s, calls %s]" % (
                          m["impl"], mode, m["mismatch"].split("\n")[0], json.dumps(m["rows"]),
                          " ".join("%s%s(%s)" % ("v." if h == "v" else "", a, "" if arg in (0, None) and a not in ("FetchMany", "Partitions")
                                                 else ("None" if arg == 99 else json.dumps(arg))) for a, h, arg in m["walk"])), m)


def replay_compiled(chk, files, plan, est, shards=2):
    """Replay plan = [(gid, impl, cfg)] over the job files {gid: path} written by build_graphs in fresh interpreters that keep the prebuilt
    compiled _result_cy/_row_cy (VERIF_COMPILED=1); est = {(gid, cfg): steps} balances the shards.
    Returns {steps, walks, mismatches, per_impl, wall}.  Used by C10; C55 can call build_graphs + replay_compiled with its own plan."""
    hs = [rd.launch(chk.work, "c%d" % i, files, sl, compiled=True) for i, sl in enumerate(rd.split(plan, est, shards))]
    return _gather(chk, hs)


def _gather(chk, handles):
    out = {"steps": 0, "walks": 0, "mismatches": [], "per_impl": {}, "wall": 0.0}
    for h in handles:
        try:
            r = rd.collect(h)
        except RuntimeError as e:
            for h2 in handles:
                if h2["proc"].poll() is None:
                    h2["proc"].kill()
            chk.machinery(str(e))
        out["steps"] += r["steps"]
        out["walks"] += r["walks"]
        out["mismatches"] += r["mismatches"]
        out["wall"] = max(out["wall"], r["wall"])
        for k, v in r["per_impl"].items():
            out["per_impl"][k] = out["per_impl"].get(k, 0) + v
    return out


def replay(chk, path):
    """./check C10 --replay replays/C10/<hash>.json : re-execute the recorded failing walks against the current tree"""
    with open(path) as f:
        data = json.load(f)
    n = still = 0
    for case in data.get("cases", []):
        m = case["replay"]
        if "trace" not in m:
            continue
        n += 1
        bad = rd.rerun(m)
        if bad:
            still += 1
            chk.violation(dict(case["sig"], **(bad[1] or {})), "still diverges: %s [impl %s rows %s]" % (bad[0], m["impl"], json.dumps(m["rows"])), m)
    return chk.finish(dict(replayed=n, still_diverging=still, samples=[path], rule="recorded failing walks re-executed"), assumptions=[])


def main(chk):
    # chk.seed seeds the per-graph planners (_prepare)
    t0 = time.time()
    plan = tier_plan(chk.quick)
    # 1. TLC: model check every graph against the abstract property, dump its labelled edges, plan the tours (every edge, memo-aware
    #    triples, seeded random walks) and write one job file per graph
    info, need = build_graphs(chk, plan)
    states = transitions = nedges = nontriv = 0
    cov, plans, est, files, rplan = {}, {}, {}, {}, []
    for gid in sorted(info):
        i = info[gid]
        states += i["distinct"]
        transitions += i["generated"]
        nedges += i["edges"]
        nontriv += i["nontriv"]
        plans[gid] = i["plan"]
        files[gid] = i["file"]
        if i["violated"]:
            chk.violation({"spec": "ResultCursor", "action": "TLC", "invariant": i["violated"], "graph": gid},
                          "TLC: %s violated in ResultCursor.tla (%s)" % (i["violated"], gid))
        for a, n in i["cov"].items():
            cov[a] = cov.get(a, 0) + n
        st = i["plan"]
        if st["edges_covered"] + st["edges_beyond_depth"] != st["edges"]:
            chk.machinery("tour planner left edges uncovered in %s: %r" % (gid, st))
        for impl, cfg in need[gid][1]:
            rplan.append((gid, impl, cfg))
            est[(gid, cfg)] = i["est"][cfg]
            if not est[(gid, cfg)]:
                chk.machinery("no walks for configuration %s in %s" % (cfg, gid))
    for a in FOOTPRINT:
        if not cov.get(a):
            chk.machinery("vacuous: action %s never taken" % a)
    t_tlc = time.time() - t0
    # pure-Python shards and compiled shards (default strategy: second binding, feeds C55) run side by side in fresh interpreters
    t1 = time.time()
    cplan = [it for it in rplan if it[1] in ("cursor", "cursor_json")]
    nsh = max(1, min(tlc.NPROC - 2, 8 if chk.quick else 6))
    hp = [rd.launch(chk.work, "p%d" % i, files, sl) for i, sl in enumerate(rd.split(rplan, est, nsh))]
    hc = [rd.launch(chk.work, "c%d" % i, files, sl, compiled=True) for i, sl in enumerate(rd.split(cplan, est, 2))]
    # 3. meanwhile: the properties are not vacuous - under each named deviation (= the pinned tree's behaviour) TLC must find the violation
    sens = {}
    for name, c, expect in [
        ("view-unique-stale-memo", consts(["iter"], "views", 2, 4, False, 2, dev_view=True), ("ListModel", "UniqueRespected")),
        ("full-fetchmany0", consts(["full"], "fetch", 2, 3, False, 2, dev_full=True), ("NoSilentLoss", "ListModel")),
    ]:
        cfg2 = tlc.cfg(constants=c, init="Init", invariants=INVS, properties=list(expect), view="View", constraints=["Depth"])
        r2 = tlc.run("ResultCursor", cfg2, os.path.join(chk.work, "sens_" + name), workers=2, timeout=900, keep_stdout=False, heap="3g")
        sens[name] = r2.violated
        if not r2.violated or not any(x in r2.violated for x in expect):
            chk.machinery("property layer insensitive: deviation %s did not violate %s (TLC said %r)" % (name, expect, r2.violated))
    pres = _gather(chk, hp)
    cres = _gather(chk, hc)
    t_replay = time.time() - t1
    report(chk, pres["mismatches"], "pure")
    report(chk, cres["mismatches"], "compiled")
    # evidence
    sample = [info[gid]["sample"] for gid in sorted(info)[:3]]
    return chk.finish(
        dict(states=states, transitions=transitions, graphs=len(info), edges=nedges,
             traces_validated_against_impl=pres["walks"] + cres["walks"], evaluations=pres["steps"] + cres["steps"],
             steps_pure=pres["steps"], steps_compiled=cres["steps"], distinct_nontrivial=nontriv,
             implementations=len(set(it[1] for it in rplan)), per_impl_steps=pres["per_impl"], per_impl_steps_compiled=cres["per_impl"],
             samples=sample, plans=plans, action_coverage=cov, sensitivity_runs=sens, exhaustive=True,
             tlc_runs={g_: dict(states=info[g_]['distinct'], edges=info[g_]['edges'], wall=info[g_]['wall']) for g_ in info},
             wall_tlc_s=round(t_tlc, 1), wall_replay_s=round(t_replay, 1),
             rule="every labelled edge of every ResultCursor state graph (per scenario; initial states = all row sequences up to the bound "
                  "x implementation configurations) is covered by a walk from an initial state and replayed on every implementation of that family; "
                  "non-trivial = edges on which rows are delivered or an exception is raised",
             checker_cmd="tlc ResultCursor.tla (VIEW View, ACTION_CONSTRAINT Emit), one run per scenario x group of configurations"),
        assumptions=["SQLite/sqlite3 only; raw DBAPI cursor.fetchmany(0) (returns all rows in sqlite3) excluded for the default strategy",
                     "rows are pairs over a 2-value domain (2-3 distinct rows, duplicates by construction); unhashable values as JSON lists",
                     "one filtered view per walk; base yield_per() only before a view exists; ChunkedIteratorResult.yield_per only before "
                     "the first fetch; a held iterator is dropped when its Result is re-generated (unique/columns/yield_per)",
                     "bounds (scenario, max rows, calls per walk, distinct rows, implementations): %s" % json.dumps(
                         [(s_, r_, d_, n_, len(i_)) for s_, r_, d_, n_, i_, _ in plan])])
