"""C29 clause (a), ORM part: walks of OrmSession.tla (the specification of the SYNC Session, verified for C33-C35) replayed
through AsyncSession with the same expected outcomes and observations.

AsyncReal reuses checks.ormsession_driver.Real: the engine is an AsyncEngine's sync_engine (same statement counter listener),
the Session that Real.reset() creates (with its lifecycle listeners) becomes the sync_session of an AsyncSession, and
`self.session` IS that AsyncSession - add / expunge / expire / expire_all and every observer are the proxied sync members,
delete / flush / commit / rollback / begin_nested / close / refresh / get return awaitables, which `call` runs to completion
on the driver's own event loop.  Fault injection (Fail / Redo) is not part of the sample.
"""
import asyncio
import inspect
import sqlite3
import warnings

from checks.ormsession_driver import Driver, Real, _rows, init_pks


async def _await(x):
    return await x


class AsyncReal(Real):
    def __init__(self, workdir, name="db", impl="aiosqlite"):
        import sqlalchemy as sa
        from sqlalchemy.ext.asyncio import create_async_engine
        self.loop = asyncio.new_event_loop()
        self.asession = None
        kw = {}
        if impl == "fake":
            from sqlalchemy.dialects.sqlite.aiosqlite import AsyncAdapt_aiosqlite_dbapi
            from checks.async_fakedriver import make_fake
            kw["module"] = AsyncAdapt_aiosqlite_dbapi(make_fake(), sqlite3)
        orig = sa.create_engine

        def mk(url, **k):
            self.aengine = create_async_engine(url.replace("sqlite://", "sqlite+aiosqlite://", 1), **k, **kw)
            return self.aengine.sync_engine

        sa.create_engine = mk           # Real.__init__ builds its engine through sa.create_engine and hangs its listener on it
        try:
            Real.__init__(self, workdir, name)
        finally:
            sa.create_engine = orig

    def run(self, aw):
        return self.loop.run_until_complete(_await(aw))

    def reset(self, pks, expire_on_commit=True, rows=None):
        from sqlalchemy.ext.asyncio import AsyncSession
        Real.reset(self, pks, expire_on_commit=expire_on_commit, rows=rows)
        sync = self.session
        self.asession = AsyncSession(self.aengine, sync_session_class=lambda **kw: sync)
        assert self.asession.sync_session is sync
        self.session = self.asession

    def dispose_session(self):
        if self.asession is not None:
            try:
                self.run(self.asession.close())
            except Exception:      # noqa
                pass
            self.asession = None
        self.session = None
        Real.dispose_session(self)

    def close(self):
        self.dispose_session()
        try:
            self.run(self.aengine.dispose())
        except Exception:      # noqa
            pass
        self.loop.close()

    def call(self, fn):
        self.events = []
        self.nsql = 0
        self.ndml = 0
        self.stmts = []
        with warnings.catch_warnings(record=True) as w:
            warnings.simplefilter("always")
            try:
                res = fn()
                if inspect.isawaitable(res):
                    res = self.run(res)
                ret = "ok"
            except Exception as e:      # noqa
                res = e
                ret = type(e).__name__
        self.fail_at = 0
        self.fail_after_flush = False
        self.warned = [str(x.message)[:80] for x in w if issubclass(x.category, self.sa.exc.SAWarning)]
        return ret, res

    def work(self):
        s = self.asession
        if not s.in_transaction() or not s.is_active:
            return None
        self.counting = False
        try:
            async def go():
                conn = await s.connection()
                res = await conn.exec_driver_sql("select id, v from t")
                return {r[0]: r[1] for r in res.all()}
            return self.run(go())
        finally:
            self.counting = True


class AsyncOrmDriver(Driver):
    def __init__(self, wid, workdir, eoc=True, impl="aiosqlite"):
        self.real = AsyncReal(workdir, "db%d_%s" % (wid, impl), impl=impl)
        self.eoc = eoc

    def reset(self, state):
        objs = sorted(state["life"].keys())
        self.broken = None
        try:
            self.real.reset(init_pks(objs), expire_on_commit=self.eoc)
        except Exception as e:      # noqa
            self.broken = "AsyncSession could not be set up: %r" % (e,)

    def step(self, frm, act, to):
        if self.broken:
            return self.broken
        return Driver.step(self, frm, act, to)

    def finish(self, state):
        if self.broken:
            return self.broken
        try:
            return self._finish(state)
        except Exception as e:      # noqa  - the drain itself failing is a divergence, not a harness crash
            return "drain raised %r" % (e,)

    def _finish(self, state):
        """drain as in the sync driver: commit a clean session / roll anything else back, then a fresh AsyncSession must load
        exactly the committed rows"""
        r = self.real
        if state.get("taint"):
            return None
        clean = (not state["new"]) and (not state["sdel"]) and not any(
            state["mod"][o] and state["key"][o] != 0 and state["imap"][state["key"][o] - 1] == o for o in state["life"])
        if clean and not state["needrb"]:
            ret = r.do("Commit")
            expect = _rows(state["work"])
        else:
            ret = r.do("Rollback")
            expect = _rows(state["committed"])
        if ret != "ok":
            return "drain %s raised %s" % ("commit" if clean else "rollback", ret)
        if r.committed() != expect:
            return "drain: committed rows %r, spec %r" % (r.committed(), expect)
        from sqlalchemy.ext.asyncio import AsyncSession

        async def load():
            async with AsyncSession(r.aengine) as s2:
                return {x.id: x.v for x in (await s2.execute(r.sa.select(r.T))).scalars().all()}
        r.counting = False
        try:
            got = r.run(load())
        finally:
            r.counting = True
        if got != expect:
            return "drain: fresh AsyncSession loads %r, spec %r" % (got, expect)
        return None
