"""C26 the pool recovers from any fault without leaking or reusing dead connections - PoolSeq.tla (DESIGN 3.5, Appendix H).

State-graph pattern: PoolSeq.tla is the sequential pool (one caller); every public operation is one action and every DBAPI call
made inside it (connect / ping / rollback / commit / close) is an environment choice ok | fail, as are the outcomes of a checkout
listener (ok | DisconnectionError | InvalidatePoolError | other exception), hard / soft invalidation, pool-wide invalidation,
garbage-collected checkouts and the clock jumping past pool_recycle.  TLC checks NoLeak, LedgerOK, CountOK, OpenBound, IdleBound,
Distinct, NoStale, FailedCheckoutClean, NoSpuriousError, TimeoutOnlyAtLimit on every configuration and dumps every labelled edge;
edge-covering tours (+ random walks) are replayed against the REAL QueuePool / AsyncAdaptedQueuePool / NullPool / StaticPool /
SingletonThreadPool over the fake DBAPI, whose fault plan is dictated by the edge; after every step outcome class, DBAPI call
sequence, connection id handed out, checkedout()/checkedin()/overflow(), ledger and held connections are compared; every walk ends
with a drain that re-asserts NoLeak / NoStale on the real ledger.
"""
import concurrent.futures as cf
import os
import random

from engine import graph, tlc

LEVEL = "model_checking"
MANIFEST = dict(
    text="PoolSeq.tla is the sequential mechanism of pool/base.py + pool/impl.py (checkout with the two-attempt pre-ping / checkout-listener "
         "loop, get_connection recycle branches, _checkin_failed, reset-on-return, invalidate hard/soft, Pool._invalidate, finalizer "
         "check-in, overflow accounting) with a fault choice at EVERY DBAPI call (ordinary errors everywhere; a BaseException "
         "that is not an Exception at the full-queue close and at reset-on-return; a raising `close` listener); TLC checks per configuration (pool class x pre_ping x "
         "recycle x reset style x LIFO x listener) that once every holder released checkedout()=0 and every opened connection is idle or "
         "closed, and that no invalidated / pool-invalidated / over-age connection is handed out.  Every edge of every graph (quick ~29k, "
         "thorough ~440k edges) is replayed against the real QueuePool, AsyncAdaptedQueuePool, NullPool, StaticPool, SingletonThreadPool "
         "comparing outcome, DBAPI call sequence, connection ids, counters and the open/closed ledger after every step.",
    design_ref="3.5, 4 (C25/C26), 2.6, Appendix H",
    note="trusted: TLC, the fake DBAPI and its ledger, virtual time (every time.time() call yields a larger value - the code's documented "
         "assumption); one caller (interleavings are C25); walks <= 7 (quick) / 9 (thorough) operations, <= 3-4 checkouts; named deviations: "
         "asyncio GC clean-up drops the connection without close (documented warning), StaticPool drops a soft/pool-invalidated record "
         "without closing it (class documents invalidation as only partially supported)",
    technique="TLA+ spec (PoolSeq.tla) + TLC exhaustive model checking per configuration; spec->code replay of every state-graph edge "
              "into the real pool classes with the fake DBAPI's fault plan dictated by the edge")

INVS = ["NoLeak", "LedgerOK", "AbandonedOnlyDocumented", "CountOK", "OpenBound", "IdleBound", "Distinct"]
PROPS = ["NoStale", "FailedCheckoutClean", "NoSpuriousError", "TimeoutOnlyAtLimit", "ReleaseRaisesOnlyInjected", "ReleaseAlwaysReleases"]
BASE = ("fullclose", "reset")
ALLF = ("connect", "ping", "rollback", "commit", "close")


def conf(label, kind="queue", size=1, maxo=1, lifo=False, preping=False, recycle=False, reset="rollback", async_=False, ck=(), faults=ALLF,
         maxh=3, maxlive=None, maxconn=8, depth=6, real=None, base=(), close_listener=False):
    if maxlive is None:
        maxlive = size + (0 if maxo == 9 else maxo) + 1 if kind == "queue" else (1 if kind in ("static", "singleton") else 2)
    q = tlc.q
    consts = dict(Kind=q(kind), Size=size, MaxO=maxo, Lifo=lifo, PrePing=preping, Recycle=recycle, ResetOn=q(reset), Async=async_,
                  CkEvents={q(x) for x in ck}, FaultCalls={q(x) for x in faults}, BaseFaults={q(x) for x in base}, CloseListener=close_listener,
                  MaxH=maxh, MaxLive=maxlive, MaxConn=maxconn, MaxDepth=depth)
    drv = dict(kind=real or kind, size=size, maxo=maxo, lifo=lifo, preping=preping, recycle=recycle, reset=reset, async_=async_, ck=list(ck),
               close_listener=close_listener)
    return dict(label=label, consts=consts, drv=drv, depth=depth)


def configs(quick):
    if quick:
        return [
            conf("QueuePool size1 maxo1 pre_ping recycle rollback, faults at every call + BaseException at full-queue close and reset",
                 preping=True, recycle=True, depth=7, base=BASE),
            conf("QueuePool size1 maxo1 with a raising `close` listener + BaseException at full-queue close, connect/close faults",
                 faults=("connect", "close"), base=("fullclose",), close_listener=True, depth=6),
            conf("QueuePool size2 maxo0 LIFO, checkout listener ok/disc/invpool, connect faults", size=2, maxo=0, lifo=True,
                 ck=("ok", "disc", "invpool"), faults=("connect",), depth=5),
            conf("QueuePool size1 maxo1 pre_ping + listener ok/err/disc, connect+ping faults", preping=True, ck=("ok", "err", "disc"),
                 faults=("connect", "ping"), depth=5),
            conf("QueuePool size1 maxo0 reset commit", maxo=0, reset="commit", depth=6),
            conf("QueuePool size1 unlimited overflow, no reset", maxo=9, reset="none", depth=6),
            conf("AsyncAdaptedQueuePool (async dialect, event loop with virtual time) size1 maxo1", async_=True, real="asyncqueue", depth=6),
            conf("NullPool", kind="null", depth=6),
            conf("StaticPool recycle", kind="static", recycle=True, depth=7),
            conf("SingletonThreadPool pre_ping (one thread)", kind="singleton", preping=True, depth=7),
        ]
    return [
        conf("QueuePool size1 maxo1 pre_ping recycle rollback, faults at every call", preping=True, recycle=True, depth=9, maxh=4, maxconn=10),
        conf("QueuePool size1 maxo1 pre_ping recycle rollback, faults at every call + BaseException at full-queue close and reset",
             preping=True, recycle=True, depth=8, base=BASE),
        conf("QueuePool size1 maxo1 with a raising `close` listener + BaseException at full-queue close and reset, faults at every call",
             base=BASE, close_listener=True, depth=7),
        conf("QueuePool size1 maxo2 reset commit, BaseException at full-queue close and reset", maxo=2, reset="commit", base=BASE,
             faults=("connect", "commit", "close"), depth=7, maxh=4, maxconn=9),
        conf("QueuePool size2 maxo1 FIFO recycle, faults at every call + BaseException at full-queue close", size=2, maxo=1, recycle=True,
             depth=7, maxh=4, maxconn=9, base=("fullclose",)),
        conf("QueuePool size2 maxo0 LIFO, checkout listener ok/disc/invpool, connect faults", size=2, maxo=0, lifo=True,
             ck=("ok", "disc", "invpool"), faults=("connect",), depth=7),
        conf("QueuePool size1 maxo1 pre_ping + listener ok/err/disc/invpool, faults at every call", preping=True,
             ck=("ok", "err", "disc", "invpool"), depth=5),
        conf("QueuePool size1 maxo0 reset commit pre_ping", maxo=0, reset="commit", preping=True, depth=8),
        conf("QueuePool size1 unlimited overflow, no reset, recycle", maxo=9, reset="none", recycle=True, depth=8),
        conf("AsyncAdaptedQueuePool (async dialect, event loop with virtual time) size1 maxo1 pre_ping recycle", async_=True, real="asyncqueue",
             preping=True, recycle=True, depth=8),
        conf("AsyncAdaptedQueuePool size2 maxo0 LIFO listener", async_=True, real="asyncqueue", size=2, maxo=0, lifo=True,
             ck=("ok", "disc"), faults=("connect",), depth=6),
        conf("NullPool pre_ping + listener", kind="null", preping=True, ck=("ok", "disc", "invpool"), depth=6),
        conf("NullPool recycle reset commit", kind="null", recycle=True, reset="commit", depth=8),
        conf("StaticPool recycle pre_ping", kind="static", recycle=True, preping=True, depth=9, maxh=4, maxconn=10),
        conf("StaticPool listener ok/disc/invpool", kind="static", ck=("ok", "disc", "invpool"), faults=("connect", "close"), depth=6),
        conf("SingletonThreadPool pre_ping recycle (one thread)", kind="singleton", preping=True, recycle=True, depth=9, maxh=4, maxconn=10),
        conf("SingletonThreadPool listener (one thread)", kind="singleton", ck=("ok", "disc", "err"), faults=("connect", "rollback"), depth=6),
    ]


def dump_one(args):
    i, c, work = args
    cfgt = tlc.cfg(constants=c["consts"], init="InitEmit", invariants=INVS, properties=PROPS, view="View", action_constraints=["Emit"],
                   constraints=["Depth"])
    return graph.dump("PoolSeq", cfgt, os.path.join(work, "g%d" % i), timeout=1700, heap="4g")


def main(chk):
    from checks.pool_seqdriver import SeqDriver
    rng = random.Random(chk.seed)
    cfgs = configs(chk.quick)
    W = tlc.NPROC
    with cf.ThreadPoolExecutor(max_workers=max(1, min(len(cfgs), W))) as ex:
        graphs = list(ex.map(dump_one, [(i, c, chk.work) for i, c in enumerate(cfgs)]))
    states = trans = edges = steps = nwalks = 0
    detail, cov, fault_cov, ev_cov = [], {}, {}, {}
    nontriv = 0
    samples = []
    for i, (c, g) in enumerate(zip(cfgs, graphs)):
        r = g.tlc
        if r.violated:
            chk.violation({"spec": "PoolSeq", "action": "TLC", "invariant": r.violated, "config": c["label"]},
                          "TLC: %s violated in PoolSeq.tla (%s)" % (r.violated, c["label"]))
        states += r.distinct
        trans += r.generated
        edges += len(g.edges)
        for e in g.edges:
            a = e[1]
            k = a["a"] + ":" + a["ret"] + (":soft" if a["soft"] else "")
            cov[k] = cov.get(k, 0) + 1
            failed = [n for n, f in zip(a["calls"], a["plan"]) if f != "ok"]
            for n, f in zip(a["calls"], a["plan"]):
                if f != "ok":
                    k2 = n if f == "fail" else n + ":" + f
                    fault_cov[k2] = fault_cov.get(k2, 0) + 1
            for o in a["evs"]:
                ev_cov[o] = ev_cov.get(o, 0) + 1
            if failed or any(o != "ok" for o in a["evs"]) or a["a"] in ("Invalidate", "PoolInvalidate", "Drop", "Sleep"):
                nontriv += 1
        walks, plan = graph.plan_tours(g, c["depth"], rng)
        extra = graph.random_walks(g, 150 if chk.quick else 1500, c["depth"], rng)
        drv = c["drv"]
        # in-process on purpose: one step costs ~30 us here, while forked workers pay copy-on-write for every reference count they
        # touch in the inherited state graph (measured 20-40x slower per step, most of it system time)
        st, mism = graph.replay(g, walks + extra, lambda wid, wd, drv=drv: SeqDriver(wid, wd, drv), os.path.join(chk.work, "replay%d" % i), nproc=1)
        steps += st
        nwalks += len(walks) + len(extra)
        detail.append({"config": c["label"], "distinct": r.distinct, "generated": r.generated, "edges": len(g.edges),
                       "edges_covered": plan["edges_covered"], "walks": len(walks) + len(extra), "steps": st, "mismatches": len(mism)})
        if plan["edges_covered"] + plan["edges_filtered"] < plan["edges"]:
            chk.machinery("tour planner left %d edges of %s uncovered" % (plan["edges"] - plan["edges_covered"], c["label"]))
        for m in mism:
            a = m["act"] if isinstance(m["act"], dict) else {"a": m["act"], "ret": None}
            failed = [n + ("" if f == "fail" else ":" + f) for n, f in zip(a.get("calls", []), a.get("plan", [])) if f != "ok"]
            chk.violation({"spec": "PoolSeq", "action": a["a"], "ret": a.get("ret"), "kind": "conformance", "impl": drv["kind"],
                           "failed_calls": ",".join(failed), "listener": ",".join(a.get("evs", [])), "config": c["label"]},
                          "real %s diverges from PoolSeq.tla at %s: %s" % (drv["kind"], a["a"], m["mismatch"]), dict(m, config=c))
        if walks and len(samples) < 3:
            w = max(walks, key=len)
            samples.append({"config": c["label"],
                            "walk": ["%s(h%d)%s plan=%s evs=%s -> %s%s" % (
                                g.edges[ei][1]["a"], g.edges[ei][1]["h"], " soft" if g.edges[ei][1]["soft"] else "",
                                "".join({"ok": ".", "fail": "F", "base": "B", "raise": "R"}[f] for f in g.edges[ei][1]["plan"]),
                                ",".join(g.edges[ei][1]["evs"]),
                                g.edges[ei][1]["ret"], (" conn %d" % g.edges[ei][1]["conn"]) if g.edges[ei][1]["conn"] else "") for ei in w]})
    # vacuity: the footprint of the property occurs on edges
    need = ["Checkout:ok", "Checkout:Error", "Checkout:TimeoutError", "Checkout:InvalidRequestError", "Close:ok", "Drop:ok", "Invalidate:ok",
            "Invalidate:ok:soft", "PoolInvalidate:ok", "Sleep:ok"]
    for k in need:
        if not cov.get(k):
            chk.machinery("vacuous: no edge %s" % k)
    for k in ALLF + ("close:base", "rollback:base", "lclose:raise"):
        if not fault_cov.get(k):
            chk.machinery("vacuous: no edge with a failing %s" % k)
    for k in ("Close:Base", "Close:Error", "Drop:unraisable"):
        if not cov.get(k):
            chk.machinery("vacuous: no edge %s (exception escaping from a release)" % k)
    for k in ("disc", "invpool", "err"):
        if not ev_cov.get(k):
            chk.machinery("vacuous: no edge with checkout-listener outcome %s" % k)
    return chk.finish(
        dict(states=states, transitions=trans, edges=edges, traces_validated_against_impl=nwalks, evaluations=steps,
             distinct_nontrivial=nontriv, graphs=detail, action_coverage=cov, failing_dbapi_calls_on_edges=fault_cov,
             listener_outcomes_on_edges=ev_cov, samples=samples, exhaustive=True,
             rule="every labelled edge of every PoolSeq state graph (one graph per pool class / configuration) is covered by a walk from the "
                  "empty pool and replayed against the real pool; non-trivial = the edge injects a DBAPI fault or a listener disconnect, or is an "
                  "invalidation / pool invalidation / dropped reference / recycle jump",
             checker_cmd="tlc PoolSeq.tla (VIEW View, ACTION_CONSTRAINT Emit, -workers 1) per configuration"),
        assumptions=["one caller (thread schedules are C25); fake DBAPI; virtual time with strictly increasing stamps",
                     "bounded walks and handles per configuration (see graphs[].config)",
                     "named deviations modelled, not flagged: asyncio GC clean-up drops the connection without close (documented warning); "
                     "StaticPool drops a soft/pool-invalidated record without closing it (documented partial support)",
                     "SingletonThreadPool exercised from one thread, StaticPool / SingletonThreadPool with one live checkout at a time"])
