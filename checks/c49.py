"""C49 Mutable column values propagate in-place changes to the database - PyCollections.tla (DESIGN 3.10, 4 "C49, C50, C54").

* single operations (exhaustive argument space of InitSlice / InitListOps / InitSetOps / InitDictOps, calibrated against the
  builtins): every mutating method and augmented-assignment operator of list / set / dict applied to a MutableList /
  MutableSet / MutableDict attribute must give the builtin's contents / return / exception AND leave the parent flagged
  modified (state.modified, attribute history) whenever the model value changed; a coerced replacement stays tracked.
* walks (NextMutList / NextMutSet / NextMutDict / NextMutComp: in-place operations interleaved with Persist = flush+commit,
  Expire, PickleRoundTrip, Merge into a new session; TLC checks NoUntrackedChange, MutationMarks, MPersistStores,
  MExpireReloads, MPickleMergeKeep, DbOnlyByPersist): every edge replayed on a real SQLite file - after each step the
  attribute value, `obj in session.dirty` whenever the spec says the value is out of sync, and after every Persist the value a
  SECOND raw connection decodes from the row (JSON / pickle / composite columns).
"""
import random
import time

from checks import pycoll_common as pc

LEVEL = "model_checking"
MANIFEST = dict(
    text="PyCollections.tla (list/set/dict semantics calibrated against CPython) bound to ext.mutable: ~100k enumerated operation x "
         "argument cases on MutableList/MutableSet/MutableDict attributes must behave like the builtin and flag the parent modified whenever "
         "the value changes; state machines value/stored/dirty with every in-place operation plus Persist, Expire, PickleRoundTrip and Merge "
         "(TLC: no untracked change, flush stores exactly the in-memory value, database changes only on flush, expire reloads, pickle/merge "
         "keep value and tracking) are replayed edge by edge on SQLite for MutableList (PickleType and JSON), MutableSet, MutableDict (JSON) and "
         "a MutableComposite, reading the stored row through a second raw connection after every flush.",
    design_ref="3.10, 4 (C49), 6 (C49)",
    note="trusted: TLC, builtin list/set/dict as calibration oracle, sqlite3/json/pickle decoding of the stored value; SQLite only; "
         "values are small ints, dict keys strings; one object per walk; InstanceState._commit_all is used by the harness to take a clean "
         "snapshot in the in-memory mode",
    technique="TLA+ spec (PyCollections.tla + PySlice.tla) + TLC enumeration and state machines with invariants/action properties; oracle "
              "calibration; spec->code replay of every case and every state-graph edge against SQLite")

INVS = ["NoUntrackedChange"]
PROPS = ["MutationMarks", "MPersistStores", "MExpireReloads", "MPickleMergeKeep", "DbOnlyByPersist"]
WALKLEN = 40
MUT_LIST = ["setitem", "delitem", "insert", "pop", "remove", "append", "extend", "iadd", "imul", "clear", "sort", "reverse", "setslice",
            "delslice", "assign"]
MUT_SET = ["add", "discard", "remove", "pop", "clear", "update", "difference_update", "intersection_update", "symmetric_difference_update",
           "ior", "isub", "iand", "ixor", "assign"]
MUT_DICT = ["setitem", "delitem", "pop", "popd", "popitem", "setdefault", "update", "ior", "clear", "assign"]


def _sig(flavour, op, cls, exp, n_old, argform, seq=False):
    s = {"spec": "PyCollections", "kind": "conformance-seq" if seq else "conformance", "coll": "Mutable:" + flavour, "cls": cls,
         "exc": (exp or {}).get("exc")}
    s.update(pc.op_sig(op, n_old, argform))
    return s


def main(chk):
    from checks import pycoll_mut as pm
    rng = random.Random(chk.seed)
    q = chk.quick
    t0 = time.time()
    timing = {}
    cs = pc.consts(MaxLen=3, Hi=4, MaxVal=2, K=3) if q else pc.consts(MaxLen=4, Hi=6, MaxVal=3, K=3)
    cset = dict(cs, K=2, MaxLen=3) if q else dict(cs, K=3, MaxLen=3)
    cdict = dict(cs, K=2, MaxLen=2) if q else dict(cs, K=3, MaxLen=3)
    plans = [("InitSlice", ["SliceCaseOK"], cs, "list"), ("InitListOps", ["ListCaseOK"], cs, "list"),
             ("InitSetOps", ["SetCaseOK"], cset, "set"), ("InitDictOps", ["DictCaseOK"], cdict, "dict")]
    outs = pc.tlc_cases_parallel(chk, [(p[0], p[1], p[2]) for p in plans])
    timing["tlc_cases_s"] = round(time.time() - t0, 1)
    states = trans = ncal = 0
    runs, samples, vclasses = [], [], {}
    by_kind = {"list": [], "set": [], "dict": []}
    for (init, invs, c, kind), (cases, r) in zip(plans, outs):
        if r.violated:
            chk.violation({"spec": "PyCollections", "action": "TLC", "invariant": r.violated, "cfg": init},
                          "TLC: %s violated in PyCollections.tla (%s)" % (r.violated, init))
        ncal += pc.calibrate(chk, cases, init)
        states += r.distinct
        trans += r.generated
        runs.append({"cfg": init, "constants": {k: c[k] for k in ("MaxLen", "Hi", "MaxVal", "K")}, "distinct": r.distinct,
                     "generated": r.generated, "cases": len(cases), "wall_s": round(r.wall, 1)})
        by_kind[kind] += cases
    for kind, need in (("list", MUT_LIST), ("set", MUT_SET), ("dict", MUT_DICT)):
        seen = {c["op"]["n"] for c in by_kind[kind] if c["exp"]["val"] != c["val"] or c["exp"]["rk"] == "popany"}
        for a in need:
            if a not in seen:
                chk.machinery("vacuous: no enumerated %s case in which %s changes the value" % (kind, a))
    # ---- single operations, in memory
    evaluations = 0
    nontrivial = set()
    per = {}
    for flavour in ("list", "set", "dict"):
        fx = pm.MutFixture(flavour)
        n = 0
        for case in by_kind[fx.kind]:
            op, exp = case["op"], case["exp"]
            if op["n"] in ("kset", "kremove"):
                continue
            if exp["exc"] == "TypeError" and op["n"] in ("ior", "isub", "iand", "ixor", "or", "sub", "and", "xor"):
                continue        # MutableSet's operators accept any iterable; rejecting non-sets is not what C49 is about
            forms = ("list", "iter") if op["n"] in ("extend", "iadd", "setslice") else ("list",)
            for form in forms:
                m = pm.run_case(fx, case, argform=form)
                n += 1
                if exp["val"] != case["val"]:
                    nontrivial.add((flavour, str(case["val"]), str(sorted(op.items()))))
                if m:
                    sig = _sig(flavour, op, m[0], exp, len(case["val"]), form)
                    vk = "%s %s %s" % (flavour, op["n"], m[0])
                    vclasses[vk] = vclasses.get(vk, 0) + 1
                    chk.violation(sig, "Mutable %s: %s on %r: %s" % (flavour, op["n"], case["val"], m[1]),
                                  {"sig": sig, "flavour": flavour, "case": case, "argform": form, "mismatch": m[1]})
        per[flavour] = n
        evaluations += n
    timing["replay_cases_s"] = round(time.time() - t0 - timing["tlc_cases_s"], 1)
    t1 = time.time()
    # ---- walks with flush / expire / pickle / merge: model check + every edge on SQLite
    d = 5 if q else 6
    gplans = [("list", "InitMutListE", "NextMutList", pc.consts(K=1, MaxLen=3, MaxDepth=d)),
              ("jlist", "InitMutListE", "NextMutList", None),
              ("set", "InitMutSetE", "NextMutSet", pc.consts(K=2, MaxLen=3, MaxDepth=d - 1)),
              ("dict", "InitMutListE", "NextMutDict", pc.consts(K=2, MaxLen=2, MaxDepth=d - 1)),
              ("comp", "InitMutCompE", "NextMutComp", pc.consts(K=2, MaxLen=2, MaxDepth=d))]
    todo = [p for p in gplans if p[3] is not None]
    gs = pc.dump_graphs_parallel(chk, [(p[1], p[2], p[3], INVS, PROPS) for p in todo])
    timing["tlc_graphs_s"] = round(time.time() - t1, 1)
    t1 = time.time()
    gmap = {}
    for p, g in zip(todo, gs):
        gmap[p[2]] = (g, p[3])
        if g.tlc.violated:
            chk.violation({"spec": "PyCollections", "action": "TLC", "invariant": g.tlc.violated, "cfg": p[2]},
                          "TLC: %s violated in PyCollections.tla (%s)" % (g.tlc.violated, p[2]))
        states += g.tlc.distinct
        trans += g.tlc.generated
        acts = {e[1]["op"]["n"] for e in g.edges}
        for a in ("persist", "expire", "pickle", "merge"):
            if a not in acts:
                chk.machinery("vacuous: %s has no %s edge" % (p[2], a))
        if not any(g.states[e[2]]["dirty"] and e[1]["op"]["n"] in ("pickle", "merge") for e in g.edges):
            chk.machinery("vacuous: %s never pickles / merges an object with an unflushed change" % p[2])
    graphs = []
    walks_total = steps_total = 0
    for flavour, init, nxt, c in gplans:
        g, c = gmap[nxt]

        def mk(wid, wd, flavour=flavour):
            return pm.MutDriver(pm.MutFixture(flavour, wd), random.Random(chk.seed * 1000 + wid))
        stats, mism = pc.replay_every_edge(g, WALKLEN, rng, mk, chk.work + "/mut_%s" % flavour, n_random=100 if q else 1000)
        walks_total += stats["walks"]
        steps_total += stats["steps"]
        if stats["edges_not_executed"] > 0 and not stats["edges_failing"]:
            chk.machinery("replay left %d edges unexecuted: %r" % (stats["edges_not_executed"], stats))
        for m in mism:
            op = m["act"]["op"]
            sig = _sig(flavour, op, m["cls"], m["act"].get("exp"), len(pc.Items(pm.KIND[flavour], m["from"]["val"])), m["argform"], seq=True)
            sig["after"] = [o["n"] for o in m["walk"][:-1] if o["n"] in ("persist", "expire", "pickle", "merge")][-1:] or None
            sig["after"] = sig["after"][0] if sig["after"] else "none"
            vk = "seq %s %s %s" % (flavour, op["n"], m["cls"])
            vclasses[vk] = vclasses.get(vk, 0) + 1
            chk.violation(sig, "Mutable %s, step %d of a walk: %s: %s" % (flavour, m["step"], op["n"], m["mismatch"]), m)
        graphs.append({"flavour": flavour, "cfg": nxt, "distinct": g.tlc.distinct, "generated": g.tlc.generated, "edges": len(g.edges),
                       "replay": stats})
    timing["replay_graphs_s"] = round(time.time() - t1, 1)
    g = gmap["NextMutList"][0]
    samples.append({"walk_edges_sample": [dict(op=e[1]["op"]["n"], to=g.states[e[2]]) for e in g.edges[40:44]]})
    samples.append(by_kind["dict"][(chk.seed * 7919 + 11) % len(by_kind["dict"])])
    return chk.finish(
        dict(states=states, transitions=trans, traces_validated_against_impl=evaluations + walks_total, distinct_nontrivial=len(nontrivial),
             evaluations=evaluations + steps_total, samples=samples, tlc_runs=runs, graphs=graphs, cases_per_flavour=per,
             calibrated_against_builtin=ncal, walks=walks_total, walk_steps=steps_total, mismatch_classes=vclasses, exhaustive=True,
             timing=timing,
             rule="one case per TLC initial state (container x operation x arguments), non-trivial = the operation changes the value; every "
                  "labelled edge of the value/stored/dirty machines replayed on SQLite (a walk ends at its first mismatch; edges behind a "
                  "failing edge are re-planned)",
             checker_cmd="tlc PyCollections.tla (INIT InitSlice|InitListOps|InitSetOps|InitDictOps; InitMutListE/NextMutList|NextMutSet|NextMutDict|NextMutComp)"),
        assumptions=["SQLite only; JSON and PickleType columns, one composite of two integer columns",
                     "bounded: values <= %d elements, walks <= %d TLC levels" % (cs["MaxLen"], d),
                     "the parent must be flagged whenever the MODEL value changed since the last flush; operations that change nothing are "
                     "free to flag or not",
                     "set.pop() may take any member: the edge's choice is re-labelled to the member actually popped"])
