"""Shared harness of the pool checks C25 / C26: pool construction over the fake DBAPI, worker programs, one scheduled run of the
REAL (unmodified) pool under the baton scheduler with one logged event per scheduler step, trace compression and batch files
for TracePool.tla.

Event format (one JSON object per event, all fields always present so that TLC never touches a missing field):
   t     thread name ("-" for the controller)          k   "call" | "run" | "ret" | "clock"
   op    connect|close|inv|soft|poolinv|drop|sleep|"-"   res "ok"|"TimeoutError"|"Error"|"-"
   id    connection id handed out (ret connect ok) else 0
   clock virtual seconds since the start of the run
   o     observation AFTER the step: ov=_overflow, q=connection ids of the idle records in queue order (0 = record without
         connection), w=names of the threads parked in not_empty.wait() in arrival order, open=ids open in the fake DBAPI's ledger
"""
import gc
import json
import os

from checks import pool_fakedbapi as fdb
from checks import pool_sched as ps

CLOCK0 = 1000


def make_pool(kind, dbapi, size=1, maxo=0, lifo=False, timeout=2, recycle=-1, pre_ping=False, reset="rollback", is_async=False,
              events=None):
    import sqlalchemy.pool as sp
    kw = dict(recycle=recycle, pre_ping=pre_ping, reset_on_return=reset, dialect=fdb.PingDialect(is_async=is_async))
    if kind == "queue":
        p = sp.QueuePool(dbapi.connect, pool_size=size, max_overflow=maxo, timeout=timeout, use_lifo=lifo, **kw)
    elif kind == "asyncqueue":
        p = sp.AsyncAdaptedQueuePool(dbapi.connect, pool_size=size, max_overflow=maxo, timeout=timeout, use_lifo=lifo, **kw)
    elif kind == "null":
        p = sp.NullPool(dbapi.connect, **kw)
    elif kind == "static":
        p = sp.StaticPool(dbapi.connect, **kw)
    elif kind == "singleton":
        p = sp.SingletonThreadPool(dbapi.connect, pool_size=size, **kw)
    else:
        raise ValueError(kind)
    return p


def observe(pool, dbapi):
    q = [(r.dbapi_connection.id if r.dbapi_connection is not None else 0) for r in pool._pool.queue]
    w = [x.name for x in pool._pool.not_empty.waiters]
    return {"ov": pool._overflow, "q": q, "w": w, "open": dbapi.open_ids()}


class Run:
    """One scheduled run of a QueuePool.  cfg: dict(size, maxo, lifo, timeout, threads, nth (fault plan));
    programs: {thread: [cycle, ...]}, cycle = list of ops after a successful connect, e.g. ["soft", "sleep:3", "close"]."""

    def __init__(self, cfg, programs, files):
        self.cfg = cfg
        self.programs = programs
        self.clock = ps.VClock(CLOCK0, mode="eps")
        ps.install(self.clock)
        self.dbapi = fdb.DBAPI()
        for k in cfg.get("nth", ()):
            self.dbapi.plan.nth[tuple(k)] = True
        self.pool = make_pool("queue", self.dbapi, cfg["size"], cfg["maxo"], cfg["lifo"], cfg["timeout"])
        self.sched = ps.Scheduler(files, self.clock)
        self.held = {}
        self.events = []
        self.problems = []       # harness-side assertion failures (Exclusive / ledger) - (sig, text)
        self.last_obs = None
        self.last_tick = False
        self.boundary = {}
        self.sleepers = {}       # worker -> wake time
        for name in sorted(programs):
            self.sched.spawn(name, self._program(name, programs[name]))
            self.boundary[name] = True

    # ---- worker programs (run inside the worker threads)
    def _program(self, name, prog):
        sched, pool, dbapi, held = self.sched, self.pool, self.dbapi, self.held
        import sqlalchemy.exc as sa_exc

        def run():
            for cyc in prog:
                sched.event("call", op="connect")
                try:
                    conn = pool.connect()
                except sa_exc.TimeoutError:
                    sched.event("ret", op="connect", res="TimeoutError")
                    continue
                except fdb.Error:
                    sched.event("ret", op="connect", res="Error")
                    continue
                except Exception as e:      # an exception class the specification does not allow here: TracePool rejects the event
                    sched.event("ret", op="connect", res=type(e).__name__)
                    continue
                cid = conn.dbapi_connection.id
                held[name] = cid
                sched.event("ret", op="connect", res="ok", id=cid)
                for op in cyc:
                    if op.startswith("sleep:"):
                        sched.event("sleep", n=int(op[6:]))
                        continue
                    if op != "soft":
                        held.pop(name, None)
                    sched.event("call", op=op)
                    res = "ok"
                    try:
                        if op == "close":
                            conn.close()
                        elif op == "inv":
                            conn.invalidate()
                        elif op == "soft":
                            conn.invalidate(soft=True)
                        elif op == "poolinv":
                            pool._invalidate(conn)
                        elif op == "drop":
                            conn = None
                        else:
                            raise ps.SchedError("unknown op %r" % op)
                    except ps.SchedError:
                        raise
                    except Exception as e:  # releasing never raises in the specification: TracePool rejects the event
                        res = type(e).__name__
                    sched.event("ret", op=op, res=res)
                conn = None
        return run

    # ---- controller
    def _log(self, t, k, op="-", res="-", cid=0, at=None):
        o = observe(self.pool, self.dbapi)
        ev = {"t": t, "k": k, "op": op, "res": res, "id": cid, "clock": int(self.clock.now - CLOCK0), "o": o}
        if at is not None:
            ev["at"] = "%s:%s:%s" % at      # where the thread is parked now (diagnostics; not sent to TLC)
        tick = k == "run" and self.last_obs == o
        if tick and self.events and self.last_tick and self.events[-1]["t"] == t:
            return      # a run of silent steps of one thread is ONE tick (Catchup places any number of silent actions before it);
                        # a tick is never merged into a preceding observable step: that event is consumed by the observable action
        self.events.append(ev)
        self.last_obs = o
        self.last_tick = tick

    def _check_handout(self, t, cid):
        for other, oc in self.held.items():
            if other != t and oc == cid:
                self.problems.append(({"kind": "exclusive", "action": "connect"},
                                      "connection %d handed to %s while %s holds it" % (cid, t, other)))
        if self.dbapi.ledger.get(cid) != "open":
            self.problems.append(({"kind": "stale", "action": "connect"}, "connection %d handed to %s is %s in the ledger" % (
                cid, t, self.dbapi.ledger.get(cid))))

    def _check_bounds(self):
        c = self.cfg
        n_open = len(self.dbapi.open_ids())
        if c["maxo"] > -1 and n_open > c["size"] + c["maxo"]:
            self.problems.append(({"kind": "openbound", "action": "snapshot"}, "%d connections open, limit %d" % (n_open, c["size"] + c["maxo"])))
        if len(self.pool._pool.queue) > c["size"]:
            self.problems.append(({"kind": "idlebound", "action": "snapshot"}, "%d idle, pool_size %d" % (len(self.pool._pool.queue), c["size"])))

    def can_tick(self):
        """virtual time may only move while no thread is inside an operation (see notes/Pool.md: deadline computed at wait entry)"""
        for w in self.sched.runnable():
            if w in self.sleepers:
                continue
            if not self.boundary[w.name]:
                return False
        return True

    def _runnable(self):
        return [w for w in self.sched.runnable() if w not in self.sleepers or self.sleepers[w] <= self.clock.now]

    def _next_timer(self):
        c = [v for v in self.sleepers.values()]
        d = self.sched.next_deadline()
        if d is not None:
            c.append(d)
        c = [x for x in c if x > self.clock.now]
        return min(c) if c else None

    def tick_to(self, to):
        self.sched.advance(to)
        for w in [w for w, v in self.sleepers.items() if v <= to]:
            del self.sleepers[w]
        self._log("-", "clock")

    def go(self, policy):
        """policy(run, runnable_workers) -> a worker or ("tick", to).  Returns the trace events."""
        sched = self.sched
        guard = 0
        while sched.alive():
            guard += 1
            if guard > 200000:
                raise ps.SchedError("run does not terminate")
            r = self._runnable()
            if not r:
                nt = self._next_timer()
                if nt is None:
                    raise ps.Deadlock("no runnable worker, no pending timer: %r" % (sched.workers,))
                self.tick_to(nt)
                continue
            ch = policy(self, r)
            if isinstance(ch, tuple):
                self.tick_to(ch[1])
                continue
            w = ch
            ev = sched.step(w)
            if w.exc is not None:
                raise ps.SchedError("worker %s died: %r" % (w.name, w.exc))
            self.boundary[w.name] = ev is not None or w.state == "done"
            self._check_bounds()
            if ev is None:
                if w.state != "done":
                    self._log(w.name, "run", at=w.where)
                elif observe(self.pool, self.dbapi) != self.last_obs:
                    self._log(w.name, "run")
                continue
            if observe(self.pool, self.dbapi) != self.last_obs:
                self._log(w.name, "run")
            k = ev["k"]
            if k == "sleep":
                self.sleepers[w] = self.clock.now + ev["n"]
                continue
            if k == "ret" and ev["op"] == "connect" and ev["res"] == "ok":
                self._check_handout(w.name, ev["id"])
            self._log(w.name, k, ev.get("op", "-"), ev.get("res", "-"), ev.get("id", 0))
        sched.close()
        return self.events

    def final_checks(self):
        """after every worker finished and released: NoLeak on the real pool and ledger"""
        p, d = self.pool, self.dbapi
        if p.checkedout() != 0:
            self.problems.append(({"kind": "countok", "action": "final"}, "checkedout() = %d after every holder released" % p.checkedout()))
        idle = sorted(r.dbapi_connection.id for r in p._pool.queue if r.dbapi_connection is not None)
        if idle != d.open_ids():
            self.problems.append(({"kind": "noleak", "action": "final"}, "open in ledger %r, idle in pool %r" % (d.open_ids(), idle)))
        if d.use_after_close:
            self.problems.append(({"kind": "stale", "action": "final"}, "DBAPI calls on closed connections: %r" % d.use_after_close[:3]))


# ----------------------------------------------------------------------------- schedule policies
def policy_random(rng, p_switch, p_tick=0.0):
    state = {"cur": None}

    def pol(run, r):
        if p_tick and run.can_tick() and rng.random() < p_tick:
            nt = run._next_timer()
            if nt is not None:
                return ("tick", nt if rng.random() < 0.5 else run.clock.now + 1)
        cur = state["cur"]
        if cur in r and rng.random() >= p_switch:
            return cur
        state["cur"] = rng.choice(r)
        return state["cur"]
    return pol


def policy_preempt(points, order):
    """bounded pre-emption: the current thread keeps the baton until it cannot continue, except at the given global step
    numbers, where the baton moves to another runnable thread.  points: {step_no: which of the others (index)}"""
    state = {"cur": None, "n": 0}

    def pol(run, r):
        state["n"] += 1
        names = [w.name for w in r]
        cur = state["cur"]
        start = order.index(cur) if cur in order else -1
        rot = [order[(start + 1 + i) % len(order)] for i in range(len(order))]      # the others first, cur last
        cand = [n for n in rot if n in names]
        if cur in names and state["n"] not in points:
            pick = cur
        elif cur in names:
            others = [n for n in cand if n != cur] or [cur]
            pick = others[points[state["n"]] % len(others)]
        else:
            pick = cand[0]
        state["cur"] = pick
        return r[names.index(pick)]
    return pol


def gen_programs(rng, threads, ops, fault_ops, sleep):
    progs = {}
    for t in threads:
        cycles = []
        for _ in range(ops):
            cyc = []
            if sleep and rng.random() < 0.35:
                cyc.append("sleep:%d" % rng.randint(1, sleep))
            x = rng.random()
            if fault_ops and x < 0.45:
                op = rng.choice(fault_ops)
                if op == "soft":
                    cyc += ["soft", "close"]
                else:
                    cyc.append(op)
            else:
                cyc.append("close")
            cycles.append(cyc)
        progs[t] = cycles
    return progs


def run_one(cfg, programs, policy, files, tid):
    """-> (trace dict, problems, stats)"""
    was = gc.isenabled()
    gc.disable()
    try:
        run = Run(cfg, programs, files)
        ev = run.go(policy)
        run.final_checks()
    finally:
        if was:
            gc.enable()
    tr = {"id": tid, "cfg": {"size": cfg["size"], "maxo": cfg["maxo"], "lifo": bool(cfg["lifo"]), "timeout": cfg["timeout"],
                             "recycle": -1},
          "ev": ev}
    st = {"steps": run.sched.steps, "line_yields": run.sched.line_yields, "events": len(ev),
          "timeouts": sum(1 for e in ev if e["res"] == "TimeoutError"), "waits": sum(1 for e in ev if e["o"]["w"]),
          "conn_errors": sum(1 for e in ev if e["res"] == "Error")}
    return tr, run.problems, st


def write_traces(path, traces):
    os.makedirs(os.path.dirname(path), exist_ok=True)
    with open(path, "w") as f:
        json.dump(traces, f, separators=(",", ":"))
