"""Binding of specs/ResultCursor.tla to the real Result implementations (C10; second binding for C55).

An *impl* is a way of building a real Result over a given row sequence; every impl replays the edge tours of the graph of
its configuration (an element of the spec constant Fams; the initial states of one graph range over rows x Fams).  Every step compares the call outcome (canonical return value or the
exception class) and `closed`; every walk ends with a drain (`all()` on the base Result) compared with the spec.

    impl            real object                                                                    spec configuration
    iter            IteratorResult(SimpleResultMetaData, iter(rows))                               iter
    chunk           ChunkedIteratorResult over a chunks(size) callable producing lists             chunk
    frozen          IteratorResult(...).freeze()()                                                 iter
    merged          IteratorResult(first half).merge(IteratorResult(second half))                  iter
    cursor          CursorResult over sqlite3, default CursorFetchStrategy, text SQL               default
    cursor_json     same, text().columns(JSON, JSON): result processors + tuple path               default
    cursor_merged   two CursorResults (halves) merged                                              iter
    stream<N>       BufferedRowCursorFetchStrategy(max_row_buffer=N) installed by post_exec        buffered<N>_5
    streamg         BufferedRowCursorFetchStrategy(max_row_buffer=3, growth_factor=2)              buffered3_2
    full            FullyBufferedCursorFetchStrategy installed by post_exec                        full

Run as a module (`python -m checks.resultcursor_driver shard.json out.json`) it replays one slice of the plan in a fresh
interpreter; with VERIF_COMPILED=1 that interpreter keeps the prebuilt compiled _result_cy/_row_cy (second binding, C55).
"""
import json
import os
import pickle
import sys
import time
import warnings

SZNONE = 99
FETCH_GETTER = {"FetchOne": "one", "Next": "one", "IterStep": "it", "FetchMany": "many", "Partitions": "many"}


def cfg_of(impl):
    """impl name -> name of the spec configuration (element of the constant Fams) whose walks it replays"""
    if impl in ("iter", "frozen", "merged", "cursor_merged"):
        return "iter"
    if impl == "chunk":
        return "chunk"
    if impl in ("cursor", "cursor_json"):
        return "default"
    if impl == "full":
        return "full"
    if impl == "streamg":
        return "buffered3_2"
    if impl.startswith("stream"):
        return "buffered%d_5" % int(impl[6:])
    raise KeyError(impl)


def _ukey(row):
    # unique(strategy=...): an injective, hashable rendering of a (possibly unhashable) row / scalar
    try:
        return repr(tuple(row))
    except TypeError:
        return repr(row)


class Driver:
    def __init__(self, impl, uvals=()):
        warnings.simplefilter("ignore")
        import sqlalchemy as sa
        from sqlalchemy.engine import cursor as _cursor
        from sqlalchemy.engine import result as _result
        from sqlalchemy.engine.row import Row, RowMapping
        self.sa, self._cursor, self._result, self.Row, self.RowMapping = sa, _cursor, _result, Row, RowMapping
        self.impl = impl
        self.uvals = set(uvals)
        self.conn = None
        self.engine = None
        self._stmts = {}
        if impl.startswith(("cursor", "stream", "full")):
            from sqlalchemy.pool import StaticPool
            self.engine = sa.create_engine("sqlite://", poolclass=StaticPool)
            base_ctx = self.engine.dialect.execution_ctx_cls
            drv = self

            class Ctx(base_ctx):
                def post_exec(ctx):
                    super().post_exec()
                    if drv.impl == "full":
                        ctx.cursor_fetch_strategy = _cursor.FullyBufferedCursorFetchStrategy(
                            ctx.cursor, ctx.cursor.description, ctx.cursor.fetchall())
                    elif drv.impl == "streamg":
                        ctx.cursor_fetch_strategy = _cursor.BufferedRowCursorFetchStrategy(
                            ctx.cursor, {"max_row_buffer": 3}, growth_factor=2)
                    elif drv.impl.startswith("stream"):
                        ctx.cursor_fetch_strategy = _cursor.BufferedRowCursorFetchStrategy(
                            ctx.cursor, {"max_row_buffer": int(drv.impl[6:])})

            self.engine.dialect.execution_ctx_cls = Ctx
            self.conn = self.engine.connect()

    # ------------------------------------------------------------------ building results
    def real(self, x):
        return [x] if x in self.uvals else x

    def canon(self, x):
        return x[0] if isinstance(x, list) else x

    def _stmt(self, rows):
        key = tuple(rows)
        st = self._stmts.get(key)
        if st is None:
            sa = self.sa
            js = self.impl == "cursor_json"

            def lit(x):
                return "'%s'" % json.dumps(self.real(x)) if js else str(int(x))
            if rows:
                sql = "SELECT column1 AS a, column2 AS b FROM (VALUES %s)" % ", ".join(
                    "(%s, %s)" % (lit(r[0]), lit(r[1])) for r in rows)
            else:
                sql = "SELECT 0 AS a, 0 AS b WHERE 0"
            st = sa.text(sql)
            if js:
                st = st.columns(sa.column("a", sa.JSON), sa.column("b", sa.JSON))
            self._stmts[key] = st
        return st

    def make(self, rows):
        """rows: list of spec rows (pairs of small ints)"""
        R = self._result
        impl = self.impl
        real_rows = [tuple(self.real(x) for x in r) for r in rows]
        meta = lambda: R.SimpleResultMetaData(["a", "b"])  # noqa: E731
        if impl == "iter":
            return R.IteratorResult(meta(), iter(real_rows))
        if impl == "frozen":
            return R.IteratorResult(meta(), iter(real_rows)).freeze()()
        if impl == "merged":
            k = len(real_rows) // 2
            return R.IteratorResult(meta(), iter(real_rows[:k])).merge(R.IteratorResult(meta(), iter(real_rows[k:])))
        if impl == "chunk":
            src = {"pos": 0}

            def chunks(size):
                while True:
                    batch = real_rows[src["pos"]:] if size is None else real_rows[src["pos"]:src["pos"] + size]
                    if not batch:
                        break
                    src["pos"] += len(batch)
                    yield batch
            return R.ChunkedIteratorResult(meta(), chunks)
        if impl == "cursor_merged":
            k = len(rows) // 2
            return self.conn.execute(self._stmt(rows[:k])).merge(self.conn.execute(self._stmt(rows[k:])))
        return self.conn.execute(self._stmt(rows))

    # ------------------------------------------------------------------ walk protocol
    def reset(self, state):
        self.rows0 = [tuple(r) for r in state["rows"]]
        self.base = self.make(self.rows0)
        self.keep = [self.base]
        self.view = None
        self.vkind = None
        self.names = ["a", "b"]
        self.vnames = None
        self.frozen = None
        self.it = self.it_kind = self.it_names = None
        self.nstep = 0
        # history facts used only to label a divergence (known-finding signatures), never to decide one
        self.vmemo = set()
        self.vstale = set()
        self.fm0_lost = False
        if self.impl.startswith(("stream", "full")):
            want = self._cursor.FullyBufferedCursorFetchStrategy if self.impl == "full" else self._cursor.BufferedRowCursorFetchStrategy
            if type(self.base.cursor_strategy) is not want:
                return "strategy %r was not installed" % self.impl
        return None

    def _row(self, x, kind, names):
        if kind == "scalars":
            return [self.canon(x)]
        if kind == "mappings":
            if not isinstance(x, self.RowMapping):
                raise AssertionError("expected RowMapping, got %r" % (x,))
            if list(x.keys()) != names:
                raise AssertionError("mapping keys %r, expected %r" % (list(x.keys()), names))
            return [self.canon(x[k]) for k in names]
        if not isinstance(x, self.Row):
            raise AssertionError("expected Row, got %r" % (x,))
        if list(x._fields) != names or [x._mapping[n] for n in names] != list(x):
            raise AssertionError("row fields %r / mapping disagree with %r" % (x._fields, names))
        return [self.canon(v) for v in x]

    def call(self, frm, act):
        """perform the action on the real object; returns outcome {k, rows, err}"""
        a, h, arg = act["a"], act["h"], act["arg"]
        tgt = self.base if h == "b" else self.view
        kind = "row" if h == "b" else self.vkind
        names = self.names if h == "b" else self.vnames
        size = None if arg == SZNONE else arg
        rows_ = lambda xs: {"k": "rows", "rows": [self._row(x, kind, names) for x in xs], "err": ""}  # noqa: E731
        row_ = lambda x: {"k": "none", "rows": [], "err": ""} if x is None else {"k": "row", "rows": [self._row(x, kind, names)], "err": ""}  # noqa: E731
        ok = {"k": "ok", "rows": [], "err": ""}
        self.nstep += 1
        if h == "v" and a in FETCH_GETTER:
            self.vmemo.add(FETCH_GETTER[a])
            if frm["v"]["uniq"]:
                self.vmemo.add("ustrat")
        if self.impl == "full" and a in ("FetchMany", "Partitions") and arg == 0 and frm["state"] == "attached" \
                and frm["pos"] < len(frm["rows"]) and not (frm["b"]["uniq"] if h == "b" else frm["v"]["uniq"]):
            self.fm0_lost = True
        try:
            if a == "FetchOne":
                return row_(tgt.fetchone())
            if a == "Next":
                return row_(next(tgt))
            if a == "Iter":
                self.it, self.it_kind, self.it_names = iter(tgt), kind, names
                return ok
            if a == "ItNext":
                x = next(self.it)
                return {"k": "row", "rows": [self._row(x, self.it_kind, self.it_names)], "err": ""}
            if a == "IterStep":
                it = iter(tgt)
                try:
                    return row_(next(it))
                finally:
                    if hasattr(it, "close"):
                        it.close()
            if a == "FetchMany":
                return rows_(tgt.fetchmany() if size is None else tgt.fetchmany(size))
            if a == "Partitions":
                it = tgt.partitions() if size is None else tgt.partitions(size)
                try:
                    return rows_(next(it))
                finally:
                    it.close()
            if a == "All":
                return rows_(tgt.all() if self.nstep % 2 else tgt.fetchall())
            if a == "First":
                return row_(tgt.first())
            if a == "One":
                return row_(tgt.one())
            if a == "OneOrNone":
                return row_(tgt.one_or_none())
            if a in ("Scalar", "ScalarOne", "ScalarOneOrNone"):
                x = {"Scalar": tgt.scalar, "ScalarOne": tgt.scalar_one, "ScalarOneOrNone": tgt.scalar_one_or_none}[a]()
                return {"k": "none", "rows": [], "err": ""} if x is None else {"k": "scalar", "rows": [[self.canon(x)]], "err": ""}
            if a == "Unique":
                r = tgt.unique(_ukey) if arg else tgt.unique()
                if r is not tgt:
                    raise AssertionError("unique() did not return self")
                if h == "v":
                    self.vstale = set(self.vmemo)
                return ok
            if a == "Close":
                tgt.close()
                return ok
            if a == "YieldPer":
                r = tgt.yield_per(arg)
                if r is not tgt:
                    raise AssertionError("yield_per() did not return self")
                return ok
            if a == "Tuples":
                if self.base.tuples() is not self.base:
                    raise AssertionError("tuples() did not return self")
                return ok
            if a == "Columns":
                r = self.base.columns(*[i - 1 for i in arg])
                if r is not self.base:
                    raise AssertionError("columns() did not return self")
                self.names = [self.names[i - 1] for i in arg]
                return ok
            if a == "Scalars":
                self.view = self.base.scalars(arg - 1)
                self.vkind, self.vnames = "scalars", [self.names[arg - 1]]
                self.vmemo, self.vstale = set(), set()
                if type(self.view) is not self._result.ScalarResult:
                    raise AssertionError("scalars() returned %r" % type(self.view))
                return ok
            if a == "Mappings":
                self.view = self.base.mappings()
                self.vkind, self.vnames = "mappings", list(self.names)
                self.vmemo, self.vstale = set(), set()
                if type(self.view) is not self._result.MappingResult or list(self.view.keys()) != self.names:
                    raise AssertionError("mappings() returned %r keys %r" % (type(self.view), list(self.view.keys())))
                return ok
            if a == "Freeze":
                f = self.base.freeze()
                first = f()
                got = {"k": "rows", "rows": [self._row(x, "row", self.names) for x in first.all()], "err": ""}
                self.frozen = f
                self.base = f()
                self.keep.append(self.base)
                self.view = self.vkind = self.vnames = None
                return got
            if a == "Merge":
                sib = self.frozen() if self.frozen is not None else self.make(self.rows0)
                m = self.base.merge(sib)
                if type(m) is not self._result.MergedResult:
                    raise AssertionError("merge() returned %r" % type(m))
                self.keep += [sib, m]
                self.base = m
                self.view = self.vkind = self.vnames = None
                return ok
            raise AssertionError("unknown action %r" % a)
        except AssertionError:
            raise
        except BaseException as e:  # noqa
            return {"k": "err", "rows": [], "err": type(e).__name__, "msg": str(e)[:200]}

    def step(self, frm, act, to):
        """-> None | (mismatch text, extra signature fields)"""
        try:
            got = self.call(frm, act)
        except AssertionError as e:
            return "shape check failed: %s" % e, {}
        exp = act["ret"]
        msg = None
        if (got["k"], got["rows"], got["err"]) != (exp["k"], exp["rows"], exp["err"]):
            msg = "%s(%s) on %s returned %s, spec %s" % (act["a"], act["arg"], "view" if act["h"] == "v" else "base",
                                                        _show(got), _show(exp))
        else:
            closed = self.base.closed
            if self.view is not None and self.view.closed != closed:
                msg = "view.closed %r differs from result.closed %r" % (self.view.closed, closed)
            elif closed != act["obs"]["closed"]:
                msg = "closed is %r after %s, spec %r" % (closed, act["a"], act["obs"]["closed"])
        if msg is None:
            return None
        return msg, self._labels(frm, act, exp)

    def _labels(self, frm, act, exp):
        lab = {"pre_state": frm["state"], "expected": exp["err"] or exp["k"], "fam": frm["fam"], "it_started": frm.get("it") in ("b1", "v1"),
               "merged_result": frm["fam"] == "merged" or self.impl in ("merged", "cursor_merged")}
        if act is not None and act["h"] == "v":
            g = FETCH_GETTER.get(act["a"], "ustrat" if act["a"] == "All" else None)
            if g is not None and (g in self.vstale or "ustrat" in self.vstale):
                lab["stale_view_getter"] = True
        if self.fm0_lost:
            lab["after_fetchmany0_with_rows_remaining"] = True
        return lab

    def finish(self, to, obs):
        exp = obs["drain"]
        if exp["k"] == "err" and exp["err"] == "broken":
            return None
        try:
            got = {"k": "rows", "rows": [self._row(x, "row", self.names) for x in self.base.all()], "err": ""}
        except AssertionError as e:
            return "shape check failed in drain: %s" % e, {}
        except BaseException as e:  # noqa
            got = {"k": "err", "rows": [], "err": type(e).__name__}
        if (got["k"], got["rows"], got["err"]) != (exp["k"], exp["rows"], exp["err"]):
            return "final drain all() returned %s, spec %s" % (_show(got), _show(exp)), self._labels(to, None, exp)
        return None

    def close(self):
        try:
            if self.conn is not None:
                self.conn.close()
                self.engine.dispose()
        except Exception:
            pass


def _show(r):
    if r["k"] == "err":
        return r["err"] + ((" (%s)" % r["msg"]) if r.get("msg") else "")
    if r["k"] in ("none", "ok"):
        return r["k"]
    return "%s%s" % (r["k"], json.dumps(r["rows"]))


# ----------------------------------------------------------------------------- compact edge dump
# engine.graph.dump keeps every parsed edge (two full state records each) until the graph is built: ~10 KB per edge.  The
# thorough graphs have several 100 000 edges, so the TLC output is parsed as a stream here into a graph with integer state
# ids, the part of each state the driver looks at, and one shared object per distinct action label.
class CompactGraph:
    def __init__(self):
        self.states = []      # id -> mini state
        self.inits = []       # ids
        self.edges = []       # (from id, act dict (shared), to id)
        self.out = []         # id -> [edge index]
        self.tlc = None


def _mini(st):
    """the part of a spec state the driver looks at (building the result, labels)"""
    return {"cfg": st.get("cfg"), "rows": st["rows"], "state": st["state"], "pos": st["pos"], "fam": st["fam"], "it": st.get("it", "none"),
            "b": {"uniq": st["b"]["uniq"]}, "v": {"uniq": st["v"]["uniq"]}}


def dump_compact(module, cfg_text, workdir, timeout=2400, heap="3g"):
    """like engine.graph.dump (cfg must contain VIEW and ACTION_CONSTRAINT Emit, -workers 1), streaming"""
    import shutil
    import subprocess
    import threading
    from engine import tlc
    os.makedirs(workdir, exist_ok=True)
    sdir = os.path.join(workdir, "specs")
    if os.path.isdir(sdir):
        shutil.rmtree(sdir)
    shutil.copytree(tlc.SPECS, sdir)
    cfg = os.path.join(sdir, module + "_run.cfg")
    with open(cfg, "w") as f:
        f.write(cfg_text)
    meta = os.path.join(workdir, "meta_%s_%d" % (module, int(time.time() * 1000) % 100000000))
    cmd = ["java", "-XX:+UseParallelGC", "-XX:ParallelGCThreads=2", "-Xmx" + heap, "-cp", tlc.JAR + ":" + tlc.DEPS, "tlc2.TLC",
           "-workers", "1", "-metadir", meta, "-noGenerateSpecTE", "-config", cfg, os.path.join(sdir, module + ".tla")]
    env = dict(os.environ)
    env.pop("JAVA_TOOL_OPTIONS", None)
    g = CompactGraph()
    r = tlc.Result()
    r.cmd = " ".join(cmd)
    ids, acts, tail = {}, {}, []
    dumps = json.dumps

    def sid(st):
        k = dumps(st, sort_keys=True, separators=(",", ":"))
        i = ids.get(k)
        if i is None:
            i = ids[k] = len(g.states)
            g.states.append(_mini(st))
            g.out.append([])
        return i

    t0 = time.time()
    p = subprocess.Popen(cmd, cwd=sdir, env=env, stdout=subprocess.PIPE, stderr=subprocess.STDOUT, text=True, errors="replace")
    killed = []
    timer = threading.Timer(timeout, lambda: (killed.append(1), p.kill()))
    timer.start()
    try:
        for line in p.stdout:
            if line.startswith('"{'):
                try:
                    o = json.loads(json.loads(line))
                except Exception:
                    continue
                if "init" in o:
                    i = sid(o["init"])
                    if i not in g.inits:
                        g.inits.append(i)
                elif "from" in o:
                    act = o["act"]
                    act["obs"] = o["obs"]
                    ak = dumps(act, sort_keys=True)
                    act = acts.setdefault(ak, act)
                    f, t = sid(o["from"]), sid(o["to"])
                    g.out[f].append(len(g.edges))
                    g.edges.append((f, act, t))
                continue
            tail.append(line)
            if len(tail) > 400:
                del tail[:200]
            m = tlc._RE_STATS.search(line)
            if m:
                r.generated, r.distinct = int(m.group(1)), int(m.group(2))
                continue
            m = tlc._RE_DEPTH.search(line)
            if m:
                r.depth = int(m.group(1))
                continue
            m = tlc._RE_INV.search(line)
            if m:
                r.violated = m.group(1)
            elif ("is violated" in line or "was violated" in line or "were violated" in line) and r.violated is None:
                r.violated = line.strip()
        p.wait()
    finally:
        timer.cancel()
        if p.poll() is None:
            p.kill()
        shutil.rmtree(meta, ignore_errors=True)
    r.wall = time.time() - t0
    out = "".join(tail)
    r.stdout = out[-20000:]
    if killed:
        raise tlc.TLCError("TLC timeout after %ss: %s" % (timeout, r.cmd))
    r.ok = "No error has been found" in out
    if not r.ok and r.violated is None:
        raise tlc.TLCError("TLC failed (exit %s):\n%s\ncmd: %s" % (p.returncode, "".join(tail[-40:]), r.cmd))
    g.tlc = r
    return g


# ----------------------------------------------------------------------------- memo-aware tours
# The row getters are memoized per Result object and dropped by the generative calls.  The documented behaviour does not
# depend on that, so the spec state (of the base Result) does not carry it and an edge tour may reach `unique()` /
# `columns()` / `yield_per()` only through histories in which the getter used afterwards was never memoized before.
# These extra walks make every generative edge occur as  <fetch through getter g> <generative call> <fetch through g>
# on the same object, for each getter g, wherever the graph has such a triple.
GENERATIVE = ("Unique", "Columns", "YieldPer")
USES = {"FetchOne": "one", "Next": "one", "IterStep": "it", "FetchMany": "many", "Partitions": "many", "All": "all"}


def memo_walks(g, maxlen, rng, per=1):
    from collections import deque
    parent, depth = {}, {}
    dq = deque()
    for i in g.inits:
        parent[i], depth[i] = None, 0
        dq.append(i)
    while dq:
        x = dq.popleft()
        for ei in g.out[x]:
            t = g.edges[ei][2]
            if t not in parent:
                parent[t], depth[t] = ei, depth[x] + 1
                dq.append(t)

    def path_to(x):
        p = []
        while parent[x] is not None:
            p.append(parent[x])
            x = g.edges[parent[x]][0]
        p.reverse()
        return p

    inedges = {}
    for ei, e in enumerate(g.edges):
        if e[1]["a"] in USES:
            inedges.setdefault(e[2], []).append(ei)
    walks = []
    for ei, (sk, act, tk) in enumerate(g.edges):
        if act["a"] not in GENERATIVE:
            continue
        hs = ("b", "v") if act["a"] == "YieldPer" else (act["h"],)        # yield_per through the view also re-generates the Result
        for h in hs:
            for getter in ("one", "many", "it", "all"):
                preds = [pe for pe in inedges.get(sk, ()) if g.edges[pe][1]["h"] == h and g.edges[pe][0] in depth
                         and depth[g.edges[pe][0]] + 3 <= maxlen
                         and (USES[g.edges[pe][1]["a"]] == getter or (getter == "all" and g.edges[pe][1]["a"] != "All"))]
                succs = [se for se in g.out[tk] if g.edges[se][1]["h"] == h and USES.get(g.edges[se][1]["a"]) == getter]
                if not preds or not succs:
                    continue
                best = [se for se in succs if g.edges[se][1]["idx"]] or succs
                for _ in range(per):
                    pe = rng.choice(preds)
                    walks.append(path_to(g.edges[pe][0]) + [pe, ei, rng.choice(best)])
    return walks


# ----------------------------------------------------------------------------- sharded replay of (graph, impl, walks)
_JOBS = None      # {gid: {"states":..., "edges":..., "walks":..., "uvals":...}}


def slim(g, walks, uvals=()):
    """picklable job: the graph plus the walks grouped by the configuration (Fams element) of their initial state"""
    by = {}
    for w in walks:
        by.setdefault(g.states[g.edges[w[0]][0]]["cfg"], []).append(w)
    return {"states": g.states, "edges": g.edges, "walks": by, "uvals": list(uvals)}


def job_steps(job, cfg):
    return sum(len(w) for w in job["walks"].get(cfg, ()))


def rerun(m):
    """re-execute one recorded failing walk (a `replay` entry of replays/C10/*.json) -> None | (mismatch text, labels)"""
    drv = Driver(m["impl"], m.get("uvals", ()))
    try:
        bad = drv.reset({"rows": m["rows"]})
        if bad:
            return bad, {}
        for t in m["trace"]:
            bad = drv.step(t["frm"], t["act"], None)
            if bad:
                return bad
        if m.get("drain"):
            return drv.finish(m["final"], m["drain"])
        return None
    finally:
        drv.close()


def _work(args):
    gid, impl, cfg = args
    job = _JOBS[gid]
    states, edges, walks = job["states"], job["edges"], job["walks"].get(cfg, [])
    idxs = range(len(walks))
    t0 = time.time()
    drv = Driver(impl, job["uvals"])
    steps = 0
    mism = []
    for wi in idxs:
        walk = walks[wi]
        first = states[edges[walk[0]][0]]
        hist, trace = [], []
        m = drv.reset(first)
        if m:
            mism.append({"gid": gid, "impl": impl, "walk": [], "act": {"a": "reset", "h": "b", "arg": 0}, "mismatch": m, "labels": {},
                         "rows": first["rows"]})
            continue
        bad = None
        for ei in walk:
            fk, act, tk = edges[ei]
            hist.append([act["a"], act["h"], act["arg"]])
            trace.append({"act": act, "frm": _mini(states[fk])})
            steps += 1
            try:
                bad = drv.step(states[fk], act, states[tk])
            except Exception as e:  # harness error
                import traceback
                bad = ("driver exception %r\n%s" % (e, traceback.format_exc()[-1200:]), {})
            if bad:
                mism.append({"gid": gid, "impl": impl, "walk": list(hist), "act": {k: act[k] for k in ("a", "h", "arg")},
                             "mismatch": bad[0], "labels": bad[1], "rows": first["rows"], "from": states[fk], "trace": trace,
                             "uvals": job["uvals"]})
                break
        if not bad:
            last = edges[walk[-1]]
            bad = drv.finish(states[last[2]], last[1]["obs"])
            if bad:
                mism.append({"gid": gid, "impl": impl, "walk": list(hist), "act": {"a": "drain", "h": "b", "arg": 0},
                             "mismatch": bad[0], "labels": bad[1], "rows": first["rows"], "from": states[last[2]], "trace": trace,
                             "uvals": job["uvals"], "drain": last[1]["obs"], "final": _mini(states[last[2]])})
        if len(mism) > 300:
            break
    drv.close()
    if os.environ.get("VERIF_C10_TIMING"):
        sys.stderr.write("task %s %s walks=%d steps=%d %.1fs\n" % (gid, impl, len(idxs), steps, time.time() - t0))
    return steps, len(idxs), mism


def replay(jobs, plan):
    """in-process replay.  jobs: {gid: slim(...)}; plan: [(gid, impl, cfg)].  Returns (steps, walks, mismatches, per-impl steps)."""
    global _JOBS
    _JOBS = jobs
    steps = nwalks = 0
    mism, per = [], {}
    for gid, impl, cfg in plan:
        if not jobs[gid]["walks"].get(cfg):
            continue
        r = _work((gid, impl, cfg))
        steps += r[0]
        nwalks += r[1]
        mism += r[2]
        per[impl] = per.get(impl, 0) + r[0]
    return steps, nwalks, mism, per


# ----------------------------------------------------------------------------- shards: fresh interpreters, one per plan slice
# (forked workers inheriting the parsed graphs spend seconds in copy-on-write faults before their first step; a fresh
#  interpreter that unpickles only the graphs of its slice does not, and is the only way to load the compiled binaries)
def write_jobs(workdir, jobs):
    files = {}
    for gid, job in jobs.items():
        fn = os.path.join(workdir, "job_%s.pkl" % gid)
        with open(fn, "wb") as f:
            pickle.dump(job, f, protocol=pickle.HIGHEST_PROTOCOL)
        files[gid] = fn
    return files


def split(plan, est, k):
    """balance [(gid, impl, cfg)] into <= k slices by estimated steps est[(gid, cfg)]"""
    k = max(1, min(k, len(plan)))
    bins = [[0, []] for _ in range(k)]
    for item in sorted(plan, key=lambda it: -est[(it[0], it[2])]):
        b = min(bins, key=lambda x: x[0])
        b[0] += est[(item[0], item[2])]
        b[1].append(item)
    return [b[1] for b in bins if b[1]]


def launch(workdir, name, files, plan, compiled=False):
    import subprocess
    spec = os.path.join(workdir, "shard_%s.json" % name)
    out = os.path.join(workdir, "shard_%s.out.json" % name)
    with open(spec, "w") as f:
        json.dump({"files": {gid: files[gid] for gid in sorted(set(it[0] for it in plan))}, "plan": plan}, f)
    env = dict(os.environ, PYTHONHASHSEED="0", PYTHONDONTWRITEBYTECODE="1")
    env.pop("PYTHONPATH", None)
    env.pop("VERIF_COMPILED", None)
    if compiled:
        env["VERIF_COMPILED"] = "1"
    root = os.path.dirname(os.path.dirname(os.path.abspath(__file__)))
    p = subprocess.Popen([sys.executable, "-m", "checks.resultcursor_driver", spec, out], cwd=root, env=env,
                         stdout=subprocess.PIPE, stderr=subprocess.STDOUT, text=True)
    return {"proc": p, "out": out, "name": name, "compiled": compiled}


def collect(h, timeout=3000):
    """-> result dict or raises RuntimeError (machinery)"""
    try:
        txt, _ = h["proc"].communicate(timeout=timeout)
    except Exception:
        h["proc"].kill()
        raise RuntimeError("replay shard %s timed out" % h["name"])
    if h["proc"].returncode != 0 or not os.path.exists(h["out"]):
        raise RuntimeError("replay shard %s failed (exit %s): %s" % (h["name"], h["proc"].returncode, (txt or "")[-2000:]))
    with open(h["out"]) as f:
        res = json.load(f)
    if res["compiled"] != h["compiled"]:
        raise RuntimeError("replay shard %s: compiled=%r expected %r (%s)" % (h["name"], res["compiled"], h["compiled"], res["result_cy"]))
    return res


def main(argv):
    """python -m checks.resultcursor_driver shard.json out.json   (VERIF_COMPILED=1 keeps the prebuilt binaries)"""
    root = os.path.dirname(os.path.dirname(os.path.abspath(__file__)))
    if root not in sys.path:
        sys.path.insert(0, root)
    from engine import purepy
    purepy.install()
    with open(argv[1]) as f:
        spec = json.load(f)
    from sqlalchemy.engine import _result_cy, _row_cy
    compiled = bool(_result_cy._is_compiled() and _row_cy._is_compiled())
    t0 = time.time()
    steps = nwalks = 0
    mism, per = [], {}
    plan = [tuple(x) for x in spec["plan"]]
    global _JOBS
    for gid in sorted(set(it[0] for it in plan)):        # one graph in memory at a time
        _JOBS = None
        with open(spec["files"][gid], "rb") as f:
            jobs = {gid: pickle.load(f)}
        r = replay(jobs, [it for it in plan if it[0] == gid])
        steps += r[0]
        nwalks += r[1]
        mism += r[2]
        for k, v in r[3].items():
            per[k] = per.get(k, 0) + v
        del jobs
    with open(argv[2], "w") as f:
        json.dump({"compiled": compiled, "steps": steps, "walks": nwalks, "mismatches": mism[:2000], "nmismatches": len(mism),
                   "per_impl": per, "result_cy": _result_cy.__file__, "wall": round(time.time() - t0, 2)}, f)
    return 0


if __name__ == "__main__":
    sys.exit(main(sys.argv))
