"""Generated flushes on three more schema shapes for C31 (code -> spec): self-referential tree, mutual FK cycle with post_update,
many-to-many association.  Each case: a committed starting graph, then a batch of in-memory changes (new objects, re-parenting /
re-linking, deletes) and ONE flush on SQLite with foreign_keys=ON.  Recorded: the rows in the transaction before the flush, every
DML statement with parameters (generic normalisation from the compiled statement's table metadata), the outcome, the rows after a
successful flush, and the INTENDED final rows = plain projection of the in-memory objects (live objects, their references to live
objects).  TraceUow.tla judges the statement order and evaluates C31's antecedent on the intended rows."""
import os
import re

_DML = re.compile(r"^\s*(INSERT INTO|UPDATE|DELETE FROM)\s+(\w+)", re.I)
_M = {}


def models():
    if _M:
        return _M
    import sqlalchemy as sa
    from sqlalchemy import orm

    class Base(orm.DeclarativeBase):
        pass

    # two self-referential mappings: default cascade and all (delete cascades down the tree)
    class Node0(Base):
        __tablename__ = "n0"
        id = sa.Column(sa.Integer, primary_key=True, autoincrement=False)
        parent_id = sa.Column(sa.Integer, sa.ForeignKey("n0.id"), nullable=True)
        children = orm.relationship("Node0", back_populates="parent")
        parent = orm.relationship("Node0", back_populates="children", remote_side=[id])

    class Node1(Base):
        __tablename__ = "n1"
        id = sa.Column(sa.Integer, primary_key=True, autoincrement=False)
        parent_id = sa.Column(sa.Integer, sa.ForeignKey("n1.id"), nullable=True)
        children = orm.relationship("Node1", back_populates="parent", cascade="all")
        parent = orm.relationship("Node1", back_populates="children", remote_side=[id])

    class A(Base):
        __tablename__ = "a"
        id = sa.Column(sa.Integer, primary_key=True, autoincrement=False)
        b_id = sa.Column(sa.Integer, sa.ForeignKey("b.id"), nullable=True)
        b = orm.relationship("B", foreign_keys=[b_id], post_update=True)

    class B(Base):
        __tablename__ = "b"
        id = sa.Column(sa.Integer, primary_key=True, autoincrement=False)
        a_id = sa.Column(sa.Integer, sa.ForeignKey("a.id"), nullable=True)
        a = orm.relationship("A", foreign_keys=[a_id])

    lr = sa.Table("lr", Base.metadata,
                  sa.Column("l_id", sa.Integer, sa.ForeignKey("l.id"), primary_key=True),
                  sa.Column("r_id", sa.Integer, sa.ForeignKey("r.id"), primary_key=True))

    class L(Base):
        __tablename__ = "l"
        id = sa.Column(sa.Integer, primary_key=True, autoincrement=False)
        rs = orm.relationship("R", secondary=lr, back_populates="ls")

    class R(Base):
        __tablename__ = "r"
        id = sa.Column(sa.Integer, primary_key=True, autoincrement=False)
        ls = orm.relationship("L", secondary=lr, back_populates="rs")

    # adjacency-list node (self-referential FK: the mapper sits in a unit-of-work cycle) that also carries a UNIDIRECTIONAL
    # self-referential many-to-many: the association rows are handled by the per-state path of _ManyToManyDP
    glinks = sa.Table("glinks", Base.metadata,
                      sa.Column("src_id", sa.Integer, sa.ForeignKey("g.id"), primary_key=True),
                      sa.Column("dst_id", sa.Integer, sa.ForeignKey("g.id"), primary_key=True))

    class G(Base):
        __tablename__ = "g"
        id = sa.Column(sa.Integer, primary_key=True, autoincrement=False)
        parent_id = sa.Column(sa.Integer, sa.ForeignKey("g.id"), nullable=True)
        parent = orm.relationship("G", remote_side=[id])
        related = orm.relationship("G", secondary=glinks, primaryjoin=id == glinks.c.src_id, secondaryjoin=id == glinks.c.dst_id)

    # unidirectional one-to-many (no many-to-one side): only the one-to-many processor synchronises the FK
    class UP(Base):
        __tablename__ = "up"
        id = sa.Column(sa.Integer, primary_key=True, autoincrement=False)
        kids = orm.relationship("UC")

    class UC(Base):
        __tablename__ = "uc"
        id = sa.Column(sa.Integer, primary_key=True, autoincrement=False)
        up_id = sa.Column(sa.Integer, sa.ForeignKey("up.id"), nullable=True)

    orm.configure_mappers()
    _M.update(Base=Base, Node0=Node0, Node1=Node1, A=A, B=B, L=L, R=R, lr=lr, G=G, glinks=glinks, UP=UP, UC=UC)
    return _M


class Harness:
    def __init__(self, workdir):
        import sqlalchemy as sa
        from sqlalchemy import event, orm
        from sqlalchemy.pool import NullPool
        self.sa, self.orm = sa, orm
        self.m = models()
        os.makedirs(workdir, exist_ok=True)
        self.path = os.path.join(workdir, "shapes.sqlite")
        if os.path.exists(self.path):
            os.unlink(self.path)
        self.engine = sa.create_engine("sqlite:///" + self.path, connect_args={"autocommit": False}, poolclass=NullPool)

        @event.listens_for(self.engine, "connect")
        def _fk(dbapi_conn, rec):
            ac = dbapi_conn.autocommit
            dbapi_conn.autocommit = True
            cur = dbapi_conn.cursor()
            cur.execute("PRAGMA foreign_keys=ON")
            cur.close()
            dbapi_conn.autocommit = ac

        self.events = []
        self.batch = 0
        self.recording = False

        @event.listens_for(self.engine, "before_cursor_execute")
        def _bce(conn, cursor, statement, parameters, context, executemany):
            if not self.recording:
                return
            m = _DML.match(statement)
            if not m or context is None or context.compiled is None:
                return
            self.batch += 1
            self.events += normalise(m.group(1).split()[0].upper(), context.compiled, parameters if executemany else [parameters], self.batch)

        self.m["Base"].metadata.create_all(self.engine)
        with self.engine.connect() as c:
            self.fk_on = c.exec_driver_sql("PRAGMA foreign_keys").scalar() == 1

    def tables(self, names):
        md = self.m["Base"].metadata
        return [md.tables[n] for n in names]

    def schema(self, names):
        out = []
        for t in self.tables(names):
            for col in t.columns:
                for fk in col.foreign_keys:
                    out.append({"t": t.name, "col": col.name, "ref": fk.column.table.name, "nullable": bool(col.nullable) and not col.primary_key})
        return out

    def rows(self, conn, names):
        out = []
        for t in self.tables(names):
            pk = [c.name for c in t.primary_key.columns]
            fks = sorted(c.name for c in t.columns if c.foreign_keys)
            for r in conn.execute(self.sa.select(t)).mappings():
                out.append({"t": t.name, "pk": "-".join(str(r[c]) for c in pk),
                            "cols": [{"col": c, "val": "null" if r[c] is None else str(r[c])} for c in fks]})
        out.sort(key=lambda x: (x["t"], x["pk"]))
        return out

    def wipe(self, names):
        import sqlite3
        raw = sqlite3.connect(self.path, isolation_level=None)
        raw.execute("PRAGMA foreign_keys=OFF")
        for n in names:
            raw.execute("delete from %s" % n)
        raw.close()


def normalise(op, compiled, plist, batch=0):
    table = compiled.statement.table
    pkcols = [c.name for c in table.primary_key.columns]
    fkcols = sorted(c.name for c in table.columns if c.foreign_keys)
    names = list(compiled.positiontup or [])
    out = []
    for prm in plist:
        d = dict(prm) if isinstance(prm, dict) else dict(zip(names, prm))

        def get(col):
            if op != "INSERT" and (table.name + "_" + col) in d:
                return d[table.name + "_" + col]
            return d.get(col)
        pk = "-".join(str(get(c)) for c in pkcols)
        if op == "INSERT":
            cols = [{"col": c, "val": "null" if d.get(c) is None else str(d[c])} for c in fkcols]
        elif op == "UPDATE":
            cols = [{"col": c, "val": "null" if d[c] is None else str(d[c])} for c in fkcols if c in d]
        else:
            cols = []
        out.append({"op": op, "t": table.name, "pk": pk, "cols": cols, "batch": batch})
    return out


# ---------------------------------------------------------------------------------------------------------------- shapes
def _tree_case(h, rng, cls_name):
    """self-referential tree: phase 1 commits a forest of 2-4 nodes; phase 2 mixes new nodes, re-parenting and deletes"""
    Node = h.m[cls_name]
    tname = Node.__tablename__
    cascade_all = cls_name == "Node1"
    s = h.orm.Session(h.engine, autoflush=False)
    nodes = {}
    n1 = rng.randint(2, 4)
    for i in range(1, n1 + 1):
        par = nodes[rng.randint(1, i - 1)] if i > 1 and rng.random() < 0.7 else None
        nodes[i] = Node(id=i, parent=par, children=[])
    s.add_all(nodes.values())
    s.commit()
    for n in nodes.values():
        n.children, n.parent   # load both sides
    deleted = set()
    moved = set()
    committed_parent = {n.id: (n.parent.id if n.parent is not None else None) for n in nodes.values()}

    def descendants(n):
        out, st = set(), [n]
        while st:
            x = st.pop()
            for c in x.children:
                if c.id not in out:
                    out.add(c.id)
                    st.append(c)
        return out

    nxt = n1 + 1
    for _ in range(rng.randint(2, 5)):
        live = [n for n in nodes.values() if n.id not in deleted]
        op = rng.choice(["new", "move", "delete", "detach"])
        if op == "new" and nxt <= 6:
            par = rng.choice(live) if live and rng.random() < 0.8 else None
            nodes[nxt] = Node(id=nxt, children=[], parent=par)
            s.add(nodes[nxt])
            nxt += 1
        elif op == "move" and len(live) >= 2:
            n = rng.choice(live)
            cands = [x for x in live if x is not n and x.id not in descendants(n)]
            if cands:
                n.parent = rng.choice(cands)
                moved.add(n.id)
        elif op == "detach" and live:
            n = rng.choice(live)
            n.parent = None
            moved.add(n.id)
        elif op == "delete" and live:
            n = rng.choice(live)
            # (a delete-marked object that was re-parented in the same batch is the C30 single-flush finding: not generated here)
            if n not in s.new and n.id not in moved:
                if cascade_all:
                    sub = descendants(n)
                    if any(nodes[i] in s.new or i in moved for i in sub):
                        continue
                    deleted |= sub | {n.id}
                else:
                    for c in list(n.children):       # unambiguous final state: children are re-parented to the grandparent / detached first
                        if c.id in deleted:           # (re-parenting a delete-marked child is the C30 finding: not generated)
                            continue
                        c.parent = n.parent if (n.parent is not None and n.parent.id not in deleted) else None
                        moved.add(c.id)
                    deleted.add(n.id)
                s.delete(n)
    intended = []
    for n in nodes.values():
        if n.id in deleted:
            continue
        p = n.parent
        intended.append({"t": tname, "pk": str(n.id), "cols": [{"col": "parent_id", "val": "null" if p is None else str(p.id)}]})

    def ancestors(pmap, i):
        out = []
        while pmap.get(i) is not None and pmap[i] not in out:
            i = pmap[i]
            out.append(i)
        return out
    final_parent = {n.id: (n.parent.id if n.parent is not None else None) for n in nodes.values() if n.id not in deleted}
    # ancestor inversion: x was above y in the committed tree and is below y in the final tree
    inversion = any(y in committed_parent and x in ancestors(committed_parent, y) and y in ancestors(final_parent, x)
                    for x in final_parent for y in final_parent if x != y)
    return s, [tname], intended, "self-referential tree (%s cascade)%s" % ("all" if cascade_all else "default", ", ancestor inversion" if inversion else "")


def _cycle_case(h, rng):
    A, B = h.m["A"], h.m["B"]
    s = h.orm.Session(h.engine, autoflush=False)
    As = {i: A(id=i) for i in (1, 2)}
    Bs = {i: B(id=i) for i in (1, 2)}
    for i in (1, 2):
        if rng.random() < 0.7:
            As[i].b = Bs[rng.choice((1, 2))]
        if rng.random() < 0.7:
            Bs[i].a = As[rng.choice((1, 2))]
    s.add_all(list(As.values()) + list(Bs.values()))
    s.commit()
    for o in list(As.values()):
        o.b
    for o in list(Bs.values()):
        o.a
    dead = set()
    na, nb = 3, 3
    for _ in range(rng.randint(2, 5)):
        op = rng.choice(["linka", "linkb", "newpair", "delete", "unlink"])
        la = [a for a in As.values() if ("a", a.id) not in dead]
        lb = [b for b in Bs.values() if ("b", b.id) not in dead]
        if op == "linka" and la and lb:
            rng.choice(la).b = rng.choice(lb)
        elif op == "linkb" and la and lb:
            rng.choice(lb).a = rng.choice(la)
        elif op == "unlink" and la and lb:
            if rng.random() < 0.5:
                rng.choice(la).b = None
            else:
                rng.choice(lb).a = None
        elif op == "newpair" and na <= 3:
            a, b = A(id=na), B(id=nb)
            a.b, b.a = b, a
            As[na], Bs[nb] = a, b
            s.add_all([a, b])
            na += 1
            nb += 1
        elif op == "delete":
            cand = [x for x in la + lb if x not in s.new]
            if cand:
                x = rng.choice(cand)
                # unambiguous final state: nobody keeps a reference to the deleted object
                for a in la:
                    if a.b is x:
                        a.b = None
                for b in lb:
                    if b.a is x:
                        b.a = None
                dead.add(("a" if isinstance(x, A) else "b", x.id))
                s.delete(x)
    intended = []
    for a in As.values():
        if ("a", a.id) not in dead:
            intended.append({"t": "a", "pk": str(a.id), "cols": [{"col": "b_id", "val": "null" if a.b is None else str(a.b.id)}]})
    for b in Bs.values():
        if ("b", b.id) not in dead:
            intended.append({"t": "b", "pk": str(b.id), "cols": [{"col": "a_id", "val": "null" if b.a is None else str(b.a.id)}]})
    return s, ["a", "b"], intended, "mutual FK cycle with post_update"


def _m2m_case(h, rng):
    L, R = h.m["L"], h.m["R"]
    s = h.orm.Session(h.engine, autoflush=False)
    Ls = {i: L(id=i, rs=[]) for i in (1, 2)}
    Rs = {i: R(id=i, ls=[]) for i in (1, 2)}
    for l in Ls.values():
        for r in Rs.values():
            if rng.random() < 0.5:
                l.rs.append(r)
    s.add_all(list(Ls.values()) + list(Rs.values()))
    s.commit()
    for l in Ls.values():
        l.rs
    for r in Rs.values():
        r.ls
    dead = set()
    linked = set()      # objects that received a NEW link in this batch: deleting them too would leave the intended final state ambiguous
    for _ in range(rng.randint(2, 5)):
        ll = [x for x in Ls.values() if ("l", x.id) not in dead]
        rr = [x for x in Rs.values() if ("r", x.id) not in dead]
        op = rng.choice(["link", "unlink", "new", "delete"])
        if op == "link" and ll and rr:
            l, r = rng.choice(ll), rng.choice(rr)
            if r not in l.rs:
                l.rs.append(r)
                linked |= {id(l), id(r)}
        elif op == "unlink" and ll:
            l = rng.choice(ll)
            if l.rs:
                l.rs.remove(rng.choice(list(l.rs)))
        elif op == "new" and 3 not in Ls:
            Ls[3] = L(id=3, rs=[])
            s.add(Ls[3])
            if rr:
                r = rng.choice(rr)
                Ls[3].rs.append(r)
                linked |= {id(Ls[3]), id(r)}
        elif op == "delete":
            cand = [x for x in ll + rr if x not in s.new and id(x) not in linked]
            if cand:
                x = rng.choice(cand)
                dead.add(("l" if isinstance(x, L) else "r", x.id))
                s.delete(x)
    intended = [{"t": "l", "pk": str(l.id), "cols": []} for l in Ls.values() if ("l", l.id) not in dead]
    intended += [{"t": "r", "pk": str(r.id), "cols": []} for r in Rs.values() if ("r", r.id) not in dead]
    for l in Ls.values():
        if ("l", l.id) in dead:
            continue
        for r in l.rs:
            if ("r", r.id) not in dead:
                intended.append({"t": "lr", "pk": "%d-%d" % (l.id, r.id),
                                 "cols": [{"col": "l_id", "val": str(l.id)}, {"col": "r_id", "val": str(r.id)}]})
    return s, ["l", "r", "lr"], intended, "many-to-many association"


def _gm2m_case(h, rng):
    """cyclic mapper + unidirectional many-to-many: a committed tree of 3-4 nodes with `related` links; the batch unlinks members,
    deletes nodes (after unlinking them everywhere and re-parenting their children), links, re-parents and adds nodes"""
    G = h.m["G"]
    s = h.orm.Session(h.engine, autoflush=False)
    n0 = rng.randint(3, 4)
    nodes = {}
    for i in range(1, n0 + 1):
        nodes[i] = G(id=i, parent=(nodes[rng.randint(1, i - 1)] if i > 1 and rng.random() < 0.85 else None), related=[])
    for i in nodes:
        for j in nodes:
            if i != j and rng.random() < 0.45:
                nodes[i].related.append(nodes[j])
    s.add_all(nodes.values())
    s.commit()
    for x in nodes.values():
        x.parent, x.related
    dead = set()
    linked = set()     # nodes that received a NEW link in this batch are not deleted in it (intended final state stays unambiguous)
    nxt = n0 + 1

    def ancestors(x):
        out = set()
        while x.parent is not None and x.parent.id not in out:
            x = x.parent
            out.add(x.id)
        return out

    for _ in range(rng.randint(2, 5)):
        live = [x for x in nodes.values() if x.id not in dead]
        op = rng.choice(["unlink", "unlink+delete", "unlink+delete", "link", "move", "new"])
        if op == "unlink" and live:
            a = rng.choice(live)
            if a.related:
                a.related.remove(rng.choice(list(a.related)))
        elif op == "unlink+delete":
            cand = [x for x in live if x not in s.new and id(x) not in linked]
            if cand:
                b = rng.choice(cand)
                for a in live:
                    if b in a.related:
                        a.related.remove(b)          # every holder lets go of b ...
                for c in live:
                    if c.parent is b:
                        c.parent = b.parent if (b.parent is not None and b.parent.id not in dead) else None
                dead.add(b.id)
                s.delete(b)                            # ... and b is deleted in the same flush (b keeps its own parent and links)
        elif op == "link" and len(live) >= 2:
            a, b = rng.sample(live, 2)
            if b not in a.related:
                a.related.append(b)
                linked |= {id(a), id(b)}
        elif op == "move" and len(live) >= 2:
            a, b = rng.sample(live, 2)
            if a.id not in ancestors(b) and a is not b:
                a.parent = b
        elif op == "new" and nxt <= 5 and live:
            p = rng.choice(live)
            nodes[nxt] = G(id=nxt, parent=p, related=[])
            s.add(nodes[nxt])
            if rng.random() < 0.6:
                t = rng.choice(live)
                nodes[nxt].related.append(t)
                linked |= {id(nodes[nxt]), id(t)}
            nxt += 1
    intended = []
    for x in nodes.values():
        if x.id in dead:
            continue
        par = x.parent
        intended.append({"t": "g", "pk": str(x.id), "cols": [{"col": "parent_id", "val": "null" if par is None or par.id in dead else str(par.id)}]})
        for y in x.related:
            if y.id not in dead:
                intended.append({"t": "glinks", "pk": "%d-%d" % (x.id, y.id),
                                 "cols": [{"col": "dst_id", "val": str(y.id)}, {"col": "src_id", "val": str(x.id)}]})
    return s, ["g", "glinks"], intended, "cyclic mapper with unidirectional many-to-many"


def _uni_o2m_case(h, rng):
    """unidirectional one-to-many: new parents with new children, moves between collections, removals, deletes"""
    UP, UC = h.m["UP"], h.m["UC"]
    s = h.orm.Session(h.engine, autoflush=False)
    ps = {i: UP(id=i, kids=[]) for i in (1, 2)}
    cs = {i: UC(id=i) for i in (1, 2, 3)}
    for c in cs.values():
        if rng.random() < 0.7:
            ps[rng.choice((1, 2))].kids.append(c)
    s.add_all(list(ps.values()) + list(cs.values()))
    s.commit()
    for p in ps.values():
        p.kids
    dead = set()
    np_, nc_ = 3, 4
    for _ in range(rng.randint(2, 5)):
        lp = [p for p in ps.values() if ("p", p.id) not in dead]
        lc = [c for c in cs.values() if ("c", c.id) not in dead]
        op = rng.choice(["newp", "newc", "move", "remove", "delc", "delp"])
        holder = lambda c: next((p for p in lp if c in p.kids), None)
        if op == "newp" and np_ <= 3:
            ps[np_] = UP(id=np_, kids=[])
            cs[nc_] = UC(id=nc_)
            ps[np_].kids.append(cs[nc_])
            s.add(ps[np_])
            np_ += 1
            nc_ += 1
        elif op == "newc" and nc_ <= 5 and lp:
            cs[nc_] = UC(id=nc_)
            rng.choice(lp).kids.append(cs[nc_])
            nc_ += 1
        elif op == "move" and lc and len(lp) >= 1:
            c = rng.choice(lc)
            old = holder(c)
            new = rng.choice(lp)
            if old is not new:
                if old is not None:
                    old.kids.remove(c)
                new.kids.append(c)
        elif op == "remove" and lc:
            c = rng.choice(lc)
            old = holder(c)
            if old is not None:
                old.kids.remove(c)
        elif op == "delc":
            cand = [c for c in lc if c not in s.new and c in s]
            if cand:
                c = rng.choice(cand)
                old = holder(c)
                if old is not None:
                    old.kids.remove(c)
                dead.add(("c", c.id))
                s.delete(c)
        elif op == "delp":
            cand = [p for p in lp if p not in s.new]
            if cand:
                p = rng.choice(cand)
                for c in list(p.kids):
                    p.kids.remove(c)
                dead.add(("p", p.id))
                s.delete(p)
    intended = [{"t": "up", "pk": str(p.id), "cols": []} for p in ps.values() if ("p", p.id) not in dead and p in s]
    for c in cs.values():
        if ("c", c.id) in dead or c not in s:
            continue
        hp = next((p for p in ps.values() if ("p", p.id) not in dead and c in p.kids), None)
        intended.append({"t": "uc", "pk": str(c.id), "cols": [{"col": "up_id", "val": "null" if hp is None else str(hp.id)}]})
    return s, ["up", "uc"], intended, "unidirectional one-to-many"


def generate(chk, rng, n, start_id):
    import warnings
    h = Harness(os.path.join(chk.work, "shapes"))
    if not h.fk_on:
        chk.machinery("calibration: PRAGMA foreign_keys is not ON for the shapes engine")
    out = []
    stats = {}
    makers = [lambda: _tree_case(h, rng, "Node0"), lambda: _tree_case(h, rng, "Node1"), lambda: _cycle_case(h, rng), lambda: _m2m_case(h, rng),
              lambda: _gm2m_case(h, rng), lambda: _uni_o2m_case(h, rng)]
    seen = set()
    import json
    for i in range(n):
        h.wipe(["lr", "glinks", "uc", "n0", "n1", "a", "b", "l", "r", "g", "up"])
        h.recording = False
        try:
            s, names, intended, shape = makers[i % len(makers)]()
        except Exception as e:      # the committed starting graph (plain inserts of a consistent graph) could not be flushed
            shape = ["self-referential tree (default cascade)", "self-referential tree (all cascade)", "mutual FK cycle with post_update",
                     "many-to-many association", "cyclic mapper with unidirectional many-to-many",
                     "unidirectional one-to-many"][i % len(makers)] + ", starting graph"
            st = stats.setdefault(shape, {"flushes": 0, "ok": 0, "integrity_error": 0, "statements": 0})
            st["flushes"] += 1
            st[type(e).__name__] = st.get(type(e).__name__, 0) + 1
            if st[type(e).__name__] <= 3:
                out.append({"id": start_id + len(out), "shape": shape, "kind": "fail", "ev": [], "exc": type(e).__name__,
                            "violation": "commit of the starting graph raised %s on shape %s: %s" % (type(e).__name__, shape, str(e)[:200])})
            continue
        pre = h.rows(s.connection(), names)
        h.events = []
        h.recording = True
        exc = None
        with warnings.catch_warnings():
            warnings.simplefilter("ignore")
            try:
                s.flush()
            except Exception as e:
                exc = e
        h.recording = False
        st = stats.setdefault(shape, {"flushes": 0, "ok": 0, "integrity_error": 0, "statements": 0})
        st["flushes"] += 1
        st["statements"] += len(h.events)
        intended.sort(key=lambda x: (x["t"], x["pk"]))
        rec = {"id": start_id + len(out), "shape": shape, "schema": h.schema(names), "init": pre, "ev": list(h.events), "has_intended": True,
               "intended": intended, "final": [], "spec_ret": "-"}
        if exc is None:
            rec["kind"] = "ok"
            rec["final"] = h.rows(s.connection(), names)
            st["ok"] += 1
            if rec["final"] != intended:
                # the flush "succeeded" but did not write the in-memory graph (e.g. a statement emitted before its FK value was synchronised):
                # the generator only produces batches whose intended rows are unambiguous, so this is reported (kind rows-differ-from-projection)
                st["final_differs_from_projection"] = st.get("final_differs_from_projection", 0) + 1
                rec["exc"] = "rows-differ"
                rec["violation"] = "flush succeeded on shape %s but the rows %s differ from the projection of the in-memory graph %s (statements %s)" % (
                    shape, json.dumps(rec["final"])[:300], json.dumps(intended)[:300], json.dumps(rec["ev"])[:300])
        elif type(exc).__name__ == "IntegrityError":
            rec["kind"] = "fail"
            st["integrity_error"] += 1
        else:
            rec["kind"] = "fail"
            rec["ev"] = []
            rec["exc"] = type(exc).__name__
            st[rec["exc"]] = st.get(rec["exc"], 0) + 1
            rec["violation"] = "flush raised %s on shape %s although the intended final rows %s satisfy every constraint: %s" % (
                type(exc).__name__, shape, json.dumps(intended)[:300], str(exc)[:160])
        try:
            s.rollback()
            s.close()
        except Exception:
            pass
        key = json.dumps([rec["shape"], rec["init"], rec["ev"], rec["kind"]], sort_keys=True)
        if key in seen and not rec.get("violation"):
            continue
        seen.add(key)
        if rec["ev"] or rec.get("violation"):
            out.append(rec)
    h.engine.dispose()
    return out, stats
