"""C06 identifier quoting round-trips every representable name - Lexers.tla (DESIGN 3.12, 4 C06, 6 C06).

TLC: Quote(n) as IdentifierPreparer must emit it (bare iff all lower case, only legal characters, legal initial character, not a
reserved word - the three tables EXTRACTED from the working tree per dialect) is read by the backend's lexer as exactly one
identifier token naming n, alone and between other tokens (IdentOK), for every name up to the bound over 18 quote/escape-weighted
characters plus every reserved word of the dialect, every keyword of SQLite's grammar and case variants; a bare word must not be a
keyword of the BACKEND - for SQLite that set is MEASURED (each candidate used unquoted on sqlite3) - nor start with a digit or $
(the backend's rule, stated in the specification and calibrated on SQLite the same way; a second family enumerates every name over
{0 1 9 a _ $} so each digit class / _ / $ occurs in first and later positions).  Dotted names: the lexer reads
Format(parts) as name . name and the transcription of unformat_identifiers' regular expression recovers the parts (DottedOK).
Binding: quote / quote_identifier / _requires_quotes / format_table / format_column / unformat_identifiers of 7 dialect
configurations must EQUAL the specification; on SQLite every name is used as table, column, index, constraint (unique, check,
foreign key) and schema name: DDL, INSERT, SELECT, UPDATE..RETURNING, DELETE execute and the Inspector returns the same name.
"""
import os
import random
import sqlite3

from checks import lexers_common as lc

LEVEL = "model_checking"
MANIFEST = dict(
    text="Lexers.tla: identifier lexers of SQLite / PostgreSQL / MySQL / MSSQL / Oracle (delimiters \" ` [] and their doubling rules) and "
         "the conditional-quoting rule with the dialect's reserved words, legal characters and illegal initial characters extracted from "
         "the working tree at run time; TLC proves for every name of <=2 (quick) / <=3 (thorough) characters over 18 characters plus every "
         "reserved word / SQLite grammar keyword that the emitted identifier is exactly one identifier token naming the input (bare words "
         "must not be keywords of the backend: measured on SQLite by using each candidate unquoted; nor start with a digit or $: the backend's "
         "rule, calibrated on SQLite, with all names <=2/3 over {0,1,9,a,_,$} + 007, 0_day, 0x10, <d>lives enumerated for every dialect), and that formatted dotted names split "
         "back into their components. quote/format_table/format_column/unformat_identifiers of 7 dialect configurations must equal the "
         "specification; on SQLite every name (incl. all keywords) is used as table, column, index, unique/check/foreign-key constraint and "
         "schema name through DDL, INSERT, SELECT, UPDATE..RETURNING, DELETE and reflection, which must return the same name.",
    design_ref="3.12, 4 (C06), 6 (C06)",
    note="trusted: TLC; the identifier grammar of each backend as transcribed (SQLite's exercised by execution; others from documentation); "
         "keyword sets of PostgreSQL / MySQL / MSSQL / Oracle cannot be measured here (assumed = the dialect's own list); format/pyformat "
         "drivers halve %%; unformat_identifiers is applied to the text the backend sees (after the driver's %% halving)",
    technique="TLA+ spec (Lexers.tla) + TLC exhaustive theorem checking over all names within the bound; spec->code replay of every name; "
              "backend keyword set measured by execution")


def _special(s):
    return "".join(sorted(set(c for c in s if not (c.isalnum() and ord(c) < 128) and c != "_")))


def _sq(n):
    """SQLite's own delimited identifier (harness-side, for set-up statements only)"""
    return '"' + n.replace('"', '""') + '"'


class _Skip(Exception):
    pass


class SqliteRoundTrip:
    """use one name as table / column / constraint / index / schema name on a real SQLite database"""

    def __init__(self, chk, path):
        import sqlalchemy as sa
        self.sa = sa
        self.chk = chk
        self.eng = sa.create_engine("sqlite:///" + path)
        self.n = 0
        self.steps = 0

    def violation(self, name, kind, step, what, cls):
        self.chk.violation(dict(spec="Lexers", action="sqlite_roundtrip", kind=kind, step=step, special=_special(name), name_class=cls),
                           "SQLite, name %r as %s: %s" % (name, kind, what), dict(name=name, kind=kind, step=step, what=what))

    def run(self, n, cls):
        sa = self.sa
        self.n += 1
        eng = self.eng
        fixed = "zz_other"
        # ---------------- round A: table, column, unique / check / foreign key constraint names
        md = sa.MetaData()
        parent = sa.Table(n, md, sa.Column(n, sa.Integer, primary_key=True), sa.Column(fixed, sa.Integer),
                          sa.UniqueConstraint(fixed, name=n))
        child = sa.Table("zz_child", md, sa.Column("id", sa.Integer, primary_key=True), sa.Column(n, sa.Integer),
                         sa.ForeignKeyConstraint([n], [parent.c[n]], name=n), sa.CheckConstraint(sa.column(n) >= 0, name=n))
        step = "create_all"
        try:
            md.create_all(eng)
            with eng.begin() as conn:
                step = "insert"
                conn.execute(parent.insert(), [{n: 41, fixed: 7}, {n: 5, fixed: 8}])
                conn.execute(child.insert().values({n: 41, "id": 1}))
                step = "select"
                got = conn.execute(sa.select(parent.c[n], parent.c[n].label(n)).where(parent.c[n] == 41).order_by(parent.c[n])).all()
                if got != [(41, 41)]:
                    self.violation(n, "column", step, "SELECT returned %r" % (got,), cls)
                got = conn.execute(sa.select(parent.c[n]).order_by(parent.c[n])).mappings().all()
                if [dict(r) for r in got] != [{n: 5}, {n: 41}]:
                    self.violation(n, "column", "result_keys", "row mappings %r" % (got,), cls)
                step = "join"
                got = conn.execute(sa.select(child.c.id, parent.c[fixed]).join_from(child, parent)).all()
                if got != [(1, 7)]:
                    self.violation(n, "table", step, "JOIN returned %r" % (got,), cls)
                step = "alias"
                a = parent.alias(n)
                got = conn.execute(sa.select(a.c[n]).where(a.c[fixed] == 8)).all()
                if got != [(5,)]:
                    self.violation(n, "alias", step, "aliased SELECT returned %r" % (got,), cls)
                step = "update_returning"
                got = conn.execute(parent.update().where(parent.c[n] == 5).values({n: 6}).returning(parent.c[n])).all()
                if got != [(6,)]:
                    self.violation(n, "column", step, "UPDATE..RETURNING returned %r" % (got,), cls)
                step = "delete"
                conn.execute(parent.delete().where(parent.c[n] == 6))
                if conn.execute(sa.select(sa.func.count()).select_from(parent)).scalar() != 1:
                    self.violation(n, "table", step, "row not deleted", cls)
            step = "inspect"
            insp = sa.inspect(eng)
            self._expect(n, "table", "get_table_names", sorted(insp.get_table_names()), sorted([n, "zz_child"]), cls)
            self._expect(n, "column", "get_columns", [c["name"] for c in insp.get_columns(n)], [n, fixed], cls)
            self._expect(n, "column", "get_pk_constraint", insp.get_pk_constraint(n)["constrained_columns"], [n], cls)
            self._expect(n, "unique_constraint", "get_unique_constraints",
                         [(u["name"], u["column_names"]) for u in insp.get_unique_constraints(n)], [(n, [fixed])], cls)
            self._expect(n, "foreign_key", "get_foreign_keys",
                         [(f["name"], f["constrained_columns"], f["referred_table"], f["referred_columns"]) for f in insp.get_foreign_keys("zz_child")],
                         [(n, [n], n, [n])], cls)
            self._expect(n, "check_constraint", "get_check_constraints", [c["name"] for c in insp.get_check_constraints("zz_child")], [n], cls)
            step = "autoload"
            md2 = sa.MetaData()
            t2 = sa.Table(n, md2, autoload_with=eng)
            self._expect(n, "table", "autoload", [c.name for c in t2.columns], [n, fixed], cls)
            self.steps += 14
        except (sa.exc.SQLAlchemyError, sqlite3.Error, KeyError, IndexError, TypeError, AttributeError, ValueError) as ex:
            self.violation(n, "table/column/constraint", step, "%s: %s" % (type(ex).__name__, str(ex).splitlines()[0][:150]), cls)
        finally:
            self._wipe()
        # ---------------- round B: index name, schema name
        md = sa.MetaData()
        t = sa.Table("zz_fixed", md, sa.Column("id", sa.Integer, primary_key=True), sa.Column(n, sa.Integer))
        sa.Index(n, t.c[n])
        ts = sa.Table("zz_t", md, sa.Column("id", sa.Integer, primary_key=True), sa.Column("v", sa.Integer), schema=n)
        step = "attach"
        try:
            with eng.connect() as conn:
                if n.lower() in ("main", "temp"):       # SQLite's own database names cannot be attached
                    raise _Skip()
                conn.exec_driver_sql("ATTACH DATABASE ':memory:' AS " + _sq(n))
                step = "create_all"
                md.create_all(conn)
                step = "insert"
                conn.execute(ts.insert(), [dict(id=1, v=3)])
                conn.execute(t.insert().values({n: 4, "id": 1}))
                step = "select"
                got = conn.execute(sa.select(ts.c.v, t.c[n]).join_from(ts, t, ts.c.id == t.c.id)).all()
                if got != [(3, 4)]:
                    self.violation(n, "schema", step, "schema-qualified SELECT returned %r" % (got,), cls)
                step = "inspect"
                insp = sa.inspect(conn)
                self._expect(n, "index", "get_indexes", [(i["name"], i["column_names"]) for i in insp.get_indexes("zz_fixed")], [(n, [n])], cls)
                if n not in insp.get_schema_names():
                    self.violation(n, "schema", "get_schema_names", "%r" % (insp.get_schema_names(),), cls)
                self._expect(n, "schema", "get_table_names(schema)", insp.get_table_names(schema=n), ["zz_t"], cls)
                self._expect(n, "schema", "get_columns(schema)", [c["name"] for c in insp.get_columns("zz_t", schema=n)], ["id", "v"], cls)
                step = "drop_all"
                md.drop_all(conn)
                conn.commit()
                conn.exec_driver_sql("DETACH DATABASE " + _sq(n))
            self.steps += 9
        except _Skip:
            pass
        except (sa.exc.SQLAlchemyError, sqlite3.Error, KeyError, IndexError, TypeError, AttributeError, ValueError) as ex:
            self.violation(n, "index/schema", step, "%s: %s" % (type(ex).__name__, str(ex).splitlines()[0][:150]), cls)
        finally:
            self._wipe()

    def _expect(self, n, kind, step, got, want, cls):
        if got != want:
            self.violation(n, kind, step, "reflection returns %r, expected %r" % (got, want), cls)

    def _wipe(self):
        self.eng.dispose()
        con = sqlite3.connect(self.eng.url.database)
        con.execute("PRAGMA foreign_keys=OFF")
        for typ, name in con.execute("SELECT type, name FROM sqlite_master WHERE name NOT LIKE 'sqlite_%'").fetchall():
            if typ in ("table", "index", "view"):
                try:
                    con.execute("DROP %s IF EXISTS %s" % (typ.upper(), _sq(name)))
                except sqlite3.Error:
                    pass
        con.commit()
        con.close()


def main(chk):
    import warnings
    import sqlalchemy as sa
    from sqlalchemy.sql.elements import quoted_name
    warnings.filterwarnings("ignore", category=sa.exc.SAWarning)
    rng = random.Random(chk.seed)
    dialects = {c: lc.make_dialect(c) for c in lc.IDENT_CONFIGS}
    # ---- the backend's keyword set: measured on SQLite, assumed (= the dialect's list) elsewhere
    sp = dialects["sqlite"].identifier_preparer
    candidates = sorted(set(lc.SQLITE_GRAMMAR_KEYWORDS) | set(lc.SQLITE_EXTRA_CANDIDATES) | set(sp.reserved_words))
    measured = lc.sqlite_keywords(None, candidates)
    if not {"select", "table", "from", "where"} <= set(measured) or "zz_plain" in lc.sqlite_keywords(None, ["zz_plain", "name"]):
        chk.machinery("calibration: the SQLite keyword measurement does not see SELECT/TABLE/FROM/WHERE as keywords (or rejects a plain name)")
    maxlen = 2 if chk.quick else 3
    fams = []
    variants = ["Select", "SELECT", "Table", "mixedCase", "UPPER", "lower_case", "with space", "a" * 40, "name", "col1", "_lead", "tr$il"]
    variants += lc.INITIAL_WORDS
    # ---- the backend's first-character rule, measured the same way: LexersTLA's NumberLike (a bare identifier may not start with a
    # digit or $) states what the BACKEND requires; it is never taken from the tree's illegal_initial_characters
    first_chars = list("0123456789$_a")
    measured_initial = lc.sqlite_illegal_initial(first_chars)
    if measured_initial != set("0123456789$"):
        chk.machinery("calibration: SQLite refuses bare identifiers starting with %r; Lexers.tla (NumberLike) says every digit and $"
                      % sorted(measured_initial))
    pct_only = ("sqlite_format", "pg_psycopg2")          # same preparer as sqlite / pg_asyncpg except for the %% doubling
    dotted_words = ["ab", "select", "a\"b", "x.y", "%%", "A"]
    for config, d in dialects.items():
        be = lc.backend_of(config)
        p = d.identifier_preparer
        kws = set(measured) if be == "sqlite" else set(p.reserved_words)
        words = sorted(set(p.reserved_words) | (set(candidates) if be == "sqlite" else set()) | set(variants))
        if chk.quick and len(words) > 260:          # MySQL: ~700 reserved words
            keep = set(rng.sample(sorted(p.reserved_words), 200)) | set(variants)
            words = sorted(w for w in words if w in keep)
        if config in pct_only:
            fams.append(lc.ident_family("ident@" + config, d, be, ["%", "a", "A", "\"", "_"], 3 if chk.quick else 4, kws, variants + ["select", "100%"]))
        else:
            fams.append(lc.ident_family("ident@" + config, d, be, lc.ID_ALPHA, maxlen, kws, words))
        # the first-character rule: digits / _ / $ / a letter in first and later positions, every dialect
        fams.append(lc.ident_family("initial@" + config, d, be, lc.ID_ALPHA_INITIAL, 2 if chk.quick else 3, kws, lc.INITIAL_WORDS))
        deep = not chk.quick or config == "sqlite"
        fams.append(lc.ident_family("dotted@" + config, d, be, lc.ID_ALPHA_SMALL, 2 if deep else 1, kws, [] if deep else dotted_words,
                                    mode="dotted", maxparts=2))
        if not chk.quick:
            fams.append(lc.ident_family("dotted3@" + config, d, be, lc.ID_ALPHA_SMALL, 1, kws, ["select", "ab"], mode="dotted", maxparts=3))
    # non-vacuity: a backend keyword the dialect does not list / a pyformat driver whose % is not doubled must break the theorems
    d0 = dialects["sqlite"]
    fams.append(lc.ident_family("MISMATCH:keyword-missing-from-reserved-words", d0, "sqlite", ["a"], 1, set(measured) | {"zzkeyword"}, ["zzkeyword"], expect=False))
    mm = lc.ident_family("MISMATCH:percent-not-doubled-for-format-driver", d0, "sqlite", ["%", "a"], 2, set(measured), [], expect=False)
    mm["drv_pct"] = True
    fams.append(mm)
    mm = lc.ident_family("MISMATCH:dotted-percent-not-doubled", d0, "sqlite", ["%", "a"], 1, set(measured), [], expect=False, mode="dotted", maxparts=2)
    mm["drv_pct"] = True
    fams.append(mm)
    r, by = lc.run(chk, fams, invariants=["IdentOK", "DottedOK"], tag="c06")
    expect = {f["name"]: f["expect"] for f in fams}
    famrec = {f["name"]: f for f in fams}
    nspec = 0
    for name, cases in by.items():
        bad = [c for c in cases if not c["ok"]]
        if not expect[name]:
            if not bad:
                chk.machinery("vacuous: the mismatched family %s satisfies the theorem" % name)
            continue
        for c in bad:
            nspec += 1
            config = name.split("@", 1)[1]
            if "n" in c:
                n = lc.dec(c["n"])
                kw = lc.enc(n.lower()) in famrec[name]["keywords"]
                chk.violation(dict(spec="Lexers", action="TLC", invariant="IdentOK", config=config, backend=lc.backend_of(config),
                                   reason="backend_keyword_not_reserved" if kw and not c["quoted"] else "lexing", special=_special(n)),
                              "TLC: IdentOK violated for %s: the name %r is emitted as %s, which the %s lexer does not read as one identifier "
                              "naming it%s" % (config, n, lc.dec(c["quote"]), lc.backend_of(config),
                                               " (it is a keyword of the backend missing from reserved_words)" if kw and not c["quoted"] else ""),
                              dict(config=config, name=n, emitted=lc.dec(c["quote"])))
            else:
                parts = [lc.dec(x) for x in c["parts"]]
                chk.violation(dict(spec="Lexers", action="TLC", invariant="DottedOK", config=config, backend=lc.backend_of(config),
                                   special=_special("".join(parts))),
                              "TLC: DottedOK violated for %s: %r is formatted as %s and splits into %r"
                              % (config, parts, lc.dec(c["fmt"]), [lc.dec(x) for x in c["unf"]]),
                              dict(config=config, parts=parts, fmt=lc.dec(c["fmt"])))
    if r.violated and not nspec:
        chk.machinery("TLC reports %s violated but no failing case was printed" % r.violated)

    # ------------------------------------------------------------------ binding 1: the preparers of every configuration
    evals = 0
    nontrivial = set()
    samples = []
    for config, d in dialects.items():
        p = d.identifier_preparer
        be = lc.backend_of(config)
        halve = lc.dblpct_of(d)
        for c in by["ident@" + config] + by["initial@" + config]:
            n = lc.dec(c["n"])
            want, forced = lc.dec(c["quote"]), lc.dec(c["forced"])
            sig = dict(spec="Lexers", config=config, backend=be, special=_special(n), quoted=c["quoted"])
            tbl = sa.table(n, sa.column(n))
            T = sa.Table(n, sa.MetaData(), sa.Column(n, sa.Integer))
            got = [("quote", p.quote(n), want), ("_requires_quotes", p._requires_quotes(n), c["quoted"]),
                   ("quote_identifier", p.quote_identifier(n), forced), ("quote(quoted_name True)", p.quote(quoted_name(n, True)), forced),
                   ("quote(quoted_name False)", p.quote(quoted_name(n, False)), n),
                   ("format_table", p.format_table(tbl), want), ("format_column", p.format_column(tbl.c[n]), want),
                   ("format_column(use_table)", p.format_column(T.c[n], use_table=True), want + "." + want),
                   ("format_label_name", p.format_label_name(n), want), ("format_alias", p.format_alias(None, n), want)]
            if be != "mssql":
                got.append(("quote_schema", p.quote_schema(n), want))
            for action, g, w in got:
                evals += 1
                if g != w:
                    chk.violation(dict(sig, action=action), "%s: %s(%r) = %r, specification %r" % (config, action, n, g, w),
                                  dict(config=config, action=action, name=n, got=g, want=w))
            if c["quoted"]:
                nontrivial.add((be, n))
        for fam in ("dotted@", "dotted3@"):
            for c in by.get(fam + config, ()):
                parts = [lc.dec(x) for x in c["parts"]]
                fmt, unf = lc.dec(c["fmt"]), [lc.dec(x) for x in c["unf"]]
                sig = dict(spec="Lexers", config=config, backend=be, special=_special("".join(parts)), nparts=len(parts))
                mssql_multipart = be == "mssql" and any(ch in parts[0] for ch in ".[]")      # documented "database.owner" syntax of schema=
                if len(parts) == 2:
                    T = sa.Table(parts[1], sa.MetaData(), sa.Column("c", sa.Integer), schema=parts[0])
                    T2 = sa.Table(parts[0], sa.MetaData(), sa.Column(parts[1], sa.Integer))
                    forms = [("format_column(use_table)", p.format_column(T2.c[parts[1]], use_table=True))]
                    if not mssql_multipart:
                        forms.append(("format_table(schema)", p.format_table(T)))
                else:
                    T = sa.Table(parts[1], sa.MetaData(), sa.Column(parts[2], sa.Integer), schema=parts[0])
                    forms = [] if mssql_multipart else [("format_column(use_table, use_schema)", p.format_column(T.c[parts[2]], use_table=True, use_schema=True))]
                for action, g in forms:
                    evals += 1
                    if g != fmt:
                        chk.violation(dict(sig, action=action), "%s: %s of %r = %r, specification %r" % (config, action, parts, g, fmt),
                                      dict(config=config, action=action, parts=parts, got=g, want=fmt))
                seen_by_backend = fmt.replace("%%", "%") if halve else fmt
                g = list(p.unformat_identifiers(seen_by_backend))
                evals += 1
                if g != unf:
                    chk.violation(dict(sig, action="unformat_identifiers"), "%s: unformat_identifiers(%r) = %r, specification %r (parts %r)"
                                  % (config, seen_by_backend, g, unf, parts), dict(config=config, text=seen_by_backend, got=g, want=unf))
                if any(_special(x) for x in parts):
                    nontrivial.add((be, tuple(parts)))
        samples.append(dict(config=config, quote={n: p.quote(n) for n in ["select", "A b", "a\"b`c]d", "50%"]},
                            dotted=p.format_table(sa.Table("t.x", sa.MetaData(), schema="s\"y"))))

    # ------------------------------------------------------------------ binding 2: every name on a real SQLite database
    rt = SqliteRoundTrip(chk, os.path.join(chk.work, "c06.db"))
    cases = by["ident@sqlite"]
    initial_names = sorted({lc.dec(c["n"]) for c in by["initial@sqlite"]})          # always all of them
    names = [lc.dec(c["n"]) for c in cases if lc.dec(c["n"]) not in set(initial_names)]
    short = [n for n in names if len(n) <= 2 or n.lower() in candidates or n in variants]
    longer = [n for n in names if n not in set(short)]
    rng.shuffle(longer)
    todo = short + longer[:0 if chk.quick else 1500]
    if chk.quick:           # all one-character names, all keywords and variants, a seeded half of the two-character names
        two = [n for n in short if len(n) == 2 and n.lower() not in candidates]
        rng.shuffle(two)
        drop = set(two[len(two) // 2:])
        todo = [n for n in todo if n not in drop]
    kwset = set(measured)
    todo = initial_names + todo
    for n in todo:
        cls = "backend_keyword" if n.lower() in kwset else "word" if n.isalnum() else "special"
        rt.run(n, cls)
    if rt.n < 300:
        chk.machinery("vacuous: only %d names executed on SQLite" % rt.n)
    return chk.finish(
        dict(states=r.distinct, transitions=r.generated, traces_validated_against_impl=evals, evaluations=evals + rt.steps,
             sqlite_names_roundtripped=rt.n, sqlite_steps=rt.steps, distinct_nontrivial=len(nontrivial),
             sqlite_keywords_measured=len(measured), sqlite_keyword_candidates=len(candidates),
             sqlite_illegal_initial_measured="".join(sorted(measured_initial)), initial_names_roundtripped=len(initial_names),
             sqlite_reserved_but_not_needed=sorted(set(sp.reserved_words) - set(measured))[:80],
             names_per_family={k: len(v) for k, v in by.items()}, configurations=sorted(dialects), samples=samples,
             tlc_wall_s=round(r.wall, 1), tlc_processes=r.runs, exhaustive=True,
             rule="one case per (family, name) / (family, dotted name) TLC initial state; non-trivial = the name must be quoted (reserved "
                  "word, upper case, illegal character or initial) / a dotted component contains a non-word character",
             checker_cmd="tlc Lexers.tla (families ident + dotted; INVARIANT IdentOK DottedOK)"),
        assumptions=["keyword sets of PostgreSQL / MySQL / MSSQL / Oracle are not measurable here: the dialect's own reserved_words stands in",
                     "format / pyformat DBAPIs halve %%; unformat_identifiers is applied to the text as the backend sees it",
                     "Oracle cannot represent a double quote inside an identifier: such names are outside the domain there",
                     "MSSQL schema= values containing . [ ] use the documented database.owner syntax and are not treated as one name",
                     "bounded: names <=%d over 18 characters + all reserved words / keywords; dotted names of 2%s components" % (maxlen, "" if chk.quick else "-3")])
