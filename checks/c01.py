"""C01 Rendered SQL preserves the meaning of the expression tree - SqlExpr.tla, families Arith2 / Bool2 / Mixed2 / Str2 / Rand3
(DESIGN 3.11, 4 C01).

TLC enumerates expression trees of depth <= 2 per operator family (depth 3 sampled with the check's seed) and evaluates each on
36 rows; the theorems (associativity of exactly the flattened operators, soundness of every negation rewriting, De Morgan, BETWEEN,
IN, CASE) are checked as ASSUMEs / invariants.  Binding, per tree built with the expression language:
  * SQLite, executed: value of the compiler's rendering (bound parameters; literal_binds; WHERE position for predicates) must EQUAL the
    value of the harness's own fully parenthesised rendering of the same tree - this IS the property; both are calibrated against
    `Run` (a disagreement of the parenthesised text with the specification is exit 2);
  * postgresql / mysql / mssql / oracle, compile-only: the rendered text is parsed back with a parser that only uses the precedence
    relations every backend agrees on (sqlexpr_parse.py) and the tree must equal the input tree in normal form; text that relies on
    a relation the backends disagree on is reported as ambiguous.
"""
import os
import re

from checks import sqlexpr_common as sx
from checks import sqlexpr_parse as sp

LEVEL = "model_checking"
MANIFEST = dict(
    text="SqlExpr.tla: expression trees of depth <=2, exhaustive per family (arithmetic + - * / % unary minus and custom op(); "
         "comparisons, IS [NOT] NULL, BETWEEN, IN, AND/OR/NOT with negation rewriting; predicates under arithmetic, CASE, CAST, scalar "
         "subquery; || LIKE startswith/endswith/contains) and depth 3 sampled with the seed - ~6.5k trees quick - each evaluated by TLC on "
         "36 rows incl. NULL, negatives, empty strings. Every tree is built with the expression language; on SQLite the compiled "
         "statement (bound, literal_binds, WHERE position) must return the values of the harness's fully parenthesised rendering; "
         "for postgresql/mysql/mssql/oracle the rendered text is parsed back with a backend-agnostic precedence parser and must "
         "give the input tree (normal form justified by the specification's associativity / negation theorems).",
    design_ref="3.11, 4 (C01), Appendix K",
    note="trusted: TLC; SQLite as executor; the parenthesised rendering is calibrated against the specification first (exit 2); other "
         "dialects are compile-only: their grouping is judged by the parse-back, under the precedence relations common to all "
         "backends (documented in sqlexpr_parse.py); booleans used as integers are SQLite-specific",
    technique="TLA+ spec (SqlExpr.tla) + TLC enumeration and theorem checking; spec->code replay of every tree (execution on SQLite, "
              "parse-back of the other dialects' renderings)")

XDIALECTS = ("postgresql", "mysql", "mssql", "oracle")
PRED_ROOT = {"eq", "ne", "lt", "le", "gt", "ge", "and", "or", "not", "in", "notin", "between", "nbetween", "isnull", "notnull",
             "like", "nlike", "seq", "sne", "starts", "ends", "contains", "sisnull", "snotnull", "true", "false"}
_EXTRACT = re.compile(r"^SELECT (.*) AS v(\s+FROM\s+\S+)?\s*$", re.S)


def _family_of(node):
    ks = {n.k for n in node.walk()}
    if ks & {"scol", "slit"}:
        return "str"
    if node.depth() >= 3:
        return "rand3"
    if ks & {"cast", "subq", "case"} or (ks & sx.BINARY & {"add", "sub", "mul", "idiv", "mod"} and ks & PRED_ROOT):
        return "mixed"
    if ks & PRED_ROOT:
        return "bool"
    return "arith"


def _worker(chk, fam, rows, idx):
    import warnings
    import sqlalchemy as sa
    from sqlalchemy.dialects import mssql, mysql, oracle, postgresql
    warnings.simplefilter("ignore")
    eng = sa.create_engine("sqlite:///" + os.path.join(chk.work, "c01.db"))
    md = sa.MetaData()
    t = sa.Table("t", md, sa.Column("id", sa.Integer, primary_key=True), sa.Column("a", sa.Integer), sa.Column("b", sa.Integer),
                 sa.Column("s", sa.String), sa.Column("u", sa.String))
    xd = {"postgresql": postgresql.dialect(), "mysql": mysql.dialect(), "mssql": mssql.dialect(), "oracle": oracle.dialect()}
    rd = sx.Renderer(fam.strlits)
    out = dict(refused=0, viol=[], evals=0, parsed=0, unparsed=[], fam={}, ops={}, pairs=set(), samples=[], machinery=None, nontrivial=0)
    with eng.connect() as conn:
        for ci in idx:
            c = fam.cases[ci]
            node = c.node
            lo, hi = c.lo, c.lo + len(c.x) - 1
            fname = _family_of(node)
            out["fam"][fname] = out["fam"].get(fname, 0) + 1
            for n in node.walk():
                out["ops"][n.k] = out["ops"].get(n.k, 0) + 1
                for side, ch in enumerate(n.kids):
                    if ch.kids:
                        out["pairs"].add((n.k, ch.k, side))
            if node.depth() >= 2:
                out["nontrivial"] += 1
            # operand classes used by known-finding signatures
            btw_pred = any(n.k in ("between", "nbetween") and any(ch.k in PRED_ROOT for ch in n.kids[1:]) for n in node.walk())
            neglit = any(n.k == "neg" and n.kids[0].k == "lit" and n.kids[0].v < 0 for n in node.walk())
            idiv_bool = any(n.k == "idiv" and any(ch.k in PRED_ROOT for ch in n.kids) for n in node.walk())
            base = dict(spec="SqlExpr", action="render", root=node.k, family=fname, between_bound_is_predicate=btw_pred,
                        neg_of_negative_literal=neglit, floordiv_of_predicate_operand=idiv_bool)
            # ---- the reference: the fully parenthesised rendering, calibrated against the specification
            ptext = rd.r(node)
            ref = sx.run_text(conn, ptext, lo, hi)
            if ref != c.x:
                i = next(i for i in range(len(ref)) if ref[i] != c.x[i])
                out["machinery"] = ("calibration: SqlExpr.tla disagrees with SQLite on %s at row %r: spec %r, SQLite %r"
                                    % (ptext, rows[lo - 1 + i], c.x[i], ref[i]))
                return out

            def check(got, mode, sqltext, dialect="sqlite", exp=ref):
                out["evals"] += len(exp)
                if got != exp:
                    if isinstance(got, str):
                        detail, kind = got, "error"
                    else:
                        i = next(i for i in range(len(exp)) if got[i] != exp[i])
                        detail, kind = "row %r: %r, fully parenthesised %r" % (rows[lo - 1 + i][:2] if fname != "str" else rows[lo - 1 + i][2:],
                                                                             got[i], exp[i]), "value"
                    sig = dict(base, dialect=dialect, mode=mode, kind=kind)
                    if kind == "error":
                        sig["error"] = got
                        sig["sqlite_renders_floor"] = "FLOOR(" in (sqltext or "")
                    out["viol"].append((sig,
                                        "%s rendered [%s] as  %s  -> %s   (reference: %s)" % (node, mode, " ".join((sqltext or "").split()), detail, ptext),
                                        dict(tokens=c.tokens, mode=mode, sql=sqltext, reference_sql=ptext, got=got, expected=exp)))

            bld = sx.Builder(t.c, fam.strlits, table=t, variant=ci)
            try:
                expr = bld.build(node)
            except sa.exc.ArgumentError:
                out["refused"] += 1          # the expression language refuses the tree (e.g. b < true()): nothing is rendered
                continue
            stmt = sa.select(t.c.id, expr.label("v")).where(t.c.id.between(lo, hi)).order_by(t.c.id)

            def run(f):
                # values straight from the DBAPI cursor: the property is about the SQL text, not about result-type processing
                # (a Boolean-typed expression such as (a = 1) + a would be passed through bool())
                try:
                    res = f()
                    raw = res.cursor.fetchall() if getattr(res, "cursor", None) is not None else res.fetchall()
                    return [sx.dbval(r[-1]) for r in raw]
                except Exception as e:  # noqa  (DBAPI errors raised while fetching from the raw cursor are not wrapped)
                    return "%s: %s" % (type(e).__name__, str(e).splitlines()[0][:140])

            check(run(lambda: conn.execute(stmt)), "bound", str(expr.compile(eng)))
            try:
                ltext = str(stmt.compile(eng, compile_kwargs={"literal_binds": True}))
                check(run(lambda: conn.exec_driver_sql(ltext)), "literal_binds", ltext)
            except sa.exc.CompileError as e:
                check("CompileError: %s" % e, "literal_binds", None)
            if node.k in PRED_ROOT:
                ids = list(range(lo, hi + 1))
                wstmt = sa.select(t.c.id).where(t.c.id.between(lo, hi)).where(expr).order_by(t.c.id)
                try:
                    m = {r[0] for r in conn.execute(wstmt)}
                    got = [1 if i in m else 0 for i in ids]
                except Exception as e:  # noqa
                    got = "%s: %s" % (type(e).__name__, str(e).splitlines()[0][:140])
                check(got, "where", str(wstmt.compile(eng)), exp=[1 if v == 1 else 0 for v in ref])
            # ---- compile-only dialects: parse the rendering back
            for dn in XDIALECTS:
                plus = dn == "mssql"
                try:
                    text = str(sa.select(expr.label("v")).compile(dialect=xd[dn], compile_kwargs={"literal_binds": True}))
                except Exception as e:  # noqa
                    out["viol"].append((dict(base, dialect=dn, mode="compile", kind="error"), "%s does not compile for %s: %r" % (node, dn, e),
                                        dict(tokens=c.tokens)))
                    continue
                m = _EXTRACT.match(text.strip())
                if not m:
                    out["unparsed"].append("%s: cannot extract the column expression from %r" % (dn, text))
                    continue
                etext = m.group(1)
                if dn in ("postgresql", "mysql"):
                    etext = etext.replace("%%", "%")
                want = sp.normal_form(sp.from_node(node, fam.strlits, plus), plus)
                try:
                    got = sp.normal_form(sp.parse_sql(etext, plus), plus)
                except sp.Ambiguous as e:
                    out["viol"].append((dict(base, dialect=dn, mode="literal_binds", kind="ambiguous"),
                                        "%s rendered for %s as  %s : %s" % (node, dn, " ".join(etext.split()), e), dict(tokens=c.tokens, sql=etext)))
                    continue
                except sp.Unparsed as e:
                    out["unparsed"].append("%s: %s in %r" % (dn, e, etext))
                    continue
                out["parsed"] += 1
                if got != want:
                    out["viol"].append((dict(base, dialect=dn, mode="literal_binds", kind="grouping"),
                                        "%s rendered for %s as  %s  which reads as %s, not %s" % (node, dn, " ".join(etext.split()), sp.show(got), sp.show(want)),
                                        dict(tokens=c.tokens, sql=etext, parsed=sp.show(got), expected=sp.show(want))))
            if ci % 499 == 17:
                out["samples"].append(dict(tree=repr(node), sqlite=str(expr.compile(eng)), parenthesised=ptext, values=ref[:8],
                                           oracle=" ".join(str(expr.compile(dialect=xd["oracle"], compile_kwargs={"literal_binds": True})).split())))
    eng.dispose()
    out["pairs"] = sorted(out["pairs"])
    return out


def main(chk):
    import time
    t0 = time.time()
    fam = sx.family(chk, "c01", sample_n=4 if chk.quick else 12, workers=4, timeout=900 if chk.quick else 3000)
    rows = fam.rows
    t1 = time.time()
    eng, _t = sx.make_db(os.path.join(chk.work, "c01.db"), rows)
    eng.dispose()
    from sqlalchemy.dialects import mssql, mysql, oracle, postgresql  # noqa: F401  (before the fork)
    res = sx.pmap(lambda idx: _worker(chk, fam, rows, idx), len(fam.cases), per_proc=1200)
    t2 = time.time()
    evals = parsed = nontrivial = refused = 0
    famc, ops, pairs, samples, unparsed, disagreements, examples = {}, {}, set(), [], [], {}, {}
    for o in res:
        if o["machinery"]:
            chk.machinery(o["machinery"])
        for sig, what, rp in o["viol"]:
            cls = ("neg-of-negative-literal" if sig.get("neg_of_negative_literal") else "between-bound-is-predicate" if sig.get("between_bound_is_predicate")
                   else "sqlite-floor-udf" if sig.get("sqlite_renders_floor") else sig.get("family"))
            kk = "%s/%s/%s/%s" % (sig.get("dialect"), sig.get("mode"), sig.get("kind"), cls)
            disagreements[kk] = disagreements.get(kk, 0) + 1
            examples.setdefault(kk, what[:700])
            chk.violation(sig, what, rp)
        evals += o["evals"]
        refused += o["refused"]
        parsed += o["parsed"]
        nontrivial += o["nontrivial"]
        unparsed += o["unparsed"]
        samples += o["samples"]
        pairs.update(map(tuple, o["pairs"]))
        for k, v in o["fam"].items():
            famc[k] = famc.get(k, 0) + v
        for k, v in o["ops"].items():
            ops[k] = ops.get(k, 0) + v
    if unparsed:
        chk.machinery("the parse-back does not understand %d rendering(s), e.g. %s" % (len(unparsed), unparsed[0]))
    for k in ("add", "sub", "mul", "idiv", "mod", "neg", "xsub", "xmul", "xadd", "eq", "ne", "lt", "le", "gt", "ge", "and", "or", "not", "isnull",
              "notnull", "between", "nbetween", "in", "notin", "case", "cast", "subq", "concat", "like", "nlike", "starts", "ends", "contains"):
        if not ops.get(k):
            chk.machinery("vacuous: operator %s never occurs" % k)
    for f in ("arith", "bool", "mixed", "str", "rand3"):
        if not famc.get(f):
            chk.machinery("vacuous: family %s is empty" % f)
    return chk.finish(
        dict(states=fam.tlc.distinct, transitions=fam.tlc.generated, traces_validated_against_impl=len(fam.cases),
             distinct_nontrivial=nontrivial, evaluations=evals, renderings_parsed_back=parsed, trees_refused_by_expression_language=refused, trees_per_family=famc,
             operator_nestings_covered=len(pairs), operator_occurrences=ops, samples=samples[:6], disagreements=disagreements, disagreement_examples=examples, exhaustive=True,
             phase_wall_s=dict(tlc=round(t1 - t0, 1), replay=round(t2 - t1, 1)),
             rule="one case per TLC initial state (expression tree); executed on SQLite in bound / literal_binds / WHERE form against the fully "
                  "parenthesised rendering on 36 rows, parsed back for 4 compile-only dialects; non-trivial = depth >= 2 (an operator under an "
                  "operator, where a grouping decision exists); operator_nestings_covered = distinct (parent, child, side) triples",
             checker_cmd="tlc SqlExpr.tla (Family = c01: Arith2 + Bool2 + Mixed2 + Str2 + Rand3(-seed), INVARIANT Theorems)"),
        assumptions=["only SQLite executes; postgresql / mysql / mssql / oracle renderings are judged by parse-back under the precedence relations "
                     "common to all backends", "depth <= 2 exhaustive over the stated leaf sets (quick: nested shapes over three leaves), depth 3 sampled",
                     "lower-case ASCII strings (SQLite LIKE is case-insensitive)", "predicates used as integers are SQLite-specific (compile-only elsewhere)"])
