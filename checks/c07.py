"""C07 IN / NOT IN with expanding parameters follows SQL semantics - SqlExpr.tla, IN families (DESIGN 3.11, 4 C07).

TLC enumerates every (left operand, list, operator, context) of the IN families, evaluates them with the recursive
three-valued `Ev` on all 36 rows (a, b in {-2..2, NULL}) and proves, per state, that the value is the DECLARATIVE one of
the SQL standard (some equality TRUE -> TRUE, all FALSE -> FALSE, else NULL; NOT IN = NOT(IN); row values).
Binding: each case is built with in_() / not_in() / ~ / tuple_() and executed on SQLite in five delivery modes and three
statement positions; every row value / matched row set must EQUAL the specification's.
"""
import os

from checks import sqlexpr_common as sx

LEVEL = "model_checking"
MANIFEST = dict(
    text="SqlExpr.tla (IN families): every scalar list of length 0..3 over {-1,0,1,NULL} (duplicates included) and every list of "
         "0..2 two-tuples over {0,1,NULL}^2, with in_/not_in and their negations, bare / under NOT / inside CASE, plus lists whose "
         "members are expressions; TLC evaluates each on 36 rows and checks the value against the declarative SQL definition "
         "(OR of equalities under Kleene logic). Each case is executed on SQLite as bound expanding parameter, with literal_binds, "
         "re-bound on a warm compiled cache with a different list length, with the generic (non-SQLite) empty-set rendering, and as "
         "the literal text compiled for postgresql/mysql/mssql/oracle; in SELECT, WHERE and HAVING position. Typed dimension: the same cases "
         "against tables whose columns carry the integers through types with bind and result processors (a +100 TypeDecorator, DateTime) in "
         "first / last / every tuple position and for scalar IN - bound, literal_binds and warm cache.",
    design_ref="3.11, 4 (C07), Appendix K",
    note="trusted: TLC; SQLite as executor; Ev calibrated first against SQLite on the explicit OR-of-equalities rendering and on native IN "
         "(disagreement = exit 2). Only SQLite executes: other dialects' renderings are executed on SQLite as text (scalar IN only).",
    technique="TLA+ spec (SqlExpr.tla) + TLC exhaustive enumeration with declarative IN theorems as invariants; spec->code replay of every case")

XDIALECTS = ["postgresql", "mysql", "mssql", "oracle"]


def _find_in(node):
    for n in node.walk():
        if n.k in sx.NARY:
            return n
    return None


def _with_list(node, target, new_items):
    """copy of the tree with the IN node `target` given a new member list"""
    if node is target:
        nl = len(new_items) if node.k in ("in", "notin") else len(new_items) // 2
        head = node.kids[:1] if node.k in ("in", "notin") else node.kids[:2]
        return sx.Node(node.k, nl, list(head) + list(new_items), node.pos)
    return sx.Node(node.k, node.v, [_with_list(c, target, new_items) for c in node.kids], node.pos)


def _lit(v):
    return sx.Node("lit", v, [], -1)


def _setup(work):
    import sqlalchemy as sa
    from sqlalchemy.dialects.sqlite.base import SQLiteCompiler
    from sqlalchemy.sql.compiler import SQLCompiler
    path = os.path.join(work, "c07.db")
    eng = sa.create_engine("sqlite:///" + path)
    t = sa.Table("t", sa.MetaData(), sa.Column("id", sa.Integer, primary_key=True), sa.Column("a", sa.Integer),
                 sa.Column("b", sa.Integer), sa.Column("s", sa.String), sa.Column("u", sa.String))

    # engine whose compiler uses the GENERIC empty-set rendering shared by postgresql / mysql / mssql / oracle
    class GenericEmptySet(SQLiteCompiler):
        visit_empty_set_op_expr = SQLCompiler.visit_empty_set_op_expr

    geng = sa.create_engine("sqlite:///" + path)
    geng.dialect.statement_compiler = GenericEmptySet
    return eng, geng, t


# ---- the typed dimension: the same (a, b) rows carried by column types that have bind AND result processors.  Equality on the
#      encoded values is equality on the integers (the encodings are injective, NULL stays NULL), so the specification's values
#      are unchanged; what is exercised is that every member of the list reaches the database through its column's bind processor.
TYPED = {"PI": "a: +100 TypeDecorator, b: Integer", "IP": "a: Integer, b: +100 TypeDecorator", "PP": "both +100 TypeDecorator",
         "DI": "a: DateTime, b: Integer", "ID": "a: Integer, b: DateTime"}


def _typed_tables(md):
    """{label: (table, {column index: int -> python value}, positions whose type has processors)}"""
    import datetime
    import sqlalchemy as sa

    class Plus100(sa.TypeDecorator):
        """stores v as v + 100"""
        impl = sa.Integer
        cache_ok = True

        def process_bind_param(self, value, dialect):
            return None if value is None else value + 100

        def process_result_value(self, value, dialect):
            return None if value is None else value - 100

    def day(v):
        return datetime.datetime(2024, 1, 10, 12, 0, 0) + datetime.timedelta(days=v)

    kinds = {"P": (Plus100, None), "D": (sa.DateTime, day), "I": (sa.Integer, None)}
    out = {}
    for label in TYPED:
        ta, tb = kinds[label[0]], kinds[label[1]]
        tbl = sa.Table("t_" + label.lower(), md, sa.Column("id", sa.Integer, primary_key=True), sa.Column("a", ta[0]), sa.Column("b", tb[0]))
        out[label] = (tbl, {i: f for i, f in ((0, ta[1]), (1, tb[1])) if f}, {i for i in (0, 1) if label[i] != "I"})
    return out


def _worker(chk, fams, rows, idx):
    import warnings
    warnings.simplefilter("ignore")        # "rendering literal NULL" SAWarnings: NULL members are the point here
    """replay the cases idx (indices into the concatenation of all families) -> (violations, counters)"""
    import sqlalchemy as sa
    from sqlalchemy.dialects import mssql, mysql, oracle, postgresql
    eng, geng, t = _setup(chk.work)
    typed = _typed_tables(t.metadata)
    xd = {"postgresql": postgresql.dialect(), "mysql": mysql.dialect(), "mssql": mssql.dialect(), "oracle": oracle.dialect()}
    allc = [(f, c) for f in fams for c in f.cases]
    out = dict(typed={}, typed_hits=0, typed_miss=0, fam={}, viol=[], evals=0, counts={}, nontrivial=[], samples=[], hits=0, miss=0, vacuous=[], errors=0)
    with eng.connect() as conn, geng.connect() as gconn:
        for ci in idx:
            fam, c = allc[ci]
            lo, hi = c.lo, c.lo + len(c.x) - 1
            ids = list(range(lo, hi + 1))

            def stmt_for(expr, pos, t=t):
                if pos == "select":
                    return sa.select(t.c.id, expr.label("v")).where(t.c.id.between(lo, hi)).order_by(t.c.id)
                if pos == "where":
                    return sa.select(t.c.id).where(t.c.id.between(lo, hi)).where(expr).order_by(t.c.id)
                return sa.select(t.c.id).where(t.c.id.between(lo, hi)).group_by(t.c.id).having(expr).order_by(t.c.id)

            def observe(run, pos):
                try:
                    got = run().fetchall()
                except sa.exc.SQLAlchemyError as e:       # an error is an outcome, compared like any other
                    out["errors"] += 1
                    return ["%s: %s" % (type(e).__name__, str(e).splitlines()[0][:120])]
                if pos == "select":
                    return [sx.dbval(r[-1]) for r in got]
                m = {r[0] for r in got}
                # last element: rows OUTSIDE the id range that slipped through (a rendering whose OR escapes the id filter)
                return [1 if i in m else 0 for i in ids] + [len(m - set(ids))]

            inn = _find_in(c.node)
            form = "bare" if inn is c.node else c.node.k
            tup = inn.k in ("tin", "tnotin")
            members = inn.kids[2:] if tup else inn.kids[1:]
            nlist = inn.v
            vals = [m.v if m.k == "lit" else "expr" for m in members]
            has_null = sx.NULL in vals
            has_dup = (len(set(zip(vals[0::2], vals[1::2]))) < nlist) if tup else (len(set(vals)) < len(vals))
            expanding = all(m.k == "lit" and m.v != sx.NULL for m in members)
            if nlist == 0 or has_null or has_dup or tup:
                out["nontrivial"].append(c.key)
            expect_sel = c.x
            expect_match = [1 if v == 1 else 0 for v in c.x] + [0]
            famname = "in_tuple" if tup else ("in_scalar" if all(m.k == "lit" for m in members) else "in_expr")
            out["fam"][famname] = out["fam"].get(famname, 0) + 1
            base = dict(spec="SqlExpr", action=inn.k, form=form, nlist=nlist, has_null=has_null, tuple=tup, family=famname)
            key = "%s/%s/%d/%s" % (inn.k, form, min(nlist, 1), has_null)
            out["counts"][key] = out["counts"].get(key, 0) + 1

            def check(got, pos, mode, sqltext=None, types="II"):
                exp = expect_sel if pos == "select" else expect_match
                out["evals"] += len(exp)
                if got != exp:
                    i = next(i for i in range(len(exp)) if i >= len(got) or got[i] != exp[i])
                    g = got[i] if i < len(got) else got[0]
                    if i >= len(c.x):        # the out-of-range counter
                        i = 0
                    err = isinstance(g, str)
                    out["viol"].append((
                        dict(base, position=pos, mode=mode, outcome="error" if err else "value", column_types=types),
                        "%s in %s position, delivery %s%s: row (a, b)=%r gives %r, SQL semantics (SqlExpr.tla) %r [%s]"
                        % (c.node, pos, mode, "" if types == "II" else ", column types %s (%s)" % (types, TYPED[types]),
                           rows[lo - 1 + i][:2], g, exp[i], (sqltext or "").replace("\n", " ")),
                        dict(tokens=c.tokens, position=pos, mode=mode, column_types=types, expected=exp, got=got, sql=sqltext)))

            positions = ["select", "where"] + (["having"] if form == "bare" else [])
            bld = sx.Builder(t.c, fam.strlits, table=t, variant=ci)
            for pos in positions:
                # A. bound (expanding) parameters
                st = stmt_for(bld.build(c.node), pos)
                check(observe(lambda: conn.execute(st), pos), pos, "bound")
                # B. literal_binds
                text = str(st.compile(eng, compile_kwargs={"literal_binds": True}))
                check(observe(lambda: conn.exec_driver_sql(text), pos), pos, "literal_binds", text)
                # D. generic empty-set rendering (what the non-SQLite dialects emit), bound and literal.  Scalar IN only: no real
                #    dialect combines it with SQLite's VALUES form of tuple IN.
                if not tup and (nlist == 0 or not chk.quick):
                    st2 = stmt_for(bld.build(c.node), pos)
                    check(observe(lambda: gconn.execute(st2), pos), pos, "generic-empty-set")
                    text2 = str(st2.compile(geng, compile_kwargs={"literal_binds": True}))
                    check(observe(lambda: gconn.exec_driver_sql(text2), pos), pos, "generic-empty-set-literal", text2)
                if pos == "having":
                    continue
                # C. re-bound on a warm compiled cache: first a statement of the same shape with another list
                warm_lists = []
                other_len = [0 if nlist > 0 else 2] + ([nlist + 1] if not chk.quick else [])
                for n2 in other_len:
                    warm_lists.append([_lit(7)] * (n2 * (2 if tup else 1)))
                if not expanding and nlist > 0:      # same shape (NULL / expression members stay), other values
                    warm_lists.append([m if (m.k != "lit" or m.v == sx.NULL) else _lit(7) for m in members])
                for wl in warm_lists:
                    cache = {}
                    c2 = conn.execution_options(compiled_cache=cache)
                    c2.execute(stmt_for(bld.build(_with_list(c.node, inn, wl)), pos)).fetchall()
                    n1 = len(cache)
                    st3 = stmt_for(bld.build(c.node), pos)
                    got = observe(lambda: c2.execute(st3), pos)
                    hit = len(cache) == n1
                    if hit:
                        out["hits"] += 1
                    else:
                        out["miss"] += 1
                        # a typed left operand fixes the parameter type, so only the list length differs
                        if expanding and inn.kids[0].k == "col" and all(w.v != sx.NULL for w in wl):
                            out["vacuous"].append("%s with lists of different length did not share a cache key" % c.node)
                    check(got, pos, "warm-cache" if hit else "cold-after-other-shape")
            # E. the literal text other dialects compile, executed on SQLite (scalar IN: the text is in the common subset)
            if not tup:
                for dn in XDIALECTS:
                    text = str(bld.build(c.node).compile(dialect=xd[dn], compile_kwargs={"literal_binds": True}))
                    try:
                        got = sx.run_text(conn, text, lo, hi)
                    except sa.exc.SQLAlchemyError as e:
                        got = ["%s: %s" % (type(e).__name__, str(e).splitlines()[0][:120])]
                    check(got, "select", "text-of-" + dn, text)
            # F. the typed dimension: the same case against tables whose columns carry the integers through bind / result processors,
            #    with the processed type in first / last / every position of the tuple; bound, literal_binds and warm cache
            if all(m.k == "lit" for m in members) and (tup or inn.kids[0].k == "col"):
                for tl, (tt, conv, processed) in typed.items():
                    if not tup and 0 not in processed:
                        continue                 # scalar IN over column a: only where a has a processed type
                    out["typed"][tl] = out["typed"].get(tl, 0) + 1
                    tb = sx.Builder(tt.c, fam.strlits, table=tt, variant=ci, conv=conv)
                    for pos in ("select", "where"):
                        stt = stmt_for(tb.build(c.node), pos, tt)
                        check(observe(lambda: conn.execute(stt), pos), pos, "bound", types=tl)
                        try:
                            ttext = str(stt.compile(eng, compile_kwargs={"literal_binds": True}))
                            check(observe(lambda: conn.exec_driver_sql(ttext), pos), pos, "literal_binds", ttext, types=tl)
                        except sa.exc.CompileError as e:
                            check(["CompileError: %s" % e], pos, "literal_binds", types=tl)
                        wls = [[_lit(2)] * ((0 if nlist > 0 else 2) * (2 if tup else 1))]
                        if not expanding and nlist > 0:
                            wls.append([m if m.v == sx.NULL else _lit(2) for m in members])
                        for wl in wls:
                            cache = {}
                            c2 = conn.execution_options(compiled_cache=cache)
                            c2.execute(stmt_for(tb.build(_with_list(c.node, inn, wl)), pos, tt)).fetchall()
                            n1 = len(cache)
                            st4 = stmt_for(tb.build(c.node), pos, tt)
                            got = observe(lambda: c2.execute(st4), pos)
                            hit = len(cache) == n1
                            out["typed_hits" if hit else "typed_miss"] += 1
                            check(got, pos, "warm-cache" if hit else "cold-after-other-shape", types=tl)
            if ci % 97 == 13:
                out["samples"].append(dict(expr=repr(c.node), sql=str(bld.build(c.node).compile(eng)), rows_ab=[r[:2] for r in rows[lo - 1:lo + 5]],
                                           expected=c.x[:6]))
    eng.dispose()
    geng.dispose()
    return out


def main(chk):
    import time
    t0 = time.time()
    fams = [sx.family(chk, "c07", workers=4)]      # InScalar + InTuple + InExpr in one TLC run
    rows = fams[0].rows
    eng, t = sx.make_db(os.path.join(chk.work, "c07.db"), rows)
    # the typed tables: the (a, b) rows inserted through the column types; the stored +100 values are verified at driver level
    import sqlalchemy as sa
    tmd = sa.MetaData()
    typed = _typed_tables(tmd)
    tmd.create_all(eng)
    nint = len(fams[0].cases[0].x)          # the 36 rows that vary (a, b)
    with eng.begin() as conn:
        for tl, (tt, conv, _processed) in typed.items():
            conn.execute(tt.insert(), [dict(id=i + 1, a=None if r[0] is None else conv.get(0, int)(r[0]),
                                            b=None if r[1] is None else conv.get(1, int)(r[1])) for i, r in enumerate(rows[:nint])])
        raw = conn.exec_driver_sql("SELECT a, b FROM t_pp ORDER BY id").fetchall()
        if [tuple(r) for r in raw] != [tuple(None if v is None else v + 100 for v in r[:2]) for r in rows[:nint]]:
            chk.machinery("typed table t_pp does not hold v + 100")
        if not isinstance(conn.exec_driver_sql("SELECT b FROM t_id WHERE id = 1").scalar(), str):
            chk.machinery("typed table t_id does not hold DateTime strings")
    # ---- calibration: the specification against SQLite itself (never a verdict)
    t1 = time.time()
    ncal = 0
    with eng.connect() as conn:
        for fam in fams:
            ncal += sx.calibrate(chk, fam, conn, fam.name + "/or-of-equalities", expand_in=True)
            ncal += sx.calibrate(chk, fam, conn, fam.name + "/native-in", expand_in=False)
    eng.dispose()
    ncases = sum(len(f.cases) for f in fams)
    t2 = time.time()
    from sqlalchemy.dialects import mssql, mysql, oracle, postgresql  # noqa: F401  (imported before the fork: shared pages)
    res = sx.pmap(lambda idx: _worker(chk, fams, rows, idx), ncases, per_proc=1500)
    t3 = time.time()
    counts = {}
    famc = {}
    nontrivial = set()
    samples = []
    evals = cache_hits = cache_miss = errors = typed_hits = 0
    typedc = {}
    for o in res:
        for sig, what, rp in o["viol"]:
            chk.violation(sig, what, rp)
        for k, v in o["counts"].items():
            counts[k] = counts.get(k, 0) + v
        for k, v in o["fam"].items():
            famc[k] = famc.get(k, 0) + v
        nontrivial.update(o["nontrivial"])
        samples += o["samples"]
        evals += o["evals"]
        cache_hits += o["hits"]
        cache_miss += o["miss"]
        typed_hits += o["typed_hits"]
        for k, v in o["typed"].items():
            typedc[k] = typedc.get(k, 0) + v
        errors += o["errors"]
        if o["vacuous"]:
            chk.machinery("warm-cache mode vacuous: " + o["vacuous"][0])
    # vacuity: every operator with an empty list, a NULL member, and a plain list, in every form
    for op in ("in", "notin", "tin", "tnotin"):
        for form in ("bare", "not", "case"):
            if not counts.get("%s/%s/0/False" % (op, form)):
                chk.machinery("vacuous: no %s case with an empty list in form %s" % (op, form))
            if not counts.get("%s/%s/1/True" % (op, form)):
                chk.machinery("vacuous: no %s case with a NULL member in form %s" % (op, form))
    if cache_hits == 0:
        chk.machinery("vacuous: warm-cache mode never hit the compiled cache")
    for tl in TYPED:
        if not typedc.get(tl):
            chk.machinery("vacuous: no case was run against the typed table %s" % tl)
    if typed_hits == 0:
        chk.machinery("vacuous: warm-cache mode never hit the compiled cache on the typed tables")
    states = sum(f.tlc.distinct for f in fams)
    return chk.finish(
        dict(states=states, transitions=sum(f.tlc.generated for f in fams), traces_validated_against_impl=ncases,
             distinct_nontrivial=len(nontrivial), evaluations=evals, calibration_evaluations=ncal, warm_cache_hits=cache_hits,
             cold_after_other_shape=cache_miss, executions_raising=errors, samples=samples[:6], cases_per_family=famc, typed_cases=typedc, typed_warm_cache_hits=typed_hits, phase_wall_s=dict(tlc=round(t1 - t0, 1), calibration=round(t2 - t1, 1), replay=round(t3 - t2, 1)),
             tlc_runs=[dict(family=f.name, distinct=f.tlc.distinct, generated=f.tlc.generated, wall_s=round(f.tlc.wall, 1)) for f in fams],
             exhaustive=True,
             rule="one case per TLC initial state (left operand x member list x in/notin x bare/NOT/CASE); each evaluated on 36 rows; "
                  "non-trivial = empty list, NULL member, duplicate member or tuple IN; evaluations = row values compared with the spec",
             checker_cmd="tlc SqlExpr.tla (Family = c07: InScalar + InTuple + InExpr, INVARIANT Theorems)"),
        assumptions=["SQLite only executes; postgresql/mysql/mssql/oracle literal renderings of scalar IN are executed on SQLite as text",
                     "lists of length <= 3 (scalar; length 3 partially at quick) / <= 2 (2-tuples); arity-2 tuples only",
                     "a NULL or expression member makes in_() render a non-expanding list: for those the warm-cache mode re-binds a same-shape list"])
