"""C20 database URLs round-trip through their string form - UrlCodec.tla.

TLC: every URL of a bounded family (one component ranging over ALL strings up to MaxRich over an alphabet of URL-special
characters, '%', hex digits and a non-ASCII letter; the other components over a small adversarial set) is an initial
state.  UrlCodec.tla transcribes render_as_string and make_url (the regular expression's greedy/backtracking discipline,
urllib quote/unquote/parse_qsl, query merging, int(port)); TLC checks RoundTripOK / NoneStaysNone / RawTotal and prints
one case per state.  Mode "raw": every string over a small alphabet is parsed directly.
Binding (spec -> code): for every printed case the real URL.create(...).render_as_string(hide_password=False) must EQUAL
the spec's text, the real make_url(text) must EQUAL the spec's parsed components, and `make_url(text) == url` must agree
with the spec's class (ok / one of three named deviations).
"""
from engine import tlc

LEVEL = "model_checking"
MANIFEST = dict(
    text="UrlCodec.tla transcribes URL.render_as_string and make_url/_parse_url (regex matching discipline as index arithmetic, "
         "urllib quote/unquote/parse_qsl, query str/tuple merging, port int()) over strings as sequences of characters. TLC takes "
         "every URL of a bounded family as an initial state (one component over ALL strings up to length 2-3 over 16 URL-special / "
         "percent / hex / non-ASCII characters in every position, the others adversarial) and checks Parse(Render(u)) = u for every "
         "URL outside three named deviation classes, and that the named classes really fail; plus every raw string up to length 4-5 "
         "parsed directly. Every enumerated case is executed by the real URL.create / render_as_string / make_url: rendered text, "
         "parsed components and the equality verdict must equal the specification's.",
    design_ref="5 (C20), 0.3",
    note="trusted: TLC, the character-class abstraction (16 representative characters; full unicode is not enumerated), "
         "syntactically valid host/port taken from a fixed set",
    technique="TLA+ spec (UrlCodec.tla) + TLC exhaustive enumeration of the bounded URL family; spec->code replay of every enumerated case")

CH = {"e'": "\u00e9", "dq": '"'}
ALPHA = ["x", "2", "5", "%", "@", ":", "/", "?", "+", " ", "&", "=", "#", "[", "]", "e'"]
RAW = ["x", "@", ":", "/", "?", "=", "&", "[", "]", "2", "%", "+", " "]


def _s(seq):
    return "".join(CH.get(c, c) for c in seq)


def _opt(o):
    return _s(o["s"]) if o["some"] else None


def _probe_keep_blank():
    from sqlalchemy.engine.url import make_url
    return dict(make_url("d://?k=").query) == {"k": ""}


def _mk(x):
    from sqlalchemy.engine.url import URL
    q = {}
    for e in x["q"]:
        vs = [_s(v) for v in e["vs"]]
        q[_s(e["k"])] = tuple(vs) if e["tup"] else vs[0]
    port = _opt(x["port"])
    return URL.create("d", username=_opt(x["user"]), password=_opt(x["pass"]), host=_opt(x["host"]),
                      port=int(port) if port is not None else None, database=_opt(x["db"]), query=q)


def _parsed(p):
    """spec parse result -> comparable tuple"""
    if p["err"]:
        return "ValueError"
    port = _opt(p["port"])
    q = {}
    for e in p["q"]:
        vs = [_s(v) for v in e["vs"]]
        q[_s(e["k"])] = tuple(vs) if e["tup"] else vs[0]
    return (_opt(p["user"]), _opt(p["pass"]), _opt(p["host"]), int(port) if port is not None else None, _opt(p["db"]), q)


def _real(text):
    from sqlalchemy.engine.url import make_url
    try:
        v = make_url(text)
    except ValueError:
        return "ValueError", None
    return (v.username, v.password, v.host, v.port, v.database, dict(v.query)), v


def replay(chk, cases, label):
    n = nontriv = 0
    cls_seen = {}
    for c in cases:
        n += 1
        if c["mode"] == "raw":
            text = "d://" + _s(c["r"])
            want = _parsed(c["parsed"])
            got, _ = _real(text)
            if got != want:
                chk.violation({"spec": "UrlCodec", "action": "make_url", "text": text, "cfg": label},
                              "make_url(%r) gives %r, UrlCodec.tla Parse gives %r" % (text, got, want))
            if any(ch in text[4:] for ch in "@:/?["):
                nontriv += 1
            continue
        x = c["x"]
        cls_seen[c["cls"]] = cls_seen.get(c["cls"], 0) + 1
        try:
            u = _mk(x)
            text = u.render_as_string(hide_password=False)
        except Exception as e:  # noqa
            chk.violation({"spec": "UrlCodec", "action": "render", "x": repr(x), "cfg": label}, "URL.create/render raised %r" % (e,))
            continue
        want_text = "d://" + _s(c["text"])
        if text != want_text:
            chk.violation({"spec": "UrlCodec", "action": "render", "url": repr(tuple(u)), "cfg": label},
                          "render_as_string gives %r, UrlCodec.tla Render gives %r" % (text, want_text))
            continue
        want = _parsed(c["parsed"])
        got, v = _real(text)
        if got != want:
            chk.violation({"spec": "UrlCodec", "action": "parse-of-render", "url": repr(tuple(u)), "text": text, "cfg": label},
                          "make_url(%r) gives %r, UrlCodec.tla Parse gives %r" % (text, got, want))
            continue
        rt = v is not None and v == u
        if rt != (c["cls"] == "ok"):
            chk.violation({"spec": "UrlCodec", "action": "roundtrip", "class": c["cls"], "url": repr(tuple(u)), "cfg": label},
                          "make_url(render(u)) == u is %r for class %s: u=%r text=%r back=%r" % (rt, c["cls"], tuple(u), text, got))
        elif not rt:
            # a named deviation that is present on this tree: a listed known finding, reported once per class and cfg
            chk.violation({"spec": "UrlCodec", "action": "roundtrip", "class": c["cls"]},
                          "URL of class %s does not round-trip: u=%r -> %r -> %r" % (c["cls"], tuple(u), text, got))
        if text != "d://" and any(ch in text[4:] for ch in "%+"):
            nontriv += 1
    return n, nontriv, cls_seen


def main(chk):
    keep = _probe_keep_blank()
    quick = chk.quick
    alpha = "{" + ", ".join(tlc.q(c) for c in ALPHA) + "}"
    small = "{" + ", ".join(tlc.q(c) for c in ["x", "%", "@", ":", "/", "?", "+", "&", "=", "e'", "2", "5"]) + "}"
    raw = "{" + ", ".join(tlc.q(c) for c in RAW) + "}"
    plans = []
    for mode in ("user", "pass", "db", "qkey", "qval"):
        plans.append((mode, dict(Alpha=alpha if quick else small, MaxRich=2 if quick else 3)))
        if not quick:
            plans.append((mode, dict(Alpha=alpha, MaxRich=2)))
    plans.append(("raw", dict(RawAlpha=raw, MaxRaw=4 if quick else 5)))
    states = trans = replayed = nontriv = 0
    runs, samples, classes = [], [], {}
    for mode, consts in plans:
        c = dict(Alpha=alpha, MaxRich=1, Mode=tlc.q(mode), RawAlpha=raw, MaxRaw=1, KeepBlank=keep)
        c.update(consts)
        label = "%s MaxRich=%s MaxRaw=%s" % (mode, c["MaxRich"], c["MaxRaw"])
        cfgt = tlc.cfg(constants=c, init="InitEmit", next_="Stutter", invariants=["RoundTripOK", "NoneStaysNone", "RawTotal"])
        r = tlc.run("UrlCodec", cfgt, chk.work, workers=1, timeout=3000 if not quick else 900, keep_stdout=False, heap="6g")
        if r.violated:
            chk.violation({"spec": "UrlCodec", "action": "TLC", "invariant": r.violated, "cfg": label},
                          "TLC: %s violated in the specification (%s)" % (r.violated, label))
        if not r.ok and not r.violated:
            chk.machinery("TLC failed for " + label)
        if not r.json:
            chk.machinery("TLC printed no cases for " + label)
        states += r.distinct
        trans += r.generated
        a, b, cl = replay(chk, r.json, label)
        replayed += a
        nontriv += b
        for k, v in cl.items():
            classes[k] = classes.get(k, 0) + v
        runs.append({"cfg": label, "distinct": r.distinct, "cases": len(r.json), "wall_s": round(r.wall, 1)})
        good = [x for x in r.json if x["mode"] == "url" and x["cls"] == "ok" and len(x["text"]) > 12]
        if good:
            g = good[len(good) // 2]
            samples.append({"text": "d://" + _s(g["text"]), "class": g["cls"]})
        r.json = None
    if classes.get("ok", 0) < 1000 or (not keep and not classes.get("BlankDropped")) or not classes.get("PwNoUser") or not classes.get("Tuple1"):
        chk.machinery("vacuous: classes explored %r" % classes)
    return chk.finish(
        dict(states=states, transitions=trans, traces_validated_against_impl=replayed, distinct_nontrivial=nontriv,
             evaluations=replayed, samples=samples[:8], tlc_runs=runs, classes=classes, keep_blank_probe=keep, exhaustive=True,
             rule="one case per TLC initial state; non-trivial = rendered text contains an escape / the raw string contains a delimiter",
             checker_cmd="tlc UrlCodec.tla (INIT InitEmit, Mode user|pass|db|qkey|qval|raw)"),
        assumptions=["bounded: all strings up to the stated length over 16 representative characters in one component at a time",
                     "host and port taken from a fixed set of syntactically valid values; drivername fixed",
                     "full unicode range not enumerated (one two-byte UTF-8 letter stands for non-ASCII text)"])
