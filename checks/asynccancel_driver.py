"""C29 clause (b): programs over AsyncEngine / AsyncConnection / AsyncSession run on the hand-stepped loop with the
deterministic fake aiosqlite; `task.cancel()` (or an asyncio.timeout expiry) is delivered exactly at the k-th suspension.

    programs(maxops)                   every well-formed program of the grammar below with <= maxops ops
    run_case(workdir, prog, k, ...)    one deterministic run -> (events, summary); k=None: no cancellation (counts N)

Program ops (a flat list; every `with_*` / `engine_begin` / `sm_begin` block is closed by an explicit "exit"):
    connect        conn = await engine.connect()              close      await conn.close()
    with_connect   async with engine.connect() as conn:       engine_begin   async with engine.begin() as conn:
    begin          await conn.begin()                         with_begin     async with conn.begin():
    nested         await conn.begin_nested()                  with_nested    async with conn.begin_nested():
    exec           await conn.execute(INSERT next row)        commit / rollback   await conn.commit() / rollback()
    sleep          await asyncio.sleep(0): the task awaits something that is not the database (at most one per program)
    with_session   async with AsyncSession(engine) as s:      sm_begin       async with async_sessionmaker(engine).begin() as s:
    s_begin        async with s.begin():                      s_exec         await s.execute(INSERT next row)
    s_commit / s_rollback                                     (a `connect` without `close` is never closed: garbage collected)

Events (one dict per event, `e` = kind) - the alphabet of TraceAsyncCancel.tla:
    new       prog, pool (cold | empty | idle | idle2), mode (cancel | timeout), post (driver calls whose effect precedes their suspension)
    opstart / opend   i, op             the program starts / finished op i (opend only on normal completion)
    call / ret        k, id             a driver coroutine was invoked on DBAPI connection id / returned normally
    drv       op (open exec commit rollback close stop), id, sql, arg      the EFFECT reached the real sqlite3 connection
    pool      ev (connect checkout checkin reset invalidate soft_invalidate close detach close_detached), id (0 = no DBAPI conn)
    closetask what                      a task running AsyncConnection.close / AsyncSession.close / ... was created (shielded close)
    deliver   k                         the harness calls task.cancel() at suspension k          (informational)
    timeout   k                         the asyncio.timeout scope's deadline was made due at suspension k (informational)
    cancel    t (main | close), n       Task.cancel() was called on the program's task / on a close task (n-th time)
    closedone what, x                   the close task finished (x = exception class or "")
    ended     how (done | cancelled | timeout | <exception class>)
    gc                                   every reference of the harness to the program's objects was dropped; gc.collect()
    settle    co, idle, open, dirty, locked, rows, warn     observation once the loop is idle
    fresh     ok, intx, rows, id, reused                     a fresh checkout afterwards
    end       co, open, rows, locked                         after the fresh checkout was closed
"""
import asyncio
import gc
import os
import sqlite3
import warnings

from checks.async_fakedriver import make_fake
from checks.async_loop import Stepper

OPENERS = ("with_connect", "engine_begin", "with_begin", "with_nested", "with_session", "sm_begin", "s_begin")


# ------------------------------------------------------------------------------------------ grammar
CONN_OPS = ("exec", "commit", "rollback", "begin", "nested", "sleep")
SESS_OPS = ("s_exec", "s_commit", "s_rollback", "sleep")


def programs(maxops, session=True):
    """every well-formed program with <= maxops ops, in a fixed order.
    A program opens ONE connection or session: explicitly (`connect` ... [`close`]; without `close` it is never closed)
    or as a block (`with_connect` / `engine_begin` / `with_session` / `sm_begin` ... `exit`); inside, plain calls and
    nested blocks (`with_begin`, `with_nested`, `s_begin`), every block closed by its own `exit`.  `begin` / `with_begin`
    are generated only where no transaction is open (they would raise), connection / session level commit and rollback
    only outside begin-blocks (the block's later statements would raise); nothing follows `close`."""
    out = []

    def conn_body(prefix, stack, txn):
        """stack: open inner blocks (the outermost opener is not on it); txn: a transaction is certainly open"""
        room = maxops - len(prefix)
        outer_block = prefix[0] != "connect"
        need = len(stack) + (1 if outer_block else 0)        # exits still required
        if not stack:
            if outer_block:
                if room >= 1:
                    out.append(tuple(prefix + ["exit"]))
            else:
                out.append(tuple(prefix))                     # never closed
                if room >= 1:
                    out.append(tuple(prefix + ["close"]))
        if room - 1 < need:
            return
        if stack:
            top = stack[-1]
            conn_body(prefix + ["exit"], stack[:-1], txn if top == "with_nested" else False)
        inbegin = prefix[0] == "engine_begin" or "with_begin" in stack
        for op in CONN_OPS:
            if op == "begin" and txn:
                continue
            if op in ("commit", "rollback") and inbegin:
                continue          # ending the transaction of an enclosing begin-block by hand makes later statements raise
            if op == "sleep" and "sleep" in prefix:
                continue          # one non-database await per program
            conn_body(prefix + [op], stack, {"exec": True, "begin": True, "nested": True, "commit": False, "rollback": False, "sleep": txn}[op])
        if room - 2 >= need:
            if not txn:
                conn_body(prefix + ["with_begin"], stack + ["with_begin"], True)
            conn_body(prefix + ["with_nested"], stack + ["with_nested"], True)

    def sess_body(prefix, stack, txn):
        room = maxops - len(prefix)
        need = len(stack) + 1
        if not stack and room >= 1:
            out.append(tuple(prefix + ["exit"]))
        if room - 1 < need:
            return
        if stack:
            sess_body(prefix + ["exit"], stack[:-1], False)
        inbegin = prefix[0] == "sm_begin" or "s_begin" in stack
        for op in SESS_OPS:
            if op in ("s_commit", "s_rollback") and inbegin:
                continue
            if op == "sleep" and "sleep" in prefix:
                continue
            sess_body(prefix + [op], stack, txn if op == "sleep" else (op == "s_exec" or (txn and inbegin)))
        if not txn and room - 2 >= need:
            sess_body(prefix + ["s_begin"], stack + ["s_begin"], True)

    conn_body(["connect"], [], False)
    conn_body(["with_connect"], [], False)
    conn_body(["engine_begin"], [], True)
    if session:
        sess_body(["with_session"], [], False)
        sess_body(["sm_begin"], [], True)
    seen, res = set(), []
    for p in out:
        if p not in seen and len(p) <= maxops:
            seen.add(p)
            res.append(p)
    return res


# ------------------------------------------------------------------------------------------ one run
class Case:
    def __init__(self, workdir, prog, pool="idle", mode="cancel", post=(), pool_size=None, max_overflow=0):
        if pool_size is None:
            pool_size = 2 if pool == "idle2" else 1
        import sqlalchemy as sa
        from sqlalchemy import event
        from sqlalchemy.dialects.sqlite.aiosqlite import AsyncAdapt_aiosqlite_dbapi
        from sqlalchemy.ext.asyncio import create_async_engine
        self.sa = sa
        self.prog = list(prog)
        self.poolkind = pool
        self.mode = mode
        self.events = []
        self.logging = False
        os.makedirs(workdir, exist_ok=True)
        self.path = os.path.join(workdir, "c29.sqlite")
        if os.path.exists(self.path):
            os.unlink(self.path)
        self.obs = sqlite3.connect(self.path, isolation_level=None, timeout=0)
        self.obs.execute("create table t (id integer primary key)")
        self.fake = make_fake(self._fake_log)
        self.fake.post = set(post)
        self.st = Stepper()
        self.st.loop.set_task_factory(self._task_factory)
        self.engine = create_async_engine(
            "sqlite+aiosqlite:///" + self.path, module=AsyncAdapt_aiosqlite_dbapi(self.fake, sqlite3),
            connect_args={"autocommit": False}, pool_size=pool_size, max_overflow=max_overflow, pool_timeout=30)
        for name in ("connect", "checkout", "checkin", "reset", "invalidate", "soft_invalidate", "close", "detach", "close_detached"):
            event.listen(self.engine.sync_engine.pool, name, self._mk_pool_listener(name))
        self.nrow = 0
        self.ncancel = {}
        self.refs = {}            # the program's variables (conn, session, handles): dropped by the harness at `gc`
        self.scope = None
        self.warn = []

    @property
    def pool(self):
        return self.engine.sync_engine.pool       # dispose() replaces the pool object (listeners are carried over)

    # ---- logging
    def log(self, kind, **kw):
        if self.logging:
            d = {"e": kind}
            d.update(kw)
            self.events.append(d)

    def _fake_log(self, kind, **kw):
        self.log(kind, **kw)

    def _mk_pool_listener(self, name):
        def fn(dbapi_conn, *a):
            cid = 0
            try:
                if dbapi_conn is not None:
                    cid = dbapi_conn._connection.id
            except Exception:      # noqa
                cid = -1
            self.log("pool", ev=name, id=cid)
        return fn

    def _task_factory(self, loop, coro, **kw):
        """every task is a _LoggedTask: `cancel()` on it is an event (exact for asyncio.timeout too, and it shows a
        cancellation that reaches the INNER close task, which asyncio.shield must prevent); tasks that run a close
        coroutine are announced (`closetask`) and their outcome is reported (`closedone`: asyncio.shield silently
        swallows the exception of an inner task whose outer waiter was cancelled)."""
        name = getattr(coro, "__qualname__", "")
        case = self
        role = "main" if name.endswith("Case._main") else (
            "close" if (name.endswith(".close") or name.endswith("__aexit__.<locals>.go")) else "other")
        short = {"AsyncConnection.close": "conn", "AsyncSession.close": "sess", "AsyncResult.close": "result",
                 "_AsyncSessionContextManager.__aexit__.<locals>.go": "smgo"}.get(name, name[-24:])

        class _LoggedTask(asyncio.Task):
            def cancel(self, msg=None):
                if not self.done() and role != "other":
                    case.ncancel[role] = case.ncancel.get(role, 0) + 1
                    case.log("cancel", t=role, n=case.ncancel[role])
                return super().cancel(msg)

        if role == "close":
            self.log("closetask", what=short)
        t = _LoggedTask(coro, loop=loop, **kw)
        if role == "close":
            def done(t, short=short):
                exc = None if t.cancelled() else t.exception()
                case.log("closedone", what=short, x="CancelledError" if t.cancelled() else (type(exc).__name__ if exc else ""))
            t.add_done_callback(done)
        return t

    # ---- the program
    async def _do(self, op):
        sa = self.sa
        R = self.refs
        if op == "connect":
            R["conn"] = await self.engine.connect()
        elif op == "close":
            await R["conn"].close()
        elif op == "begin":
            R["h"] = await R["conn"].begin()
        elif op == "nested":
            R["n"] = await R["conn"].begin_nested()
        elif op == "exec":
            self.nrow += 1
            await R["conn"].execute(sa.text("insert into t (id) values (:k)"), {"k": self.nrow})
        elif op == "commit":
            await R["conn"].commit()
        elif op == "rollback":
            await R["conn"].rollback()
        elif op == "sleep":
            await asyncio.sleep(0)        # the task awaits something that is not the database
        elif op == "s_exec":
            self.nrow += 1
            await R["s"].execute(sa.text("insert into t (id) values (:k)"), {"k": self.nrow})
        elif op == "s_commit":
            await R["s"].commit()
        elif op == "s_rollback":
            await R["s"].rollback()
        else:
            raise ValueError(op)

    def _cm(self, op):
        from sqlalchemy.ext.asyncio import AsyncSession, async_sessionmaker
        R = self.refs
        if op == "with_connect":
            return self.engine.connect(), "conn"
        if op == "engine_begin":
            return self.engine.begin(), "conn"
        if op == "with_begin":
            return R["conn"].begin(), "h"
        if op == "with_nested":
            return R["conn"].begin_nested(), "n"
        if op == "with_session":
            return AsyncSession(self.engine), "s"
        if op == "sm_begin":
            return async_sessionmaker(self.engine).begin(), "s"
        if op == "s_begin":
            return R["s"].begin(), "st"
        raise ValueError(op)

    async def _block(self, i):
        ops = self.prog
        while i < len(ops):
            op = ops[i]
            if op == "exit":
                return i
            self.log("opstart", i=i + 1, op=op)
            if op in OPENERS:
                cm, var = self._cm(op)
                async with cm as v:
                    self.refs[var] = v
                    self.log("opend", i=i + 1, op=op)
                    j = await self._block(i + 1)
                    self.log("opstart", i=j + 1, op="exit")
                self.log("opend", i=j + 1, op="exit")
                i = j + 1
            else:
                await self._do(op)
                self.log("opend", i=i + 1, op=op)
                i += 1
        return i

    async def _main(self):
        if self.mode == "timeout":
            try:
                async with asyncio.timeout(1000.0) as scope:
                    self.scope = scope
                    await self._block(0)
            except TimeoutError:
                self.log("ended", how="timeout")
                return "timeout"
        else:
            await self._block(0)
        return "done"

    async def _warm(self):
        async with self.engine.connect():
            if self.poolkind == "idle2":          # a second, untouched connection idles in the pool next to the program's
                async with self.engine.connect():
                    pass
        if self.poolkind == "empty":
            await self.engine.dispose()

    async def _fresh(self):
        """a later user of the engine: must get a connection without a leftover transaction and see the committed rows"""
        sa = self.sa
        async with self.engine.connect() as c:
            intx = c.in_transaction()
            raw = await c.get_raw_connection()
            cid = raw.dbapi_connection._connection.id
            rows = sorted(r[0] for r in (await c.execute(sa.text("select id from t"))).all())
            await c.execute(sa.text("insert into t (id) values (99)"))
            await c.rollback()
        return intx, rows, cid

    # ---- observations
    def _rows(self):
        return sorted(r[0] for r in self.obs.execute("select id from t"))

    def _locked(self):
        """can an independent connection take the database EXCLUSIVELY?  no <=> some connection still holds a transaction that touched it"""
        try:
            self.obs.execute("begin exclusive")
            self.obs.execute("rollback")
            return False
        except sqlite3.OperationalError:
            return True

    def _idle_ids(self):
        q = self.pool._pool                   # util.queue.AsyncAdaptedQueue -> asyncio.Queue -> deque of _ConnectionRecord
        items = list(q._queue._queue)
        out = []
        for rec in items:
            d = rec.dbapi_connection
            out.append(d._connection.id if d is not None else 0)
        return sorted(out)

    def _open_ids(self):
        return sorted(i for i, s in self.fake.ledger.items() if s == "open")

    def _dirty_ids(self):
        return sorted(i for i, s in self.fake.dirty.items() if s and self.fake.ledger.get(i) == "open")

    # ---- driver
    def run(self, k=None, k2=None, limit=400):
        """returns (events, summary).  k: suspension at which the cancellation is delivered (None: never);
        k2: a second delivery at that later suspension (counted from the start as well)."""
        st = self.st
        with warnings.catch_warnings(record=True) as w:
            warnings.simplefilter("always")
            if self.poolkind != "cold":
                st.run(self._warm())
            self.logging = True
            self.log("new", prog=self.prog, pool=self.poolkind, mode=self.mode, post=sorted(self.fake.post))
            task = st.spawn(self._main())
            n = 0
            delivered = 0
            while not task.done():
                if k is not None and n == k and delivered == 0 or (k2 is not None and n == k2 and delivered == 1):
                    delivered += 1
                    if self.mode == "timeout" and delivered == 1:
                        self.log("timeout", k=n)         # the deadline becomes due; Timeout._on_timeout calls task.cancel() (logged there)
                        st.advance(2000.0)
                    else:
                        self.log("deliver", k=n)
                        task.cancel()
                st.step()
                n += 1
                if n > limit:
                    raise RuntimeError("program does not finish within %d loop iterations: %r" % (limit, self.prog))
            nsusp = n - 1 if n else 0        # the last iteration finished the task
            if task.cancelled():
                how = "cancelled"
            elif task.exception() is not None:
                how = type(task.exception()).__name__
            else:
                how = task.result()
            if how != "timeout":
                self.log("ended", how=how)
            st.drain()
            # the program is over: its variables go away (CPython: refcount -> pool finalizer runs synchronously)
            self.log("gc")
            del task
            self.refs.clear()
            self.scope = None
            gc.collect()
            st.drain()
            self.warn += [str(x.message)[:60] for x in w]
            del w[:]
            self.log("settle", co=self.pool.checkedout(), idle=self._idle_ids(), open=self._open_ids(), dirty=self._dirty_ids(),
                     locked=self._locked(), rows=self._rows(), gcwarn=sum(1 for x in self.warn if "garbage collector" in x))
            # engine usable afterwards (the probe's own pool / driver events are not part of the trace)
            self.logging = False
            ft = st.spawn(self._fresh())
            m = 0
            while not ft.done():
                st.step()
                m += 1
                if st.idle() and not ft.done():
                    if st.pending_timers():
                        st.advance(31.0)         # the pool's wait_for timeout: a leaked checkout shows up as TimeoutError
                    else:
                        break
                if m > limit:
                    break
            self.logging = True
            # dialect.initialize() completed on some connection (the attribute does not even exist before)
            init = getattr(self.engine.dialect, "default_isolation_level", None) is not None
            if ft.done() and not ft.cancelled() and ft.exception() is None:
                intx, rows, cid = ft.result()
                self.log("fresh", ok=True, intx=bool(intx), rows=rows, id=cid, init=init, err="")
            else:
                exc = ft.exception() if ft.done() and not ft.cancelled() else None
                self.log("fresh", ok=False, intx=False, rows=[], id=0, init=init, err=type(exc).__name__ if exc else "stuck")
                self.logging = False
                ft.cancel()
                st.drain()
                self.logging = True
            self.logging = False
            st.drain()
            del ft
            gc.collect()
            st.drain()
            self.logging = True
            self.log("end", co=self.pool.checkedout(), open=self._open_ids(), rows=self._rows(), locked=self._locked(),
                     idle=self._idle_ids())
            self.warn += [str(x.message)[:60] for x in w]
        summary = {"nsusp": nsusp, "how": how, "unhandled": list(st.unhandled), "warn": list(self.warn)}
        return self.events, summary

    def close(self):
        self.logging = False
        try:
            self.st.run(self.engine.dispose())
        except Exception:      # noqa
            pass
        leftover = self._open_ids()
        self.st.close()
        self.obs.close()
        return leftover


# ------------------------------------------------------------------------------------------ traces for TraceAsyncCancel.tla
def normalise(ev):
    """uniform records [e, a, b, id, n (, o)] (TLC reads them with ndJsonDeserialize; a missing field would be an error)"""
    out = []
    for e in ev:
        k = e["e"]
        d = {"e": k, "a": "", "b": "", "id": 0, "n": 0}
        if k in ("opstart", "opend"):
            d.update(a=e["op"], n=e["i"])
        elif k in ("call", "ret"):
            d.update(a=e["k"], id=e["id"])
        elif k == "drv":
            d.update(a=e["op"], b=e.get("sql", "") or "", id=e["id"], n=e.get("arg", 0) or 0)
        elif k == "pool":
            d.update(a=e["ev"], id=e["id"])
        elif k == "closetask":
            d.update(a=e["what"])
        elif k == "closedone":
            d.update(a=e["what"], b=e["x"])
        elif k == "cancel":
            d.update(a=e["t"], n=e["n"])
        elif k in ("deliver", "timeout"):
            d.update(n=e["k"])
        elif k == "ended":
            d.update(a=e["how"])
        elif k == "settle":
            d["o"] = {"co": e["co"], "idle": e["idle"], "open": e["open"], "dirty": e["dirty"], "locked": e["locked"], "rows": e["rows"]}
        elif k == "fresh":
            d["o"] = {"ok": e["ok"], "intx": e["intx"], "init": e["init"], "rows": e["rows"], "id": e["id"]}
        elif k == "end":
            d["o"] = {"co": e["co"], "locked": e["locked"], "rows": e["rows"]}
        elif k == "new":
            continue
        out.append(d)
    return out


def harness_invariants(ev):
    """the property's observable clauses asserted directly on the final observations (independent of TLC)"""
    E = {}
    for e in ev:
        if e["e"] in ("settle", "fresh", "end"):
            E[e["e"]] = e
    bad = []
    se, fr, en = E.get("settle"), E.get("fresh"), E.get("end")
    if not (se and fr and en):
        return ["run did not reach its final observations"]
    cut = ev.index(se)
    nout = sum(1 for e in ev[:cut] if e["e"] == "pool" and e["ev"] == "checkout")
    nret = sum(1 for e in ev[:cut] if e["e"] == "pool" and e["ev"] in ("checkin", "detach"))
    if nret != nout:
        bad.append("checked out %d time(s), returned %d time(s)" % (nout, nret))
    if se["co"] != 0 or en["co"] != 0:
        bad.append("pool.checkedout() = %d at quiescence" % se["co"])
    if se["dirty"] or se["locked"] or en["locked"]:
        bad.append("a connection still holds a transaction at quiescence (dirty %r, database locked %r)" % (se["dirty"], se["locked"] or en["locked"]))
    if not fr["ok"]:
        bad.append("a fresh checkout afterwards fails (%s)" % fr.get("err"))
    else:
        if fr["intx"]:
            bad.append("fresh connection reports in_transaction()")
        if fr["rows"] != se["rows"]:
            bad.append("fresh connection sees rows %r, committed %r" % (fr["rows"], se["rows"]))
        if not fr["init"]:
            bad.append("dialect never initialised")
    # rows visible at the end = rows inserted before a commit effect that was not preceded by the cancellation of its block
    committed, pend = set(), set()
    for e in ev[:cut]:
        if e["e"] == "drv":
            if e["op"] == "exec" and e["sql"] == "INSERT":
                pend.add(e["arg"])
            elif e["op"] == "commit":
                committed |= pend
                pend = set()
            elif e["op"] in ("rollback", "close", "stop"):
                pend = set()
    # a delivered cancellation ends the task as `cancelled`, an expired asyncio.timeout as TimeoutError - nothing else
    mode = ev[0].get("mode") if ev and ev[0]["e"] == "new" else None
    ncancel = sum(1 for e in ev[:cut] if e["e"] == "cancel" and e["t"] == "main")
    how = next((e["how"] for e in ev if e["e"] == "ended"), None)
    want = ("done",) if not ncancel else (("timeout",) if mode == "timeout" else ("cancelled",))
    if how not in want:
        bad.append("task ended as %r, expected %s" % (how, "/".join(want)))
    if not set(se["rows"]) <= committed | pend:
        bad.append("rows %r visible that no commit published" % (se["rows"],))
    return bad
