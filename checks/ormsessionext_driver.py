"""Driver binding OrmSessionExt.tla (C45-C48, C51 ORM clause) to a real Session.  Subclasses the OrmSession harness
(checks/ormsession_driver.py, read-only here) and adds: merge sources, partial expiry, attribute reads, queries
(populate_existing), an external writer on a second raw connection, reference drops + garbage collection, pickle round
trips, and the flush-then-read-without-autoflush composites of C47."""
import gc
import os
import pickle
import sqlite3
import weakref

import sqlalchemy as sa
from sqlalchemy.orm import DeclarativeBase, Mapped, mapped_column

from checks.ormsession_driver import ABSENT, Real, _rows, init_pks

NULLV = -3


class Base(DeclarativeBase):
    pass


class T(Base):      # module level: instances must be picklable by reference
    __tablename__ = "t"
    id: Mapped[int] = mapped_column(sa.Integer, primary_key=True, autoincrement=False)
    v: Mapped[int] = mapped_column(sa.Integer, nullable=True)


def nv(x):
    return NULLV if x is None else x


class RealX(Real):
    def __init__(self, workdir, name="db", legacy=False):
        super().__init__(workdir, name)
        self.T = T
        self.legacy = legacy
        if legacy:
            # pysqlite legacy transaction control: BEGIN only before DML; reads hold no lock between statements, so a
            # second connection can commit while the Session is "in a transaction" that has not written yet
            from sqlalchemy import event
            from sqlalchemy.pool import NullPool
            self.engine.dispose()
            self.engine = sa.create_engine("sqlite:///" + self.path, poolclass=NullPool)

            @event.listens_for(self.engine, "before_cursor_execute")
            def _bce(conn, cursor, statement, parameters, context, executemany):
                if not self.counting:
                    return
                w = statement.lstrip().split(None, 1)[0].upper()
                if w in ("SAVEPOINT", "RELEASE", "ROLLBACK"):
                    return
                if w in ("INSERT", "UPDATE", "DELETE"):
                    self.ndml += 1
                self.nsql += 1
                self.stmts.append(w[0])
        self.wrefs = {}
        self.newobj = None
        self.always_gc = False

    def reset(self, pks, expire_on_commit=True, rows=None):
        super().reset(pks, expire_on_commit=expire_on_commit, rows=rows)
        self.wrefs = {}
        self.newobj = None

    def dispose_session(self):
        super().dispose_session()
        self.wrefs = {}
        self.newobj = None

    # ------------------------------------------------------------------ naming
    def name_of(self, obj):
        n = self.names.get(id(obj))
        if n is None:
            return None
        if self.objs.get(n) is obj:
            return n
        w = self.wrefs.get(n)
        if w is not None and w() is obj:
            return n
        return None

    def rebind(self, name, obj):
        old = self.objs.get(name)
        if old is not None:
            self.names.pop(id(old), None)
        self.objs[name] = obj
        self.names[id(obj)] = name
        del old

    def known_events(self):
        """drop the events of instances that are none of the model objects (loaded and released within the step)"""
        self.events = [e for e in self.events if e[1] in self.names]

    # ------------------------------------------------------------------ merge sources
    def mk_src(self, kind, k, has_id, has_v, x):
        from sqlalchemy.orm import Session, make_transient_to_detached
        if kind == "T":
            kw = {"id": k}
            if has_v:
                kw["v"] = x
            return T(**kw)
        o = T(id=k, v=(1 - x) if kind == "Dm" else x)
        make_transient_to_detached(o)
        un = [a for a, h in (("id", has_id), ("v", has_v)) if not h]
        if un:
            s2 = Session()
            s2.add(o)
            s2.expire(o, un)
            s2.expunge(o)
            s2.close()
        if kind == "Dm":
            o.v = x
        st = sa.inspect(o)
        assert st.detached and st.key[1] == (k,) and st.modified == (kind == "Dm"), (st.detached, st.key, st.modified)
        assert set(st.dict) & {"id", "v"} == {a for a, h in (("id", has_id), ("v", has_v)) if h}, st.dict
        return o

    # ------------------------------------------------------------------ calls
    def do(self, a, arg=None):
        s = self.session
        if a in ("FQueryAll", "FQueryV", "FGet", "FRefresh", "FRead", "FQueryC"):
            r1 = super().do("Flush")
            ev, nsql, stmts = list(self.events), self.nsql, list(self.stmts)
            if r1 != "ok":
                return r1 + "/-"
            st = sa.inspect(self.objs[arg]) if a in ("FRead",) else None
            if st is not None and not ((st.pending or st.persistent) and self.objs[arg] not in s.deleted):
                r2 = "-"
                self.events, self.nsql, self.stmts = [], 0, []
            else:
                with s.no_autoflush:
                    r2 = self.do(a[1:], arg)
            del st
            self.events = ev + self.events
            self.nsql += nsql
            self.stmts = stmts + self.stmts
            return "ok/" + r2
        if a == "Merge":
            kind, k, has_id, has_v, x, load = arg
            src = self.mk_src(kind, k, has_id, has_v, x)
            r, res = self.call(lambda: s.merge(src, load=load))
            if r != "ok":
                return r
            if res is src:
                return "src-returned"
            n = self.name_of(res)
            if n is not None:
                return "obj:" + n
            self.newobj = res
            return "new"
        if a == "QueryC":
            from sqlalchemy import func, literal, select
            kind, x = arg
            t = T.__table__
            fn = {
                "lcols": lambda: [tuple(r) for r in s.query(t.c.id, t.c.v).order_by(t.c.id).all()],
                "lcount": lambda: s.query(func.count(t.c.id)).scalar(),
                "lfilt": lambda: s.query(literal(1)).select_from(t).filter(t.c.v == x).count(),
                "ccols": lambda: [tuple(r) for r in s.execute(select(t.c.id, t.c.v).order_by(t.c.id)).all()],
                "ccount": lambda: s.execute(select(func.count(t.c.id))).scalar(),
                "ocols": lambda: [tuple(r) for r in s.execute(select(T.id, T.v).order_by(T.id)).all()],
                "ocount": lambda: s.scalar(select(func.count(T.id))),
            }[kind]
            r, res = self.call(fn)
            if r != "ok":
                return r
            if isinstance(res, list):
                return "rows" + "".join(":%d=%d" % (k, nv(v)) for k, v in res)
            return "n:%d" % res
        if a == "PickleOpt":
            return self.pickle_opt(*arg)
        if a == "MergeTok":
            return self.merge_tok(arg)
        if a == "RefreshV":
            return self.call(lambda: s.refresh(self.objs[arg], ["v"]))[0]
        if a == "ExpireV":
            return self.call(lambda: s.expire(self.objs[arg], ["v"]))[0]
        if a == "Read":
            r, res = self.call(lambda: getattr(self.objs[arg], "v"))
            return "val:%d" % nv(res) if r == "ok" else r
        if a in ("QueryAll", "QueryV"):
            stmt = sa.select(T).order_by(T.id)
            if a == "QueryV":
                stmt = stmt.where(T.v == arg)
            elif arg:
                stmt = stmt.execution_options(populate_existing=True)
            r, res = self.call(lambda: s.execute(stmt).scalars().all())
            if r != "ok":
                return r
            out = "q" + "".join(":" + (self.name_of(o) or "new") for o in res)
            bad = [o for o in res if self.name_of(o) is None and not sa.inspect(o).persistent]
            del res
            self.known_events()
            gc.collect()
            return out + ("!notpersistent" if bad else "")
        if a in ("ExtSet", "ExtDel"):
            self.call(lambda: None)
            c = sqlite3.connect(self.path, isolation_level=None, timeout=0.2)
            try:
                if a == "ExtSet":
                    c.execute("insert or replace into t (id, v) values (?, ?)", tuple(arg))
                else:
                    c.execute("delete from t where id = ?", (arg,))
                return "ok"
            except sqlite3.OperationalError as e:
                return "OperationalError:%s" % e
            finally:
                c.close()
        if a == "DropRef":
            self.call(lambda: None)
            o = self.objs.pop(arg)
            self.wrefs[arg] = weakref.ref(o)
            del o
            gc.collect()
            return "ok"
        if a == "Pickle":
            name, proto = arg
            self.call(lambda: None)
            orig = self.objs[name]
            r, c = self.call(lambda: pickle.loads(pickle.dumps(orig, proto)))
            if r != "ok":
                return r
            so, sc = sa.inspect(orig), sa.inspect(c)
            diffs = []
            do_, dc = dict(so.dict), dict(sc.dict)
            do_.pop("_sa_instance_state", None)
            dc.pop("_sa_instance_state", None)
            if do_ != dc:
                diffs.append("dict %r/%r" % (do_, dc))
            for f in ("key", "expired_attributes", "modified", "expired", "load_options"):
                if getattr(so, f) != getattr(sc, f):
                    diffs.append("%s %r/%r" % (f, getattr(so, f), getattr(sc, f)))
            if dict(so.committed_state) != dict(sc.committed_state):
                diffs.append("committed_state %r/%r" % (so.committed_state, sc.committed_state))
            if sc.session is not None or c is orig or type(c) is not type(orig):
                diffs.append("copy attached / same object")
            attached = so.session is not None
            del so, sc
            if diffs:
                return "copy-differs: " + "; ".join(diffs)
            if attached:
                self.newobj = c
                return "new"
            self.rebind(name, c)
            del orig
            gc.collect()
            return "self"
        if a == "Get":
            r, res = self.call(lambda: s.get(T, arg))
            if r != "ok":
                return r
            if res is None:
                return "none"
            n = self.name_of(res)
            if n is not None:
                return "obj:" + n
            st = sa.inspect(res)
            ok = st.persistent and st.dict.get("id") == arg and (("loaded_as_persistent", id(res)) in self.events)
            self.events = [e for e in self.events if e[1] != id(res)]
            del res, st
            gc.collect()
            return "new" if ok else "new-bad"
        return super().do(a, arg)

    def pickle_opt(self, k, proto, how):
        """an instance loaded (by a scratch session) with the per-instance loader option defer(T.v) - state.callables exists -,
        optionally expired, is pickled; the copy must equal the original field by field and, re-attached to another session,
        load v from the database"""
        from sqlalchemy.orm import Session, defer
        self.call(lambda: None)
        self.counting = False
        try:
            with Session(self.engine) as s2:
                x = s2.get(T, k, options=[defer(T.v)])
                if x is None:
                    return "opt-src-missing"
                sx = sa.inspect(x)
                if "callables" not in sx.__dict__ or "v" in sx.dict:
                    return "opt-src-not-deferred"
                if how == "expired":
                    s2.expire(x)
                try:
                    c = pickle.loads(pickle.dumps(x, proto))
                except Exception as e:      # noqa
                    return type(e).__name__
                sc = sa.inspect(c)
                diffs = []
                dx, dc = dict(sx.dict), dict(sc.dict)
                dx.pop("_sa_instance_state", None)
                dc.pop("_sa_instance_state", None)
                if dx != dc:
                    diffs.append("dict %r/%r" % (dx, dc))
                for f in ("key", "expired_attributes", "modified", "expired"):
                    if getattr(sx, f) != getattr(sc, f):
                        diffs.append("%s %r/%r" % (f, getattr(sx, f), getattr(sc, f)))
                if set(sx.__dict__.get("callables", {})) != set(sc.__dict__.get("callables", {})):
                    diffs.append("callables %r/%r" % (sx.__dict__.get("callables"), sc.__dict__.get("callables")))
                if not sc.detached:
                    diffs.append("copy not detached")
                del sx, sc
                if diffs:
                    return "copy-differs: " + "; ".join(diffs)
                s2.expunge(x)
            with Session(self.engine) as s3:
                s3.add(c)
                try:
                    val = c.v
                except Exception as e:      # noqa
                    return "reattached read: " + type(e).__name__
                s3.rollback()
            return "val:%d" % nv(val)
        finally:
            self.counting = True

    def merge_tok(self, k, tok="tk"):
        """merge() of a detached copy loaded by ANOTHER session under an identity token; the result must be the instance of
        the identity key INCLUDING the token.  The result is expunged again before the step ends."""
        from sqlalchemy.orm import Session
        s = self.session
        self.counting = False
        try:
            with Session(self.engine) as s2:
                src = s2.get(T, k, identity_token=tok)
                if src is None:
                    return "tok-src-missing"
                s2.expunge(src)
        finally:
            self.counting = True
        want = sa.inspect(src).key
        if want[2] != tok:
            return "tok-src-key %r" % (want,)
        r, res = self.call(lambda: s.merge(src))
        if r != "ok":
            return r
        ev, nsql, stmts = list(self.events), self.nsql, list(self.stmts)
        st = sa.inspect(res)
        bad = []
        if self.name_of(res) is not None:
            bad.append("returned the instance of another identity key (%s, key %r) for key %r" % (self.name_of(res), st.key, want))
        elif st.persistent:
            out = "tok:persistent"
            if st.key != want:
                bad.append("result key %r, source key %r" % (st.key, want))
            if s.identity_map.get(want) is not res:
                bad.append("identity_map[%r] is not the merged instance" % (want,))
            self.counting = False
            try:
                again = s.get(T, k, identity_token=tok)
            finally:
                self.counting = True
            if again is not res:
                bad.append("get(identity_token) returns another instance")
            del again
            plain = s.identity_map.get(want[:2] + (None,))
            if plain is res:
                bad.append("merged instance registered under the token-less key")
            del plain
        elif st.pending:
            out = "tok:pending"
        else:
            bad.append("result neither persistent nor pending")
        if not bad:
            s.expunge(res)
        del st, res, src
        gc.collect()
        self.events, self.nsql, self.stmts = ev, nsql, stmts
        self.known_events()
        return ("tok-bad: " + "; ".join(bad)) if bad else out

    # ------------------------------------------------------------------ observers
    def observe(self, with_work=True):
        if self.wrefs or self.always_gc:
            gc.collect()
        saved = self.objs
        alive = {}
        gone = []
        for n, w in self.wrefs.items():
            o = w()
            if o is None:
                gone.append(n)
            else:
                alive[n] = o
            del o
        self.objs = dict(saved, **alive)
        try:
            out = super().observe(with_work)
        finally:
            self.objs = saved
            alive.clear()
        for n in gone:
            out["o"][n] = {"life": "gone"}
        out["imap_len"] = len(self.session.identity_map)
        return out


class DriverX:
    def __init__(self, wid, workdir, eoc=True, legacy=False, always_gc=False):
        self.real = RealX(workdir, "db%d" % wid, legacy=legacy)
        self.real.always_gc = always_gc
        self.eoc = eoc
        if always_gc:
            # every step of these walks ends with gc.collect(): park everything that exists now (graph, libraries) in the
            # permanent generation so that a collection only looks at the objects of the walk
            gc.collect()
            gc.freeze()

    def reset(self, state):
        objs = sorted(state["life"].keys())
        self.real.reset(init_pks(objs), expire_on_commit=self.eoc)

    def step(self, frm, act, to):
        a = act["a"]
        arg = act["arg"]
        r = self.real
        if a in ("Add", "Delete", "Expunge", "Expire", "Refresh", "MakeTransient", "Get", "ExpireV", "RefreshV", "Read", "DropRef",
                 "ExtDel", "MergeTok", "QueryAll", "QueryV", "FQueryAll", "FQueryV", "FGet", "FRefresh", "FRead"):
            arg = arg[0]
        elif a in ("SetV", "SetPk", "ExtSet", "Merge", "Pickle", "QueryC", "FQueryC", "PickleOpt"):
            arg = tuple(arg)
        else:
            arg = None
        ret = r.do(a, arg)
        exp = act["ret"]
        if ret == "new" and a in ("Merge", "Pickle") and exp.startswith("new:"):
            r.rebind(exp[4:], r.newobj)
            r.newobj = None
            ret = exp
        r.newobj = None
        if ret != exp:
            return "call outcome %r, spec %r (warnings %r)" % (ret, exp, getattr(r, "warned", None))
        return self.compare(act, to)

    def compare(self, act, to=None):
        o = act["obs"]
        got = self.real.observe()
        diffs = []
        # lifecycle events of an object the application no longer references are outside the comparison: whether the ORM still
        # announces a transition depends on the exact point inside the call at which the last internal reference went away
        unref = {n for n, r in (to or {}).get("ref", {}).items() if not r}
        for name, e in o["o"].items():
            g = got["o"][name]
            if e["life"] == "gone" or g["life"] == "gone":
                if e["life"] != g["life"]:
                    diffs.append("%s: real life %r spec %r" % (name, g["life"], e["life"]))
                continue
            exp = {"life": e["life"], "key": e["key"], "id": e["id"], "v": e["v"], "mod": e["mod"], "wasdel": e["wasdel"],
                   "new": e["new"], "deleted": e["deleted"], "dirty": e["dirty"], "in": e["new"] or e["inmap"]}
            gg = {k: nv(g[k]) for k in exp}
            if gg != exp:
                diffs.append("%s: real %r spec %r" % (name, {k: gg[k] for k in exp if gg[k] != exp[k]},
                                                      {k: exp[k] for k in exp if gg[k] != exp[k]}))
        im = {i + 1: v for i, v in enumerate(o["imap"]) if v != "none"}
        if got["imap"] != im:
            diffs.append("identity map real %r spec %r" % (got["imap"], im))
        if got["imap_len"] != len(im):
            diffs.append("len(identity_map) real %d spec %d" % (got["imap_len"], len(im)))
        if got["intx"] != o["intx"]:
            diffs.append("in_transaction real %r spec %r" % (got["intx"], o["intx"]))
        com = {k: nv(v) for k, v in got["committed"].items()}
        if com != _rows(o["committed"]):
            diffs.append("committed rows real %r spec %r" % (com, _rows(o["committed"])))
        if got["work"] is not None:
            wk = {k: nv(v) for k, v in got["work"].items()}
            if wk != _rows(o["work"]):
                diffs.append("transaction rows real %r spec %r" % (wk, _rows(o["work"])))
        if (got["work"] is None) != ((not o["intx"]) or o["needrb"]):
            diffs.append("session.is_active/in_transaction real work-visible %r spec intx %r needrb %r" % (
                got["work"] is not None, o["intx"], o["needrb"]))
        ev = {}
        for n, ob, c in act["ev"]:
            if ob not in unref:
                ev[(n, ob)] = c
        got["ev"] = {k: v for k, v in got["ev"].items() if k[1] not in unref}
        if got["ev"] != ev:
            diffs.append("lifecycle events real %r spec %r" % (sorted(got["ev"].items()), sorted(ev.items())))
        if got["sql"] != act["sql"]:
            diffs.append("statements real %d (%s) spec %d" % (got["sql"], "".join(self.real.stmts), act["sql"]))
        return "; ".join(diffs) if diffs else None

    def finish(self, state):
        """drain: flush what is pending (it must succeed or fail as the spec's flush does), then commit / roll back and
        compare the committed rows with what the spec says; a fresh session must load exactly these rows"""
        r = self.real
        if state.get("taint"):
            return None
        gc.collect()
        clean = (not state["new"]) and (not state["sdel"]) and not any(
            state["mod"][o] and state["key"][o] != 0 and state["imap"][state["key"][o] - 1] == o for o in state["life"])
        if clean and not state["needrb"]:
            ret = r.do("Commit")
            expect = _rows(state["work"])
        else:
            ret = r.do("Rollback")
            expect = _rows(state["committed"])
        if ret != "ok":
            return "drain %s raised %s" % ("commit" if clean else "rollback", ret)
        com = {k: nv(v) for k, v in r.committed().items()}
        if com != expect:
            return "drain: committed rows %r, spec %r" % (com, expect)
        from sqlalchemy.orm import Session
        with Session(r.engine) as s2:
            r.counting = False
            try:
                got = {x.id: nv(x.v) for x in s2.query(T).all()}
            finally:
                r.counting = True
        if got != expect:
            return "drain: fresh session loads %r, spec %r" % (got, expect)
        try:
            r.counting = False
            r.session.expire_all()
            for name, o in r.objs.items():
                st = sa.inspect(o)
                if st.persistent and o in r.session and st.key[1][0] in expect:
                    try:
                        val = (o.id, nv(o.v))
                    except Exception as e:      # noqa
                        return "drain: persistent %s cannot reload: %s" % (name, type(e).__name__)
                    if expect.get(val[0], None) != val[1]:
                        return "drain: persistent %s reloads %r, rows %r" % (name, val, expect)
                del st
        finally:
            r.counting = True
        return None

    def close(self):
        self.real.close()
