"""C23 Connection transactions and savepoints - ConnTxn.tla (DESIGN 3.4, Appendix E)."""
import random

from engine import graph, tlc
from checks.conntxn_driver import Driver

LEVEL = "model_checking"
MANIFEST = dict(
    text="ConnTxn.tla is the mechanism of Connection/RootTransaction/NestedTransaction (one action per public call, stale handles, autobegin) over a reference nested-transaction database plus an abstract RefNested ghost layer over the user's handles; TLC checks exhaustively (<=4-5 handles, <=3 rows, depth 10-12) that committed data equals the reference, flags agree, ended transactions raise instead of acting. Every labelled edge of that state graph (~120k quick) is replayed against a real Connection on SQLite comparing call outcome, in_transaction()/in_nested_transaction()/closed and the rows a second connection sees after every step.",
    design_ref="3.4, 4 (C23), Appendix E",
    note="trusted: TLC, sqlite3 savepoint semantics as the reference database; SQLite only (PostgreSQL/MariaDB not executable); bounded handles/rows/depth; out-of-order savepoint misuse recorded as known finding",
    technique="TLA+ spec (ConnTxn.tla) + TLC exhaustive model checking; spec->code replay of every state-graph edge into a real Connection")
INVS = ["NothingLost", "FlagsConsistent", "PointerSane", "RefAgree", "RefAgreeLive_InOrder", "NestedHasSavepoint_InOrder"]
PROPS = ["CommittedOnlyByCommit", "ErrorsDontAct", "EndedDontAct", "CtxEndedRefuses", "CtxExitExcNeverPublishes"]
FOOTPRINT = ["Begin", "BeginNested", "Exec", "ConnCommit", "ConnRollback", "H_commit", "H_rollback", "H_close", "Close"]


def main(chk):
    rng = random.Random(chk.seed)
    consts = dict(MaxH=4, MaxRows=3, MaxDepth=10, Ctx=False) if chk.quick else dict(MaxH=5, MaxRows=3, MaxDepth=12, Ctx=False)
    maxlen = consts["MaxDepth"]
    # 1. model check + edge dump in one single-worker run
    cfgt = tlc.cfg(constants=consts, init="InitEmit", invariants=INVS, properties=PROPS, view="View",
                   action_constraints=["Emit"], constraints=["Depth"])
    g = graph.dump("ConnTxn", cfgt, chk.work, timeout=1800)
    r = g.tlc
    if r.violated:
        chk.violation({"spec": "ConnTxn", "action": "TLC", "invariant": r.violated}, "TLC: %s violated in ConnTxn.tla" % r.violated)
    # 1b. vacuity: every action label of the property's footprint occurs on an edge
    cov = {}
    for e in g.edges:
        cov[e[1]["a"]] = cov.get(e[1]["a"], 0) + 1
    for a in FOOTPRINT:
        if not cov.get(a):
            chk.machinery("vacuous: action %s never taken" % a)
    # 2. the out-of-order deviation: unrestricted invariants (expected to be violated; matched as known finding)
    for inv in ["NestedHasSavepoint", "RefAgreeLive"]:
        cfg2 = tlc.cfg(constants=consts, init="Init", invariants=[inv], view="View", constraints=["Depth"])
        r2 = tlc.run("ConnTxn", cfg2, chk.work, workers=16, timeout=900, keep_stdout=False)
        if r2.violated:
            chk.violation({"spec": "ConnTxn", "action": "TLC", "invariant": inv, "scope": "after-out-of-order-savepoint-op"},
                          "%s fails after an out-of-order commit/rollback of an outer savepoint (holds on all in-order histories)" % inv)
    # 3. spec -> code: every edge
    walks, plan = graph.plan_tours(g, maxlen, rng)
    extra = graph.random_walks(g, 300 if chk.quick else 3000, maxlen, rng)
    steps, mism = graph.replay(g, walks + extra, lambda wid, wd: Driver(wid, wd), chk.work + "/replay", nproc=16)
    for m in mism:
        chk.violation({"spec": "ConnTxn", "action": m["act"]["a"] if isinstance(m["act"], dict) else m["act"], "kind": "conformance",
                       "ret": m["act"].get("ret") if isinstance(m["act"], dict) else None},
                      "real Connection diverges from ConnTxn.tla: " + m["mismatch"], m)
    # 4. context-manager graph (with handle: ... / use after the block's transaction ended), smaller bounds
    cconsts = dict(MaxH=3, MaxRows=2, MaxDepth=8, Ctx=True) if chk.quick else dict(MaxH=4, MaxRows=2, MaxDepth=10, Ctx=True)
    cfgx = tlc.cfg(constants=cconsts, init="InitEmit", invariants=INVS, properties=PROPS, view="View",
                   action_constraints=["Emit"], constraints=["Depth"])
    gx = graph.dump("ConnTxn", cfgx, chk.work, timeout=1800)
    if gx.tlc.violated:
        chk.violation({"spec": "ConnTxn", "action": "TLC", "invariant": gx.tlc.violated, "cfg": "ctx"},
                      "TLC: %s violated in ConnTxn.tla (context-manager configuration)" % gx.tlc.violated)
    covx = {}
    for e in gx.edges:
        covx[e[1]["a"]] = covx.get(e[1]["a"], 0) + 1
    for a in ("WithEnter", "WithExit", "WithExitExc"):
        if not covx.get(a):
            chk.machinery("vacuous: action %s never taken" % a)
    walksx, planx = graph.plan_tours(gx, cconsts["MaxDepth"], rng,
                                     edge_filter=None)
    stepsx, mismx = graph.replay(gx, walksx, lambda wid, wd: Driver(wid, wd), chk.work + "/replayx", nproc=16)
    for m in mismx:
        chk.violation({"spec": "ConnTxn", "action": m["act"]["a"] if isinstance(m["act"], dict) else m["act"], "kind": "conformance", "cfg": "ctx",
                       "ret": m["act"].get("ret") if isinstance(m["act"], dict) else None},
                      "real Connection diverges from ConnTxn.tla (context managers): " + m["mismatch"], m)
    steps += stepsx
    cov.update({"ctx:" + k: v for k, v in covx.items()})
    nontriv = sum(1 for e in g.edges if e[1]["a"] in ("H_commit", "H_rollback", "H_close", "ConnCommit", "ConnRollback", "Close")
                  and (g.states[e[0]]["root"] != 0))
    sample = [[g.edges[ei][1]["a"] + ("(%d)" % g.edges[ei][1]["arg"] if g.edges[ei][1]["arg"] else "") + "->" + g.edges[ei][1]["ret"]
               for ei in w] for w in (walks[len(walks) // 2], walks[-1])]
    return chk.finish(
        dict(states=r.distinct + gx.tlc.distinct, transitions=r.generated + gx.tlc.generated, traces_validated_against_impl=len(walks) + len(extra) + len(walksx), plan_ctx=planx,
             distinct_nontrivial=nontriv, evaluations=steps, samples=sample, plan=plan, depth=r.depth,
             action_coverage=cov, exhaustive=True,
             rule="every labelled edge of the ConnTxn state graph (constants %s) covered by a walk from Init replayed against a real Connection; "
                  "non-trivial = edges that end/commit/rollback a transaction or savepoint while a transaction exists" % consts,
             checker_cmd="tlc ConnTxn.tla (VIEW View, ACTION_CONSTRAINT Emit)"),
        assumptions=["SQLite only (autocommit=False modern mode, NullPool); PostgreSQL/MariaDB not executable here",
                     "context-manager use (with handle: / __exit__ with and without exception, nested, out-of-band) in a second graph with constants %s" % cconsts,
                     "bounded: <= %d handles, <= %d rows, walks <= %d" % (consts["MaxH"], consts["MaxRows"], maxlen)])
