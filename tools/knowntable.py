#!/usr/bin/env python3
"""Regenerate the 'Known findings' list of DESIGN.md (between the markers) from known_findings.json + known_findings.d/*.json."""
import glob
import json
import os

ROOT = os.path.dirname(os.path.dirname(os.path.abspath(__file__)))
ents = []
for fn in [os.path.join(ROOT, "known_findings.json")] + sorted(glob.glob(os.path.join(ROOT, "known_findings.d", "*.json"))):
    if os.path.exists(fn):
        ents += [e for e in json.load(open(fn)).get("findings", []) if e.get("status") == "known"]
seen = set()
rows = []
for e in sorted(ents, key=lambda e: (e["property"], e["id"])):
    if e["id"] in seen:
        continue
    seen.add(e["id"])
    w = " ".join(e.get("what", "").split())
    if len(w) > 330:
        w = w[:327] + "..."
    rows.append("| %s | `%s` | %s |" % (e["property"], e["id"], w.replace("|", "\\|")))
B, E_ = "<!-- known-findings:begin -->", "<!-- known-findings:end -->"
txt = (B + "\n**Known findings** (genuine defects not repaired: no small safe patch exists, or the patch changes behaviour that existing tests "
       "pin; each has a specific signature in `known_findings.json`, so a different violation of the same property is still reported; "
       "%d entries):\n\n| property | id | what fails |\n|---|---|---|\n" % len(rows) + "\n".join(rows) + "\n" + E_)
p = os.path.join(ROOT, "DESIGN.md")
s = open(p).read()
if B in s:
    s = s[:s.index(B)] + txt + s[s.index(E_) + len(E_):]
else:
    a = s.index("Known findings (not repaired; each with a specific signature")
    b = s.index("\n\n", a)
    s = s[:a] + txt + s[b:]
open(p, "w").write(s)
print("known findings listed:", len(rows))
