#!/bin/sh
# tools/seedtest.sh <Cxx> <patch.diff> [tier]
# Run a check against a scratch copy of /repo's working tree with a seeded patch applied (never touches /repo itself,
# so builders/checks running concurrently are not disturbed).  Equivalent to: git -C /repo apply; ./check; git checkout.
set -e
D=$(mktemp -d /tmp/seedrun.XXXXXX)
trap 'rm -rf "$D"' EXIT
rsync -a --exclude '__pycache__' --exclude '.git' /repo/lib "$D/"
( cd "$D" && git init -q . && git apply --whitespace=nowarn "$2" ) || { echo "PATCH DID NOT APPLY"; exit 3; }
cp /verif/evidence/$1.json "$D/ev.json" 2>/dev/null || true
VERIF_REPO_LIB="$D/lib" /verif/check "$1" --tier "${3:-quick}" | tail -12 | cut -c1-400 || true
cp "$D/ev.json" /verif/evidence/$1.json 2>/dev/null || true
