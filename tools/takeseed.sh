#!/bin/sh
# tools/takeseed.sh <tag> <seed name e.g. C43-1> "<pytest args run in the worktree>"
# store a seeded change, confirm demo with/without, re-run relevant tests in the worktree, remove the worktree, start the check in background
TAG=$1; NAME=$2; TESTS=$3; PID=${NAME%-*}
mkdir -p /verif/seeded/$NAME && cp /tmp/seed-$TAG-out/patch.diff /tmp/seed-$TAG-out/demo.py /tmp/seed-$TAG-out/meta.json /verif/seeded/$NAME/ || exit 1
SEED_LIB=/tmp/seed-$TAG/lib timeout 600 /venv/bin/python /verif/seeded/$NAME/demo.py >/dev/null 2>&1; a=$?
SEED_LIB=/repo/lib timeout 600 /venv/bin/python /verif/seeded/$NAME/demo.py >/dev/null 2>&1; b=$?
echo "$NAME demo: changed=$a unchanged=$b"
if [ -n "$TESTS" ]; then (cd /tmp/seed-$TAG && /venv/bin/python -m pytest $TESTS -q -p no:cacheprovider 2>&1 | tail -1); fi
git -C /repo worktree remove --force /tmp/seed-$TAG; rm -rf /tmp/seed-$TAG-out
(VERIF_NPROC=6 /verif/tools/seedtest.sh $PID /verif/seeded/$NAME/patch.diff > /tmp/seedlog-$NAME.log 2>&1 &)
echo "check $PID started -> /tmp/seedlog-$NAME.log"
