#!/usr/bin/env python3
"""Regenerate DESIGN.md section 0.5 (seeded changes) from seeded/*/meta.json + seeded/STATUS.json."""
import json, os, re
ROOT = os.path.dirname(os.path.dirname(os.path.abspath(__file__)))
st = json.load(open(os.path.join(ROOT, "seeded", "STATUS.json")))
rows = []
for name in sorted(st, key=lambda n: (n.split("-")[0], n)):
    mp = os.path.join(ROOT, "seeded", name, "meta.json")
    m = json.load(open(mp)) if os.path.exists(mp) else {}
    s = st[name]
    summ = (m.get("summary") or "").replace("|", "/").replace("\n", " ")
    if len(summ) > 330:
        summ = summ[:327] + "..."
    integ = m.get("integrator", {})
    by = (s.get("by") or integ.get("by") or "").replace("|", "/")
    if len(by) > 260:
        by = by[:257] + "..."
    if s.get("caught"):
        verdict = "caught" + (" **after strengthening**: " + s.get("how", "") if s.get("strengthened") else " as built")
    else:
        verdict = "**missed** (follow-up: %s)" % s.get("followup", "-")
    rows.append("| %s | %s | %s | %s |" % (name, summ, by or "-", verdict))
    # keep meta.json in step
    if m:
        integ.update({"caught": bool(s.get("caught")), "strengthened": bool(s.get("strengthened"))})
        if s.get("how"):
            integ["how_strengthened"] = s["how"]
        if by:
            integ["by"] = by
        integ.setdefault("confirmed", "demo.py run by the integrator with SEED_LIB=<worktree>/lib (exit 1) and SEED_LIB=/repo/lib (exit 0); relevant test modules re-run in the worktree with the change applied (all pass); check run through tools/seedtest.sh")
        m["integrator"] = integ
        json.dump(m, open(mp, "w"), indent=1)
n = len(st); c = sum(1 for v in st.values() if v.get("caught")); k = sum(1 for v in st.values() if v.get("caught") and v.get("strengthened"))
table = ("### 0.5 Seeded changes (written by fresh sub-agents that saw only the property text and a scratch worktree) and which check catches them\n\n"
         "Each entry lives in `seeded/<id>/` (`patch.diff`, `demo.py` = fails with the change / passes without, `meta.json` incl. what the integrator\n"
         "re-ran). The change is applied to a scratch copy of `/repo/lib` (`tools/seedtest.sh`, equivalent to `git -C /repo apply ... ; ./check ... ; git checkout`)\n"
         "and the property's quick check is run against it. **%d seeded changes: %d caught (%d as built, %d only after the specification / binding was strengthened because of the seed), %d still missed.**\n"
         "A miss was never \"fixed\" by special-casing the seed: each strengthening adds an action, constant or dimension to the specification (named in the last column). Two more seed writers (C05 literal rendering, C09 type processors) gave up after 30 minutes: every change they tried that broke the property was already caught by the existing tests. C55 was not seeded: the stale prebuilt binaries it compares against cannot be rebuilt here, so any change to a `*_cy.py` source shows up as a difference at once.\n\n"
         "| seed | what the change does | what the check prints on it | verdict |\n|---|---|---|---|\n" % (n, c, c - k, k, n - c)) + "\n".join(rows) + "\n\n"
p = os.path.join(ROOT, "DESIGN.md")
s = open(p).read()
a = s.index("### 0.5 Seeded changes")
b = s.index("---------------------------------------------------------------------------------------------\n\n## 1. What this family reaches")
s = s[:a] + table + s[b:]
open(p, "w").write(s)
print("seeds:", n, "caught:", c, "after strengthening:", k)
