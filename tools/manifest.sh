#!/bin/sh
# regenerate MANIFEST.json (needs sqlalchemy importable: some check modules import it at top level) and validate it against the schema
cd "$(dirname "$0")/.." && /venv/bin/python tools/mkmanifest.py && python3-vt - <<'PY'
import json, jsonschema
m = json.load(open("/verif/MANIFEST.json"))
jsonschema.validate(m, json.load(open("/root/.vp/MANIFEST.schema.json")))
print("schema-valid: %d checks (%s), %d not_applicable" % (len(m["checks"]), " ".join(c["property_id"] for c in m["checks"]), len(m["not_applicable"])))
PY
