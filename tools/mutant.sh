#!/bin/sh
# tools/mutant.sh <Cxx> <file-relative-to-lib> <sed-expression> [tier]
# Runs a check against a scratch copy of /repo/lib with a one-line mutation (never touches /repo).
set -e
D=$(mktemp -d /tmp/mut.XXXXXX)
trap 'rm -rf "$D"' EXIT
rsync -a --exclude '__pycache__' /repo/lib/ "$D/lib/"
sed -i -e "$3" "$D/lib/$2"
if diff -q "/repo/lib/$2" "$D/lib/$2" >/dev/null; then echo "MUTANT DID NOT APPLY"; exit 3; fi
diff "/repo/lib/$2" "$D/lib/$2" || true
cp /verif/evidence/$1.json "$D/ev.json" 2>/dev/null || true
VERIF_REPO_LIB="$D/lib" /verif/check "$1" --tier "${4:-quick}" | tail -8 || true
cp "$D/ev.json" /verif/evidence/$1.json 2>/dev/null || true
