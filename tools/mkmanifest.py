#!/usr/bin/env python3
"""Regenerate MANIFEST.json from checks/registry.py (keeps it schema-valid at all times)."""
import json
import os
import sys

ROOT = os.path.dirname(os.path.dirname(os.path.abspath(__file__)))
sys.path.insert(0, ROOT)
from checks import registry  # noqa

props = [json.loads(l) for l in open(os.path.join(ROOT, "properties.jsonl"))]
ids = [p["id"] for p in props]
checks = []
import importlib
for pid in ids:
    if pid not in registry.READY:
        continue
    r = registry.CHECKS.get(pid)
    if not r and os.path.exists(os.path.join(ROOT, "checks", pid.lower() + ".py")):
        try:
            mod = importlib.import_module("checks." + pid.lower())
            r = getattr(mod, "MANIFEST", None)
            if r is not None and "level" not in r and getattr(mod, "LEVEL", None):
                r = dict(r, level=mod.LEVEL)
        except Exception as e:
            print("cannot import checks.%s: %r" % (pid.lower(), e))
            r = None
        if r is not None and not r.get("claimed", True):
            r = None
        if r:
            registry.CHECKS[pid] = r
    if not r:
        continue
    checks.append({
        "property_id": pid,
        "quick_cmd": "./check %s --tier quick" % pid,
        "thorough_cmd": "./check %s --tier thorough" % pid,
        "evidence_file": "/verif/evidence/%s.json" % pid,
        "replay_cmd_template": "./check %s --replay {path}" % pid,
        "engine": r.get("engine", "tlc+replay"),
        "level_claimed": {"category": r.get("level", "model_checking"), "text": r["text"], "design_ref": r["design_ref"]},
        "level_note": r["note"],
        "technique": r["technique"],
    })
na = []
for pid in ids:
    if pid in registry.CHECKS and pid in registry.READY:
        continue
    na.append({"property_id": pid, "reason": registry.NOT_APPLICABLE.get(pid, "designed (see DESIGN.md section 4), check not built yet")})
registry.ENGINES[0]["serves_properties"] = [c["property_id"] for c in checks]
m = {
    "version": 1,
    "setup_cmd": "mkdir -p .work evidence replays && /venv/bin/python -c 'import sys; sys.path.insert(0,\"/verif\"); import engine.purepy as p; p.install(); import sqlalchemy' && tlc -h >/dev/null 2>&1; true",
    "hooks": {
        "guard": "SQLALCHEMY_VERIF",
        "enable": "no hooks in /repo: checks import /repo/lib's working tree directly (engine/purepy.py forces the *_cy.py sources); observation is via public API, SQLAlchemy events, fake DBAPI, harness-side scheduler",
        "baseline_off_cmd": "cd /repo && /venv/bin/python -m pytest -ra -q -p no:cacheprovider --timeout=900 --continue-on-collection-errors",
        "source_commits": registry.HOOK_COMMITS,
        "add_only": True,
    },
    "engines": registry.ENGINES,
    "checks": checks,
    "notes": registry.NOTES,
    "not_applicable": na,
}
with open(os.path.join(ROOT, "MANIFEST.json"), "w") as f:
    json.dump(m, f, indent=1)
try:
    import jsonschema
    jsonschema.validate(m, json.load(open("/root/.vp/MANIFEST.schema.json")))
    print("MANIFEST.json valid: %d checks, %d not_applicable" % (len(checks), len(na)))
except ImportError:
    print("MANIFEST.json written (jsonschema not importable here): %d checks, %d n/a" % (len(checks), len(na)))
