#!/bin/sh
# tools/mkseed.sh <tag> <property id> ["extra constraint text"]  : scratch worktree /tmp/seed-<tag> + prompt for a seeding sub-agent
set -e
TAG=$1; PID=$2; EXTRA=${3:-}
git -C /repo worktree add -q --detach /tmp/seed-$TAG HEAD
mkdir -p /tmp/seed-$TAG-out
python3 - "$TAG" "$PID" "$EXTRA" <<'PY'
import json,sys
tag,pid,extra=sys.argv[1:4]
t=open('/verif/tools/prompts/seed_template.txt').read()
p=[json.loads(l) for l in open('/verif/properties.jsonl') if json.loads(l)['id']==pid][0]
txt="%s — %s\nStatement: %s\nQuantified over: %s (%s)\nWhy tests can't settle it: %s\nAnchors: files %s; mechanisms %s" % (p['id'],p['title'],p['statement'],', '.join(p['quantifier']['over']),p['quantifier']['text'],p['why_tests_cant'],', '.join(p['anchors']['files']),'; '.join(m['name']+' ('+m.get('where','')+')' for m in p['anchors']['mechanism']))
if extra: txt+="\n\nAdditional constraint: "+extra
s=t.replace('PID',tag).replace('PROPERTY_TEXT',txt).replace('"property": "%s"'%tag,'"property": "%s"'%pid)
open('/tmp/seed-%s-out/prompt.txt'%tag,'w').write(s)
open('/tmp/seed-%s-out/property.json'%tag,'w').write(json.dumps(p,indent=1))
PY
echo "/tmp/seed-$TAG ready"
