#!/usr/bin/env python3
"""Merge known_findings.d/*.json into known_findings.json (the single committed known-findings file) and empty the fragment dir."""
import glob, json, os
ROOT = os.path.dirname(os.path.dirname(os.path.abspath(__file__)))
main = os.path.join(ROOT, "known_findings.json")
d = json.load(open(main))
have = {e["id"] for e in d["findings"]}
n = 0
for fn in sorted(glob.glob(os.path.join(ROOT, "known_findings.d", "*.json"))):
    for e in json.load(open(fn)).get("findings", []):
        if e["id"] in have:
            for i, old in enumerate(d["findings"]):
                if old["id"] == e["id"]:
                    d["findings"][i] = e
        else:
            d["findings"].append(e)
            have.add(e["id"])
            n += 1
    os.unlink(fn)
d["findings"].sort(key=lambda e: (e["property"], e["id"]))
json.dump(d, open(main, "w"), indent=1)
print("merged", n, "new entries; total", len(d["findings"]))
