#!/usr/bin/env python3
"""Flip known-finding entries whose defect has been repaired by a fix: commit to status=fixed (idempotent).
A fixed entry suppresses nothing: if the defect returns the check reports a VIOLATION."""
import glob
import json
import os

ROOT = os.path.dirname(os.path.dirname(os.path.abspath(__file__)))
FIXED = {
    "C01-between-bounds-not-grouped": "48d6e83", "C01-unary-minus-negative-literal": "42e91ab", "C01-sqlite-floor-udf-null": "94d9d28",
    "C10-view-unique-stale-memo": "36dcbc8", "C10-fullybuffered-fetchmany0": "c12d637", "C10-mergedresult-close": "4a8758d",
    "C10-cursor-held-iterator": "f708cbf",
    "C13-orm-executemany-update-prefetch": "6d9bce9", "C13-multivalues-ctx-default-keyerror": "37b622e",
    "C38-setslice-not-normalised": "9cb0b6d", "C38-setslice-extended-iterator": "382f82a", "C38-list-remove-absent-fires-event": "2eab97f",
    "C38-dict-ior-no-events": "eae8c70",
    "C43-evaluator-and-null-before-false": "6629b26", "C43-evaluator-mod-sign": "90e6cba", "C43-evaluator-in-null-member": "f08565c",
    "C43-evaluator-in-empty-list-null-lhs": "f08565c", "C43-evaluator-tuple-in-null-component": "f08565c",
    "C43-evaluator-like-wildcards": "7314ff6", "C43-evaluator-zero-division": "02455a5", "C43-bulk-update-set-reads-assigned-column": "0d503d2",
    "C49-mutabledict-ior-untracked": "7ce811d", "C49-mutablelist-imul-untracked": "7ce811d",
    "C50-orderinglist-sort-reverse-positions": "e8b945b", "C50-assoclist-setslice-not-normalised": "e371dcf",
    "C50-orderinglist-setitem-negative-index": "530ad4d", "C50-assocdict-pop-default": "0459228", "C50-assoclist-imul-negative": "abdac62",
    "C50-via-C38-instrumented-setslice": "9cb0b6d", "C50-via-C38-proxy-insert-negative": "9cb0b6d",
    "C54-orderedset-symdiff-update-duplicates": "8de6536", "C54-identityset-ixor-noop": "2a8ccb1",
}
try:
    FIXED.update(json.load(open(os.path.join(ROOT, "tools", "fixed_map.json"))))
except FileNotFoundError:
    pass
n = 0
for fn in sorted(glob.glob(os.path.join(ROOT, "known_findings.d", "*.json"))) + [os.path.join(ROOT, "known_findings.json")]:
    d = json.load(open(fn))
    ch = False
    for e in d.get("findings", []):
        c = FIXED.get(e.get("id"))
        if c and e.get("status") != "fixed":
            e["status"] = "fixed"
            e["commit"] = c
            e["line"] = "fixed: property=%s %s %s" % (e["property"], c, e.get("what", "")[:200])
            ch = True
            n += 1
    if ch:
        json.dump(d, open(fn, "w"), indent=1)
print("flipped", n)
