---------------------------- MODULE UrlCodec ----------------------------
(* C20: database URLs round-trip through their string form.
   engine/url.py transcribed over strings = sequences of one-character strings:
     Render  = URL.render_as_string(hide_password=False)  (urllib quote / quote_plus with the safe sets used there)
     Parse   = make_url -> _parse_url: the regular expression's matching discipline (greedy + backtracking) written out as
               index arithmetic, urllib unquote, parse_qsl (blank values dropped unless KeepBlank), the str/tuple merging of
               repeated query keys, int() of the port.
   Every URL of the bounded family (one "rich" component ranging over ALL strings up to MaxRich over Alpha - the URL-special
   characters, '%', hex digits, a non-ASCII letter - the others over a small adversarial set) is an initial state; TLC
   checks RoundTripOK on it and prints one case (input, rendered text, parsed components, class) for the binding.
   Mode "raw": every string over RawAlpha up to MaxRaw is parsed (no rendering): make_url's splitting itself. *)
EXTENDS Integers, Sequences, FiniteSets, TLC, Json
CONSTANTS Alpha, MaxRich, Mode, RawAlpha, MaxRaw,
          KeepBlank     \* FALSE = parse_qsl drops "k=" (named deviation BlankDropped); TRUE = the repaired behaviour
VARIABLES u, done
vars == <<u, done>>
None == [some |-> FALSE, s |-> << >>]
Some(s) == [some |-> TRUE, s |-> s]
SeqsUpTo(S, n) == UNION {[1..k -> S] : k \in 0..n}
Range(s) == {s[i] : i \in 1..Len(s)}
Sub(s, a, b) == IF a > b THEN << >> ELSE SubSeq(s, a, b)
RECURSIVE Cat(_)
Cat(ss) == IF ss = << >> THEN << >> ELSE Head(ss) \o Cat(Tail(ss))
\* ---- urllib.parse.quote ----
Hex(c) == CASE c = "%" -> <<"%", "2", "5">> [] c = "@" -> <<"%", "4", "0">> [] c = ":" -> <<"%", "3", "A">>
            [] c = "/" -> <<"%", "2", "F">> [] c = "?" -> <<"%", "3", "F">> [] c = "+" -> <<"%", "2", "B">>
            [] c = " " -> <<"%", "2", "0">> [] c = "&" -> <<"%", "2", "6">> [] c = "=" -> <<"%", "3", "D">>
            [] c = "#" -> <<"%", "2", "3">> [] c = "[" -> <<"%", "5", "B">> [] c = "]" -> <<"%", "5", "D">>
            [] c = "e'" -> <<"%", "C", "3", "%", "A", "9">>          \* e-acute, two UTF-8 bytes
            [] OTHER -> <<c>>                                          \* letters, digits: always safe
Quote(s, safe) == Cat([i \in 1..Len(s) |-> IF s[i] \in safe THEN <<s[i]>> ELSE Hex(s[i])])
QuotePlus(s) == Cat([i \in 1..Len(s) |-> IF s[i] = " " THEN <<"+">> ELSE Hex(s[i])])
\* ---- urllib.parse.unquote ----
DecPairs == {<<"2", "5">>, <<"4", "0">>, <<"3", "A">>, <<"2", "F">>, <<"3", "F">>, <<"2", "B">>, <<"2", "0">>, <<"2", "6">>,
             <<"3", "D">>, <<"2", "3">>, <<"5", "B">>, <<"5", "D">>, <<"2", "2">>, <<"5", "2">>, <<"5", "5">>}
Dec(p) == CASE p = <<"2", "5">> -> "%" [] p = <<"4", "0">> -> "@" [] p = <<"3", "A">> -> ":" [] p = <<"2", "F">> -> "/"
            [] p = <<"3", "F">> -> "?" [] p = <<"2", "B">> -> "+" [] p = <<"2", "0">> -> " " [] p = <<"2", "6">> -> "&"
            [] p = <<"3", "D">> -> "=" [] p = <<"2", "3">> -> "#" [] p = <<"5", "B">> -> "[" [] p = <<"5", "D">> -> "]"
            [] p = <<"2", "2">> -> "dq" [] p = <<"5", "2">> -> "R" [] p = <<"5", "5">> -> "U"
RECURSIVE Unq(_)
Unq(s) == IF s = << >> THEN << >>
          ELSE IF Len(s) >= 6 /\ SubSeq(s, 1, 6) = <<"%", "C", "3", "%", "A", "9">> THEN <<"e'">> \o Unq(Sub(s, 7, Len(s)))
          ELSE IF s[1] = "%" /\ Len(s) >= 3 /\ <<s[2], s[3]>> \in DecPairs THEN <<Dec(<<s[2], s[3]>>)>> \o Unq(Sub(s, 4, Len(s)))
          ELSE <<s[1]>> \o Unq(Tail(s))
PlusToSpace(s) == [i \in 1..Len(s) |-> IF s[i] = "+" THEN " " ELSE s[i]]
\* ---- Python string order (code points) for the sorted query keys ----
Rank(c) == CASE c = " " -> 32 [] c = "#" -> 35 [] c = "%" -> 37 [] c = "&" -> 38 [] c = "+" -> 43 [] c = "/" -> 47
             [] c = "2" -> 50 [] c = "5" -> 53 [] c = ":" -> 58 [] c = "=" -> 61 [] c = "?" -> 63 [] c = "@" -> 64
             [] c = "[" -> 91 [] c = "]" -> 93 [] c = "x" -> 120 [] c = "y" -> 121 [] c = "e'" -> 233 [] OTHER -> 0
RECURSIVE Less(_, _)
Less(a, b) == IF b = << >> THEN FALSE ELSE IF a = << >> THEN TRUE
              ELSE IF Rank(a[1]) # Rank(b[1]) THEN Rank(a[1]) < Rank(b[1]) ELSE Less(Tail(a), Tail(b))
\* ---- render_as_string(hide_password=False) ----
SortedQ(q) == IF Len(q) = 2 /\ Less(q[2].k, q[1].k) THEN <<q[2], q[1]>> ELSE q
Pairs(q) == Cat([i \in 1..Len(q) |-> [j \in 1..Len(q[i].vs) |-> QuotePlus(q[i].k) \o <<"=">> \o QuotePlus(q[i].vs[j])]])
RECURSIVE JoinAmp(_)
JoinAmp(ps) == IF ps = << >> THEN << >> ELSE IF Len(ps) = 1 THEN ps[1] ELSE ps[1] \o <<"&">> \o JoinAmp(Tail(ps))
Render(x) ==
     (IF x.user.some THEN Quote(x.user.s, {" ", "+"})
                          \o (IF x.pass.some THEN <<":">> \o Quote(x.pass.s, {" ", "+"}) ELSE << >>) \o <<"@">>
      ELSE << >>)                                        \* a password without a username is not rendered at all
  \o (IF x.host.some THEN (IF ":" \in Range(x.host.s) THEN <<"[">> \o x.host.s \o <<"]">> ELSE x.host.s) ELSE << >>)
  \o (IF x.port.some THEN <<":">> \o x.port.s ELSE << >>)
  \o (IF x.db.some THEN <<"/">> \o Quote(x.db.s, {" ", "+", "/"}) ELSE << >>)
  \o (IF x.q # << >> THEN <<"?">> \o JoinAmp(Pairs(SortedQ(x.q))) ELSE << >>)
\* ---- _parse_url on the text after "<drivername>://" ----
FirstIdx(r, S, from) == IF \E i \in from..Len(r) : r[i] \in S THEN CHOOSE i \in from..Len(r) : r[i] \in S /\ \A j \in from..(i-1) : r[j] \notin S
                        ELSE Len(r) + 1
LastIdx(r, c, lo, hi) == IF \E i \in lo..hi : r[i] = c THEN CHOOSE i \in lo..hi : r[i] = c /\ \A j \in (i+1)..hi : r[j] # c ELSE 0
At(r, i) == IF i >= 1 /\ i <= Len(r) THEN r[i] ELSE "eos"
\* (?:(?P<username>[^:/]*)(?::(?P<password>[^@]*))?@)?   greedy, then backtracking
UserInfo(r) ==
   LET e == FirstIdx(r, {":", "/"}, 1) - 1
       at == FirstIdx(r, {"@"}, e + 2)
       q == LastIdx(r, "@", 1, e)
   IN IF At(r, e + 1) = ":" /\ at <= Len(r)
      THEN [user |-> Some(Sub(r, 1, e)), pass |-> Some(Sub(r, e + 2, at - 1)), rest |-> Sub(r, at + 1, Len(r))]
      ELSE IF q > 0 THEN [user |-> Some(Sub(r, 1, q - 1)), pass |-> None, rest |-> Sub(r, q + 1, Len(r))]
      ELSE [user |-> None, pass |-> None, rest |-> r]
\* (?:\[(?P<ipv6host>[^/\?]+)\]|(?P<ipv4host>[^/:\?]+))?
HostPart(t) ==
   LET stop == FirstIdx(t, {"/", "?"}, 1)
       p == LastIdx(t, "]", 3, stop - 1)
       h4 == FirstIdx(t, {"/", ":", "?"}, 1) - 1
   IN IF At(t, 1) = "[" /\ p > 0 THEN [host |-> Some(Sub(t, 2, p - 1)), nxt |-> p + 1]
      ELSE IF h4 >= 1 THEN [host |-> Some(Sub(t, 1, h4)), nxt |-> h4 + 1]
      ELSE [host |-> None, nxt |-> 1]
StripSp(s) == LET a == FirstIdx(s, Range(s) \ {" "}, 1)
                  b == IF a > Len(s) THEN 0 ELSE CHOOSE i \in 1..Len(s) : s[i] # " " /\ \A j \in (i+1)..Len(s) : s[j] = " "
              IN Sub(s, a, b)
\* int(): surrounding whitespace and one leading "+" accepted; "" and anything else -> ValueError
PortVal(s) == LET t == StripSp(s)
                  d == IF t # << >> /\ t[1] = "+" THEN Tail(t) ELSE t
              IN IF d # << >> /\ Range(d) \subseteq {"2", "5"} THEN [ok |-> TRUE, v |-> Some(d)] ELSE [ok |-> FALSE, v |-> None]
\* parse_qsl(query) + the str / list merging of _parse_url + URL._str_dict (list -> tuple)
RECURSIVE SplitOn(_, _)
SplitOn(s, c) == LET i == FirstIdx(s, {c}, 1) IN IF i > Len(s) THEN <<s>> ELSE <<Sub(s, 1, i - 1)>> \o SplitOn(Sub(s, i + 1, Len(s)), c)
QslPairs(qs) ==
   LET pieces == IF qs = << >> THEN << >> ELSE SplitOn(qs, "&")
       One(p) == LET i == FirstIdx(p, {"="}, 1) IN
                 IF p = << >> THEN << >>
                 ELSE IF i > Len(p) THEN (IF KeepBlank THEN << [k |-> Unq(PlusToSpace(p)), v |-> << >>] >> ELSE << >>)   \* no "="
                 ELSE IF i = Len(p) /\ ~KeepBlank THEN << >>                             \* blank value: dropped
                 ELSE << [k |-> Unq(PlusToSpace(Sub(p, 1, i - 1))), v |-> Unq(PlusToSpace(Sub(p, i + 1, Len(p))))] >>
   IN Cat([i \in 1..Len(pieces) |-> One(pieces[i])])
QDict(ps) == { [k |-> key, vs |-> LET sel == SelectSeq(ps, LAMBDA p : p.k = key) IN [i \in 1..Len(sel) |-> sel[i].v],
                tup |-> Cardinality({i \in 1..Len(ps) : ps[i].k = key}) > 1] : key \in {ps[i].k : i \in 1..Len(ps)} }
Parse(r) ==
   LET ui == UserInfo(r)
       t == ui.rest
       hp == HostPart(t)
       hasport == At(t, hp.nxt) = ":"
       pend == IF hasport THEN FirstIdx(t, {"/", "?"}, hp.nxt + 1) - 1 ELSE hp.nxt - 1
       ptxt == IF hasport THEN Sub(t, hp.nxt + 1, pend) ELSE << >>
       a2 == pend + 1
       hasdb == At(t, a2) = "/"
       dend == IF hasdb THEN FirstIdx(t, {"?"}, a2 + 1) - 1 ELSE a2 - 1
       a3 == dend + 1
       hasq == At(t, a3) = "?"                      \* anything else left over is ignored (re.match, not fullmatch)
       pv == PortVal(ptxt)
   IN IF hasport /\ ~pv.ok THEN [err |-> TRUE]
      ELSE [err |-> FALSE,
            user |-> IF ui.user.some THEN Some(Unq(ui.user.s)) ELSE None,
            pass |-> IF ui.pass.some THEN Some(Unq(ui.pass.s)) ELSE None,
            host |-> hp.host,
            port |-> IF hasport THEN pv.v ELSE None,
            db |-> IF hasdb THEN Some(Unq(Sub(t, a2 + 1, dend))) ELSE None,
            q |-> IF hasq THEN QDict(QslPairs(Sub(t, a3 + 1, Len(t)))) ELSE {}]
\* ---- the property ----
Norm(x) == [err |-> FALSE, user |-> x.user, pass |-> x.pass, host |-> x.host, port |-> x.port, db |-> x.db,
            q |-> {[k |-> x.q[i].k, vs |-> x.q[i].vs, tup |-> x.q[i].tup] : i \in 1..Len(x.q)}]
Cls(x) == IF ~x.user.some /\ x.pass.some THEN "PwNoUser"
          ELSE IF ~KeepBlank /\ \E i \in 1..Len(x.q) : \E j \in 1..Len(x.q[i].vs) : x.q[i].vs[j] = << >> THEN "BlankDropped"
          ELSE IF \E i \in 1..Len(x.q) : x.q[i].tup /\ Len(x.q[i].vs) = 1 THEN "Tuple1"
          ELSE "ok"
RoundTrips(x) == Parse(Render(x)) = Norm(x)
\* every URL outside the three named classes round-trips exactly; the named classes really do not (they are not vacuous)
RoundTripOK == u.mode = "url" => ((Cls(u.x) = "ok") <=> RoundTrips(u.x))
\* no text moves between components: whatever the parse finds for a component is the decoding of text the renderer put there
NoneStaysNone == u.mode = "url" /\ Cls(u.x) # "PwNoUser" =>
                   LET p == Parse(Render(u.x)) IN ~p.err /\ p.user.some = u.x.user.some /\ p.pass.some = u.x.pass.some
                        /\ p.host = u.x.host /\ p.port = u.x.port /\ p.db.some = u.x.db.some
\* parsing is total on the raw family and a parsed port is a number
RawTotal == u.mode = "raw" => LET p == Parse(u.r) IN p.err \/ (p.port.some => Range(p.port.s) \subseteq {"2", "5"})
\* ---- the bounded family ----
Nasty == <<"x", ":", "@", "/", "?", "%", "2", "5", "+", " ", "&", "=", "#", "[", "]", "e'">>
SmallOpt == {None, Some(<< >>), Some(Nasty)}
Rich == SeqsUpTo(Alpha, MaxRich)
HostPorts == {<<None, None>>, <<Some(<<"x">>), None>>, <<Some(<<"x">>), Some(<<"2", "5">>)>>,
              <<Some(<<":", ":", "2">>), Some(<<"5">>)>>, <<None, Some(<<"2">>)>>}
QE(k, vs, tup) == [k |-> k, vs |-> vs, tup |-> tup]
SmallQ == {<< >>, <<QE(<<"y">>, <<Nasty>>, FALSE), QE(<<"x">>, <<<<"x">>, <<"y">>>>, TRUE)>>}
U(us, pw, hp, db, q) == [mode |-> "url", x |-> [user |-> us, pass |-> pw, host |-> hp[1], port |-> hp[2], db |-> db, q |-> q]]
VS(s, sh) == CASE sh = 1 -> <<s>> [] sh = 2 -> <<s, <<"x">>>> [] sh = 3 -> <<<<"x">>, s>> [] sh = 4 -> <<s, s>>
HP2 == {<<None, None>>, <<Some(<<"x">>), Some(<<"2", "5">>)>>}
Family ==
   CASE Mode = "user" -> {U(Some(s), pw, hp, db, q) : s \in Rich, pw \in SmallOpt, hp \in HostPorts, db \in SmallOpt, q \in SmallQ}
     [] Mode = "pass" -> {U(us, Some(s), hp, db, q) : s \in Rich, us \in SmallOpt, hp \in HostPorts, db \in SmallOpt, q \in SmallQ}
     [] Mode = "db" -> {U(us, pw, hp, Some(s), q) : s \in Rich, us \in SmallOpt, pw \in SmallOpt, hp \in HostPorts, q \in SmallQ}
     [] Mode = "qkey" -> {U(us, None, hp, db, <<QE(s, vs, Len(vs) > 1)>> \o more) : s \in Rich, us \in {None, Some(Nasty)},
                            hp \in HP2, db \in {None, Some(Nasty)}, vs \in {<<<<"x">>>>, <<Nasty>>, <<<<"x">>, Nasty>>, <<<< >>>>},
                            more \in {<< >>, <<QE(<<"x">>, <<<<"y">>>>, FALSE)>>}}
     [] Mode = "qval" -> {U(us, None, hp, db, <<QE(k, VS(s, sh), tup)>>) : s \in Rich, us \in {None, Some(Nasty)}, hp \in HP2,
                            db \in {None, Some(Nasty)}, k \in {<<"x">>, Nasty, << >>}, tup \in BOOLEAN,
                            sh \in 1..4}
     [] Mode = "raw" -> {[mode |-> "raw", r |-> r] : r \in SeqsUpTo(RawAlpha, MaxRaw)}
\* a multi-valued entry is a tuple: tup = FALSE with more than one value is not a URL
WellFormed(z) == z.mode = "raw" \/ \A i \in 1..Len(z.x.q) : (Len(z.x.q[i].vs) > 1 => z.x.q[i].tup)
                                   /\ \A j \in 1..Len(z.x.q) : (z.x.q[i].k = z.x.q[j].k => i = j)
Init == u \in {z \in Family : WellFormed(z)} /\ done = FALSE
Case(z) == IF z.mode = "raw" THEN [mode |-> "raw", r |-> z.r, parsed |-> Parse(z.r)]
           ELSE [mode |-> "url", x |-> z.x, text |-> Render(z.x), parsed |-> Parse(Render(z.x)), cls |-> Cls(z.x)]
InitEmit == Init /\ PrintT(ToJson(Case(u)))
Next == ~done /\ done' = TRUE /\ UNCHANGED u
Stutter == UNCHANGED vars
Spec == Init /\ [][Next]_vars
=============================================================================
