---------------------------- MODULE Generative ----------------------------
(* C03: statements are immutable values; compilation is deterministic and does not modify the statement.

   A behaviour builds a DERIVATION TREE of statements: node 1 is the root construct of kind Kind; Derive(p, m) calls generative
   method m on node p and keeps the result as a new node; Copy(p, how) copies / clones / pickles node p; Compile(n, d) compiles
   node n with dialect d.
   Abstract layer: a statement IS its derivation, Descr(n) = the sequence of methods applied to the root (copies have their source's);
   Meaning(kind, descr) is the attribute-wise value obtained by folding the methods.
   Mechanism layer (sql/base.py Generative._generate + @_generative, HasMemoized, _clone, pickling): a node is a __dict__ whose
   collection-valued attributes REFER to heap cells; _generate makes a shallow copy of the __dict__ (sharing every cell with the
   parent) minus the memoized keys; a generative method builds a NEW collection and rebinds the attribute on the copy; compilation
   memoizes derived data on the node it compiles.
   TLC checks that under this mechanism no action ever changes the value of an existing node (Immutable), that every node's value is the
   meaning of its derivation (ValueIsDescr), that what a compilation reads (value + memo) is that meaning at every compilation
   (Deterministic), that copies equal their source and share no fate (CopiesEqual), and that Compile changes nothing but memos
   (CompileInert).  `Faulty` seeds the three classic errors (in-place append on the shared collection, _generate returning self,
   memoized keys copied to the child); the check runs them to show the properties reject them.
   Two "pre-steps" make the histories "memoise or deep-clone the parent first, then derive" reachable in shallow trees: the root may be
   built with the methods in Pre already applied (in the canonical order Canon), Memo(n) reads the memoized attributes of node n
   (exported_columns, dialect_options, cache key) WITHOUT compiling it, and Copy(n, "deepclone" | "adapt") clones it through
   visitors.cloned_traverse / a ClauseAdapter, which rebuilds every collection (Faulty = "clonelist": ... as a mutable collection
   that the next method extends in place).
   Binding: checks/c03.py replays every edge on real Core / ORM / Query objects. *)
EXTENDS Integers, Sequences, FiniteSets, TLC, Json
CONSTANTS Kind,        \* "select" | "compound" | "orm" | "query" | "insert" | "update" | "delete"
          Pre,         \* methods already applied to the root statement (in the order of Canon)
          Methods,     \* generative methods available in this run (subset of those applicable to Kind)
          Hows,        \* copy operations: subset of {"clone", "copy", "deepclone", "adapt", "pickle"}
          Memos,       \* TRUE: Memo(n) is an action
          Dialects,    \* dialect names
          MaxNodes, MaxRepeat, MaxDepth,
          Faulty       \* "none" | "inplace" | "self" | "keepmemo" | "clonelist"
VARIABLES st, last
vars == <<st, last>>

\* attribute a method writes, and whether it appends to or replaces the collection
Attr(m) == CASE m \in {"where", "wherein", "having"} -> "where"
             [] m \in {"join", "outerjoin"} -> "joins"
             [] m \in {"order", "order2", "group"} -> "order"
             [] m \in {"limit", "offset", "distinct", "prefix", "execopt", "label_style", "dialectopt", "dialectopt2"} -> "misc"
             [] m \in {"only", "addcol"} -> "cols"
             [] m \in {"values", "values2", "mvalues", "mvalues2"} -> "values"
             [] m \in {"returning", "returning2"} -> "returning"
             [] m \in {"options", "options2"} -> "options"
Replaces(m) == m = "only"
Attrs == {"where", "joins", "order", "misc", "cols", "values", "returning", "options"}
Applicable(kind) ==
   CASE kind \in {"select", "orm"} -> {"where", "wherein", "having", "join", "outerjoin", "order", "group", "limit", "offset", "distinct", "prefix",
                                       "execopt", "label_style", "only", "addcol"} \cup (IF kind = "orm" THEN {"options", "options2"} ELSE {})
     [] kind = "query" -> {"where", "wherein", "join", "outerjoin", "order", "group", "limit", "offset", "distinct", "only", "addcol", "options", "options2", "execopt"}
     [] kind = "compound" -> {"order", "order2", "group", "limit", "offset", "execopt"}
     [] kind = "insert" -> {"values", "values2", "mvalues", "mvalues2", "returning", "returning2", "prefix", "execopt"}
     [] kind = "update" -> {"where", "wherein", "values", "values2", "returning", "returning2", "prefix", "execopt", "dialectopt", "dialectopt2"}
     [] kind = "delete" -> {"where", "wherein", "returning", "returning2", "prefix", "execopt", "dialectopt", "dialectopt2"}
ASSUME Methods \cup Pre \subseteq Applicable(Kind)
\* the order in which the methods of Pre are applied when the root is built
Canon == <<"values", "mvalues", "values2", "mvalues2", "where", "wherein", "having", "join", "outerjoin", "order", "order2", "group", "limit", "offset",
           "distinct", "prefix", "execopt", "label_style", "only", "addcol", "returning", "returning2", "options", "options2", "dialectopt", "dialectopt2">>
RootDescr == SelectSeq(Canon, LAMBDA m : m \in Pre)

\* ---------- abstract layer ----------
RECURSIVE Descr(_, _)
Descr(nodes, n) == IF nodes[n].par = 0 THEN RootDescr
                   ELSE IF nodes[n].via = "derive" THEN Append(Descr(nodes, nodes[n].par), nodes[n].m)
                   ELSE Descr(nodes, nodes[n].par)
RECURSIVE Meaning(_)
Meaning(d) == IF d = <<>> THEN [a \in Attrs |-> <<>>]
              ELSE LET prev == Meaning(SubSeq(d, 1, Len(d) - 1)) m == d[Len(d)] IN
                   [prev EXCEPT ![Attr(m)] = IF Replaces(m) THEN <<m>> ELSE Append(@, m)]
Count(d, m) == Cardinality({i \in 1..Len(d) : d[i] = m})

\* ---------- mechanism layer ----------
Val(s, n) == [a \in Attrs |-> s.heap[s.nodes[n].cells[a]]]
\* what a compilation of node n reads: memoized data win over the attributes
Reads(s, n) == IF s.nodes[n].memo # <<>> THEN s.nodes[n].memo[1] ELSE Val(s, n)
NewCells(heap, vals) == \* allocate one cell per attribute holding vals[a]; -> [heap, cells]
   LET order == <<"where", "joins", "order", "misc", "cols", "values", "returning", "options">>
       base == Len(heap)
   IN [heap |-> heap \o [i \in 1..8 |-> vals[order[i]]], cells |-> [a \in Attrs |-> base + (CHOOSE i \in 1..8 : order[i] = a)]]
InitSt == LET nc == NewCells(<<>>, Meaning(RootDescr)) IN
          [nodes |-> << [par |-> 0, via |-> "root", m |-> "-", cells |-> nc.cells, memo |-> <<>>, comp |-> FALSE] >>, heap |-> nc.heap]
R(s, r) == [st |-> s, ret |-> r]
\* p.method(...)  ->  new node
DoDerive(s, p, m) ==
   LET a == Attr(m)
       old == s.heap[s.nodes[p].cells[a]]
       new == IF Replaces(m) THEN <<m>> ELSE Append(old, m)
       memo == IF Faulty = "keepmemo" THEN s.nodes[p].memo ELSE <<>>          \* _generate skips _memoized_keys
   IN IF Faulty = "self"
      THEN \* _generate returned self: the method ran on the parent; the "new" statement IS the parent
           LET h == Append(s.heap, new)
               par == [s.nodes[p] EXCEPT !.cells[a] = Len(h)]
           IN R([s EXCEPT !.heap = h, !.nodes = Append([@ EXCEPT ![p] = par], [par EXCEPT !.par = p, !.via = "derive", !.m = m, !.comp = FALSE])], "ok")
      ELSE IF Faulty = "inplace" \/ (Faulty = "clonelist" /\ s.nodes[p].via \in {"deepclone", "adapt"})
      THEN \* the collection is extended in place: parent and child share the cell
           R([s EXCEPT !.heap[s.nodes[p].cells[a]] = new,
                       !.nodes = Append(@, [par |-> p, via |-> "derive", m |-> m, cells |-> s.nodes[p].cells, memo |-> memo, comp |-> FALSE])], "ok")
      ELSE LET h == Append(s.heap, new) IN
           R([s EXCEPT !.heap = h,
                       !.nodes = Append(@, [par |-> p, via |-> "derive", m |-> m, cells |-> [s.nodes[p].cells EXCEPT ![a] = Len(h)],
                                            memo |-> memo, comp |-> FALSE])], "ok")
\* _clone() / copy.copy(): shallow (cells shared, memo dropped / kept as the code does: both give the same reads);
\* deep clone (cloned_traverse) / pickle round trip: every collection rebuilt
DoCopy(s, p, how) ==
   IF how \in {"clone", "copy"}
   THEN R([s EXCEPT !.nodes = Append(@, [par |-> p, via |-> how, m |-> "-", cells |-> s.nodes[p].cells, memo |-> <<>>, comp |-> FALSE])], "ok")
   ELSE LET nc == NewCells(s.heap, Val(s, p)) IN
        R([s EXCEPT !.heap = nc.heap,
                    !.nodes = Append(@, [par |-> p, via |-> how, m |-> "-", cells |-> nc.cells, memo |-> <<>>, comp |-> FALSE])], "ok")
\* compile(dialect): reads the node, memoizes what it derived (cache key, column collections) ON THE NODE, returns the SQL = what it read
\* reading exported_columns / dialect_options / the cache key: memoizes on the node, compiles nothing
DoMemo(s, n) == R([s EXCEPT !.nodes[n].memo = << Reads(s, n) >>], "ok")
DoCompile(s, n, d) == R([s EXCEPT !.nodes[n].memo = << Reads(s, n) >>, !.nodes[n].comp = TRUE], Reads(s, n))

\* ---------- actions ----------
N == Len(st.nodes)
Step(name, n, x, res) == st' = res.st /\ last' = [a |-> name, n |-> n, x |-> x, ret |-> res.ret]
\* (an unpickled statement carries its own copies of the Table objects: extending it with expressions over the program's tables
\*  would mix two tables named alike - not a meaningful program, excluded)
\* Query refuses filter()/join()/having()/order_by()/group_by() once LIMIT or OFFSET is set (orm/query.py _no_limit_offset): the call raises and nothing exists
\* afterwards that did not exist before
\* (an Insert that mixes the single and the multiple VALUES formats is accepted by values() and refused by every COMPILATION with
\*  InvalidRequestError: a statement like any other here, whose "SQL" is that error)
Refused(d, m) == Kind = "query" /\ m \in {"where", "wherein", "join", "outerjoin", "having", "order", "group"}
                    /\ Count(d, "limit") + Count(d, "offset") > 0
Derive == \E p \in 1..N, m \in Methods : N < MaxNodes /\ st.nodes[p].via # "pickle" /\ Count(Descr(st.nodes, p), m) < MaxRepeat
             /\ Step("Derive", p, m, IF Refused(Descr(st.nodes, p), m) THEN R(st, "InvalidRequestError") ELSE DoDerive(st, p, m))
Copy == \E p \in 1..N, how \in Hows : N < MaxNodes /\ st.nodes[p].via \notin Hows /\ Step("Copy", p, how, DoCopy(st, p, how))
\* the FIRST compilation of a node is an action (which dialect goes first, and when, relative to derivations and copies, is the
\* hazard); every later compilation of every compiled node on every dialect is performed by the replay after each step
Compile == \E n \in 1..N, d \in Dialects : ~st.nodes[n].comp /\ Step("Compile", n, d, DoCompile(st, n, d))
Memo == Memos /\ \E n \in 1..N : st.nodes[n].memo = <<>> /\ Step("Memo", n, "-", DoMemo(st, n))
Init == st = InitSt /\ last = [a |-> "init", n |-> 0, x |-> "-", ret |-> "ok"]
Next == Derive \/ Copy \/ Compile \/ Memo
Spec == Init /\ [][Next]_vars
\* which dialect compiled a node is not state: the view keeps only "has been compiled"
View == st
Depth == TLCGet("level") <= MaxDepth
\* (the root prints its pre-applied derivation in place of a method)
Compact(s) == [i \in 1..Len(s.nodes) |-> <<s.nodes[i].par, s.nodes[i].via, IF s.nodes[i].par = 0 THEN RootDescr ELSE s.nodes[i].m,
                                            s.nodes[i].comp, s.nodes[i].memo # <<>> >>]
Slim(l) == [a |-> l.a, n |-> l.n, x |-> l.x, r |-> IF l.a = "Compile" THEN "ok" ELSE l.ret]
Emit == PrintT(ToJson([from |-> Compact(st), act |-> Slim(last'), to |-> Compact(st')]))
InitEmit == Init /\ PrintT(ToJson([init |-> Compact(st)]))

\* ---------- properties (C03) ----------
\* clause 1: no call ever changes what an existing statement means - neither the parent of a derivation nor any earlier derived one
Immutable == [][\A n \in 1..N : Val(st', n) = Val(st, n) /\ Descr(st'.nodes, n) = Descr(st.nodes, n)]_vars
\* a statement is the meaning of its derivation, and copies have their source's
ValueIsDescr == \A n \in 1..N : Val(st, n) = Meaning(Descr(st.nodes, n))
CopiesEqual == \A n \in 1..N : st.nodes[n].via \in Hows => Val(st, n) = Val(st, st.nodes[n].par)
\* clause 2: whenever a node is compiled, on whichever dialect and however often, the compilation reads the same thing: its meaning
Deterministic == \A n \in 1..N : Reads(st, n) = Meaning(Descr(st.nodes, n))
CompileReturnsMeaning == last.a = "Compile" => last.ret = Meaning(Descr(st.nodes, last.n))
\* clause 3: compilation modifies nothing but memoized data
CompileInert == [][last'.a \in {"Compile", "Memo"} => (st'.heap = st.heap /\ \A n \in 1..N : st'.nodes[n].cells = st.nodes[n].cells) /\ Len(st'.nodes) = N]_vars
RefusedChangesNothing == [][(last'.a = "Derive" /\ last'.ret = "InvalidRequestError") => st' = st]_vars
\* shallow copies never write through shared cells: every cell is written exactly once (when allocated)
HeapAppendOnly == [][\A i \in 1..Len(st.heap) : st'.heap[i] = st.heap[i]]_vars
=============================================================================
