---------------------------- MODULE Versioning ----------------------------
(* C44: version counters prevent lost updates.
   Sessions (autoflush off, expire_on_commit off) load, modify, delete and flush shared rows of a mapped class with a
   version_id column; every interleaving of their operations is a behaviour.  Mechanism layer = orm/persistence.py:
   UPDATE/DELETE ... WHERE pk = ? AND version_id = <version the object was loaded with>, rowcount check -> StaleDataError,
   new version = old + 1 written to the row and to the object.  Database = SQLite: one writer at a time (the harness
   never schedules a flush while another session holds uncommitted flushed work: `lock`), readers see committed data.
   Abstract layer (what "no lost update" means, in terms of VALUES, independent of version numbers): hist[k] is the
   sequence of committed-or-flushed writes [based |-> value the writer had loaded, new |-> value written]; NoLostUpdate
   says each write was based on the value written by its predecessor. Every Modify writes a fresh value, so a stale
   overwrite is visible as based # predecessor.new. *)
EXTENDS Integers, Sequences, FiniteSets, TLC, Json
CONSTANTS Sessions,      \* e.g. {1, 2}
          Keys,          \* e.g. {1} or {1, 2}
          MaxVals,       \* bound on fresh values handed out by Modify
          MaxOps,        \* operations per session
          Skew,          \* initial version of row 1 is 1 + Skew (rows of one flush then carry DIFFERENT versions)
          MaxDepth
VARIABLES st, last
vars == <<st, last>>
Gone == [ver |-> 0, val |-> 0]
ObjNone == [s |-> "none", ver |-> 0, val |-> 0, pend |-> "none", nv |-> 0]
InitVer(k) == IF k = 1 THEN 1 + Skew ELSE 1
InitSt == [db |-> [k \in Keys |-> [ver |-> InitVer(k), val |-> 0]],      \* committed rows (ver = 0: row absent)
           work |-> [k \in Keys |-> [ver |-> InitVer(k), val |-> 0]],    \* image seen by the lock holder (uncommitted flushed work)
           lock |-> 0,
           ses |-> [s \in Sessions |-> [k \in Keys |-> ObjNone]],
           needrb |-> [s \in Sessions |-> FALSE],      \* a flush failed inside the session's transaction: rollback() required
           ops |-> [s \in Sessions |-> 0],
           nval |-> 0,
           hist |-> [k \in Keys |-> << >>],          \* abstract write history of committed + currently flushed writes
           whist |-> [k \in Keys |-> << >>]]         \* ... including the lock holder's uncommitted writes
R(s, r) == [st |-> s, ret |-> r]
Visible(s, x) == IF s.lock = x THEN s.work ELSE s.db
VisHist(s, x) == IF s.lock = x THEN s.whist ELSE s.hist
Tick(s, x) == [s EXCEPT !.ops[x] = @ + 1]
\* ---- operations ----
\* session.get(T, k) for a key not yet in the identity map
DoLoad(s, x, k) == LET row == Visible(s, x)[k] IN
   IF s.needrb[x] THEN R(Tick(s, x), "PendingRollbackError")
   ELSE IF row.ver = 0 THEN R(Tick(s, x), "nothing")
   ELSE R([Tick(s, x) EXCEPT !.ses[x][k] = [s |-> "loaded", ver |-> row.ver, val |-> row.val, pend |-> "none", nv |-> 0]], "ok")
DoModify(s, x, k) == LET v == s.nval + 1 IN
   R([Tick(s, x) EXCEPT !.nval = v, !.ses[x][k].pend = "mod", !.ses[x][k].nv = v], "ok")
DoMarkDelete(s, x, k) == R([Tick(s, x) EXCEPT !.ses[x][k].pend = "del"], "ok")
Pending(s, x) == {k \in Keys : s.ses[x][k].pend # "none"}
Stale(s, x, k) == LET row == Visible(s, x)[k] IN row.ver = 0 \/ row.ver # s.ses[x][k].ver
\* flush of session x: UPDATE / DELETE with the version criterion for every pending object; any stale row fails the whole flush,
\* the session's transaction is rolled back and the session demands rollback()
ApplyFlush(s, x) ==
   LET P == Pending(s, x)
       w0 == Visible(s, x)
       h0 == VisHist(s, x)
       w1 == [k \in Keys |-> IF k \notin P THEN w0[k]
                             ELSE IF s.ses[x][k].pend = "mod" THEN [ver |-> s.ses[x][k].ver + 1, val |-> s.ses[x][k].nv]
                             ELSE Gone]
       h1 == [k \in Keys |-> IF k \notin P THEN h0[k]
                             ELSE Append(h0[k], [based |-> s.ses[x][k].val,
                                                 new |-> IF s.ses[x][k].pend = "mod" THEN s.ses[x][k].nv ELSE 0 - 1,
                                                 by |-> x])]
       o1 == [k \in Keys |-> IF k \notin P THEN s.ses[x][k]
                             ELSE IF s.ses[x][k].pend = "mod"
                                  THEN [s |-> "loaded", ver |-> s.ses[x][k].ver + 1, val |-> s.ses[x][k].nv, pend |-> "none", nv |-> 0]
                                  ELSE [s |-> "deleted", ver |-> 0, val |-> 0, pend |-> "none", nv |-> 0]]
   IN [s EXCEPT !.work = w1, !.whist = h1, !.lock = x, !.ses[x] = o1]
\* the failed flush rolls the session's transaction back (the session is usable again at once, its objects are expired);
\* the harness then discards the session's objects (expunge_all), so every object is loaded afresh afterwards
FailFlush(s, x) == [s EXCEPT !.work = s.db, !.whist = s.hist, !.lock = IF s.lock = x THEN 0 ELSE @,
                             !.ses[x] = [k \in Keys |-> ObjNone], !.needrb[x] = TRUE]
FlushCore(s, x) ==
   IF Pending(s, x) = {} THEN R(s, "ok")
   ELSE IF \E k \in Pending(s, x) : Stale(s, x, k) THEN R(FailFlush(s, x), "StaleDataError")
   ELSE R(ApplyFlush(s, x), "ok")
DoFlush(s, x) == FlushCore(Tick(s, x), x)
Publish(s, x) == IF s.lock = x THEN [s EXCEPT !.db = s.work, !.hist = s.whist, !.lock = 0] ELSE s
DropDeleted(s, x) == [s EXCEPT !.ses[x] = [k \in Keys |-> IF s.ses[x][k].s = "deleted" THEN ObjNone ELSE s.ses[x][k]]]
\* commit() = flush + COMMIT
DoCommit(s, x) ==
   LET f == FlushCore(Tick(s, x), x) IN
   IF s.needrb[x] THEN R(Tick(s, x), "PendingRollbackError")
   ELSE IF f.ret # "ok" THEN f ELSE R(DropDeleted(Publish(f.st, x), x), "ok")
\* rollback() (+ expunge_all() in the harness: every object is loaded afresh afterwards)
DoRollback(s, x) ==
   LET s1 == IF s.lock = x THEN [s EXCEPT !.work = s.db, !.whist = s.hist, !.lock = 0] ELSE s
   IN R([Tick(s1, x) EXCEPT !.ses[x] = [k \in Keys |-> ObjNone], !.needrb[x] = FALSE], "ok")
\* ---- actions ----
Step(name, x, k, res) == st' = res.st /\ last' = [a |-> name, s |-> x, k |-> k, ret |-> res.ret]
CanOp(x) == st.ops[x] < MaxOps
\* SQLite: a session may write only if no other session holds uncommitted flushed work (environment constraint, forced by the harness)
MayWrite(x) == st.lock \in {0, x}
Load == \E x \in Sessions, k \in Keys : CanOp(x) /\ st.ses[x][k].s = "none" /\ Step("Load", x, k, DoLoad(st, x, k))
Modify == \E x \in Sessions, k \in Keys : CanOp(x) /\ st.ses[x][k].s = "loaded" /\ st.ses[x][k].pend # "del" /\ st.nval < MaxVals
             /\ Step("Modify", x, k, DoModify(st, x, k))
MarkDelete == \E x \in Sessions, k \in Keys : CanOp(x) /\ st.ses[x][k].s = "loaded" /\ st.ses[x][k].pend = "none"
             /\ Step("MarkDelete", x, k, DoMarkDelete(st, x, k))
Flush == \E x \in Sessions : CanOp(x) /\ (Pending(st, x) # {} => MayWrite(x)) /\ Step("Flush", x, 0, DoFlush(st, x))
Commit == \E x \in Sessions : CanOp(x) /\ (Pending(st, x) # {} => MayWrite(x)) /\ Step("Commit", x, 0, DoCommit(st, x))
Rollback == \E x \in Sessions : CanOp(x) /\ Step("Rollback", x, 0, DoRollback(st, x))
Init == st = InitSt /\ last = [a |-> "init", s |-> 0, k |-> 0, ret |-> "ok"]
Next == Load \/ Modify \/ MarkDelete \/ Flush \/ Commit \/ Rollback
Spec == Init /\ [][Next]_vars
View == st
Depth == TLCGet("level") <= MaxDepth
Obs(s) == [db |-> s.db, lock |-> s.lock,
           objs |-> [x \in Sessions |-> [k \in Keys |-> [s |-> s.ses[x][k].s, ver |-> s.ses[x][k].ver,
                                                          val |-> IF s.ses[x][k].pend = "mod" THEN s.ses[x][k].nv ELSE s.ses[x][k].val]]]]
Emit == PrintT(ToJson([from |-> st, act |-> last', to |-> st', obs |-> Obs(st')]))
InitEmit == Init /\ PrintT(ToJson([init |-> st]))
\* ---- properties (C44) ----
\* no successful flush overwrites a change it did not see: every write in the history is based on its predecessor's value
Chain(h) == \A i \in 1..Len(h) : h[i].based = (IF i = 1 THEN 0 ELSE h[i-1].new)
NoLostUpdate == \A k \in Keys : Chain(st.hist[k]) /\ Chain(st.whist[k])
\* a flush whose loaded version is no longer current fails with StaleDataError and changes nothing
StaleFailsAndChangesNothing ==
   [][ \A x \in Sessions :
         (last'.a \in {"Flush", "Commit"} /\ last'.s = x /\ (\E k \in Pending(st, x) : Stale(st, x, k)))
            => (last'.ret = "StaleDataError" /\ st'.db = st.db /\ st'.work = st.db /\ st'.lock # x) ]_vars
\* every successful update increments the version (committed versions only ever grow by the number of writes)
VersionIncrements == [][ \A k \in Keys : (st'.db[k] # st.db[k] /\ st'.db[k].ver # 0) => st'.db[k].ver > st.db[k].ver ]_vars
VersionMatchesHistory == \A k \in Keys : st.db[k].ver # 0 => st.db[k].ver = InitVer(k) + Len(st.hist[k])
\* a deleted row never comes back and a session's object is never ahead of the database it can see
NoResurrection == [][ \A k \in Keys : st.db[k].ver = 0 => st'.db[k].ver = 0 ]_vars
LockHolderHasWork == st.lock = 0 => st.work = st.db
=============================================================================
