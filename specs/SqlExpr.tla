---------------------------- MODULE SqlExpr ----------------------------
(* SQL scalar semantics with three-valued logic over a small domain (C01, C07, C43).

   An expression is a PREFIX TOKEN SEQUENCE; a token is [k |-> kind, v |-> int].  `Val(e, row)` is the
   SQL value of e on one row <<a, b, s, u>> of the table t (a, b integers, s, u short strings); it is computed by
   ONE right-to-left pass over the prefix sequence with a value stack (`Run`), which also yields the value of every
   sub-expression (`AllVals`).
   Values: integers, NULL = 99, booleans are the integers 1 / 0 (as on SQLite), strings are sequences
   of one-character strings, the string NULL is SNULL = <<"NULL">>.

   "Function transcription" pattern (as TopoSort.tla): every expression of the family selected by the
   cfg constant `Family` is ONE initial state; `x` is the vector of its values on the family's rows,
   printed as one JSON case per state; the Python side builds the same tree with the SQLAlchemy
   expression language and runs it (SQLite, ORM evaluator, bulk UPDATE/DELETE).  So that the module is
   not only a table, TLC checks
     * ASSUME-level algebra over the whole value domain (Kleene laws, De Morgan, soundness of every
       negation rewriting the expression language performs, associativity of exactly the operators it
       flattens and NON-associativity of the others, the division/modulo identity), and
     * per-state theorems relating the recursive evaluator to the DECLARATIVE reading of the SQL
       standard: IN = "some equality TRUE / all FALSE / else NULL", NOT IN = NOT(IN), row-value IN,
       BETWEEN = range test, De Morgan on the tree, CASE, LIKE prefix/suffix, and the frame rule of UPDATE / DELETE
       (rows whose criterion is FALSE or NULL are untouched, SET expressions read the old row).
   Families: "c07" (IN / NOT IN), "c43" (statements over the ORM evaluator's operators, EmitSub), "c01" (rendering);
   the smaller names in FamilyEx select one constituent set (development aid).                              *)
EXTENDS Integers, Sequences, FiniteSets, TLC, Json, Randomization
CONSTANTS Family,      \* which expression set is enumerated (string)
          Level,       \* 0 = quick-size sets, 1 = thorough-size sets
          SampleN,     \* size of the random subsets used by the sampled (depth 3) families
          EmitSub      \* TRUE: also print the value of every sub-expression (used to localise a disagreement)

NULL == 99
SNULL == <<"NULL">>
ColVals == <<-2, -1, 0, 1, 2, NULL>>
StrColVals == << <<>>, <<"a">>, <<"a", "b">>, <<"b">>, <<"a", "%">>, SNULL >>
StrLits == << <<>>, <<"a">>, <<"b">>, <<"a", "b">>, <<"%">>, <<"a", "%">>, <<"_">>, <<"_", "b">>, <<"%", "b">>, SNULL >>
NC == Len(ColVals)
NS == Len(StrColVals)
\* rows 1..NC*NC vary (a, b); rows NC*NC+1 .. NC*NC+NS*NS vary (s, u)
AllRows == [i \in 1..(NC * NC + NS * NS) |->
              IF i <= NC * NC
              THEN <<ColVals[((i - 1) \div NC) + 1], ColVals[((i - 1) % NC) + 1], <<"a">>, <<>> >>
              ELSE LET j == i - NC * NC - 1 IN <<1, 0, StrColVals[(j \div NS) + 1], StrColVals[(j % NS) + 1]>>]
IntRows == <<1, NC * NC>>
StrRows == <<NC * NC + 1, NC * NC + NS * NS>>
EveryRow == <<1, NC * NC + NS * NS>>

\* ------------------------------------------------------------------ value algebra
B(b) == IF b THEN 1 ELSE 0
Abs(x) == IF x < 0 THEN -x ELSE x
\* truth of an integer as SQLite sees it: NULL unknown, 0 false, anything else true (predicates only produce 0 / 1 / NULL)
And3(a, b) == IF a = 0 \/ b = 0 THEN 0 ELSE IF a = NULL \/ b = NULL THEN NULL ELSE 1
Or3(a, b) == IF (a # 0 /\ a # NULL) \/ (b # 0 /\ b # NULL) THEN 1 ELSE IF a = NULL \/ b = NULL THEN NULL ELSE 0
Not3(a) == IF a = NULL THEN NULL ELSE B(a = 0)
Eq3(a, b) == IF a = NULL \/ b = NULL THEN NULL ELSE B(a = b)
Ne3(a, b) == IF a = NULL \/ b = NULL THEN NULL ELSE B(a # b)
Lt3(a, b) == IF a = NULL \/ b = NULL THEN NULL ELSE B(a < b)
Le3(a, b) == IF a = NULL \/ b = NULL THEN NULL ELSE B(a <= b)
Gt3(a, b) == IF a = NULL \/ b = NULL THEN NULL ELSE B(a > b)
Ge3(a, b) == IF a = NULL \/ b = NULL THEN NULL ELSE B(a >= b)
\* integer division as SQLite/PostgreSQL/MSSQL do it: truncation toward zero; x / 0 and x % 0 are NULL (SQLite)
TruncDiv(a, b) == LET q == Abs(a) \div Abs(b) IN IF (a < 0) # (b < 0) THEN -q ELSE q
IDiv3(a, b) == IF a = NULL \/ b = NULL THEN NULL ELSE IF b = 0 THEN NULL ELSE TruncDiv(a, b)
\* SQL remainder: sign of the DIVIDEND (Python's % takes the sign of the divisor)
SqlMod(a, b) == LET m == Abs(a) % Abs(b) IN IF a < 0 THEN -m ELSE m
Mod3(a, b) == IF a = NULL \/ b = NULL THEN NULL ELSE IF b = 0 THEN NULL ELSE SqlMod(a, b)
Add3(a, b) == IF a = NULL \/ b = NULL THEN NULL ELSE a + b
Sub3(a, b) == IF a = NULL \/ b = NULL THEN NULL ELSE a - b
Mul3(a, b) == IF a = NULL \/ b = NULL THEN NULL ELSE a * b
Neg3(a) == IF a = NULL THEN NULL ELSE -a
\* (x / y) cmp z under TRUE division (x/y is a rational): decided without leaving the integers
QCmp(k, x, y, z) == IF x = NULL \/ y = NULL \/ z = NULL THEN NULL ELSE IF y = 0 THEN NULL
                    ELSE LET l == IF y > 0 THEN x ELSE -x       \* x/y cmp z  <=>  l cmp r  with  l = x*sgn(y), r = z*|y|
                             r == z * Abs(y)
                         IN CASE k = "qeq" -> B(l = r) [] k = "qne" -> B(l # r) [] k = "qlt" -> B(l < r)
                              [] k = "qle" -> B(l <= r) [] k = "qgt" -> B(l > r) [] OTHER -> B(l >= r)
RECURSIVE In3(_, _)
In3(x, l) == IF l = <<>> THEN 0 ELSE Or3(Eq3(x, Head(l)), In3(x, Tail(l)))
\* row values of arity 2:  (x1, x2) = (y1, y2)
TupEq3(x1, x2, y1, y2) == And3(Eq3(x1, y1), Eq3(x2, y2))
RECURSIVE TupIn3(_, _, _)
TupIn3(x1, x2, l) == IF l = <<>> THEN 0 ELSE Or3(TupEq3(x1, x2, l[1], l[2]), TupIn3(x1, x2, Tail(Tail(l))))
Between3(x, lo, hi) == And3(Ge3(x, lo), Le3(x, hi))
Case3(c, x, y) == IF c = 1 THEN x ELSE y
\* ---- strings
Concat3(s, u) == IF s = SNULL \/ u = SNULL THEN SNULL ELSE s \o u
SEq3(s, u) == IF s = SNULL \/ u = SNULL THEN NULL ELSE B(s = u)
RECURSIVE Like(_, _)
Like(p, t) == IF p = <<>> THEN t = <<>>
              ELSE IF Head(p) = "%" THEN \E n \in 0..Len(t) : Like(Tail(p), SubSeq(t, n + 1, Len(t)))
              ELSE t # <<>> /\ (Head(p) = "_" \/ Head(p) = Head(t)) /\ Like(Tail(p), Tail(t))
Like3(t, p) == IF t = SNULL \/ p = SNULL THEN NULL ELSE B(Like(p, t))
\* x.startswith(y) is rendered  x LIKE y || '%'  -- the operand is a PATTERN unless autoescape is used
Starts3(t, p) == IF t = SNULL \/ p = SNULL THEN NULL ELSE B(Like(p \o <<"%">>, t))
Ends3(t, p) == IF t = SNULL \/ p = SNULL THEN NULL ELSE B(Like(<<"%">> \o p, t))
Contains3(t, p) == IF t = SNULL \/ p = SNULL THEN NULL ELSE B(Like(<<"%">> \o p \o <<"%">>, t))

\* ------------------------------------------------------------------ tokens and evaluation
Tok(k, v) == [k |-> k, v |-> v]
T1(k) == <<Tok(k, 0)>>
LeafK == {"col", "lit", "scol", "slit", "true", "false"}
UnK == {"neg", "not", "isnull", "notnull", "cast", "subq", "sisnull", "snotnull", "del"}
BinK == {"add", "sub", "mul", "idiv", "mod", "xsub", "xmul", "xadd", "eq", "ne", "lt", "le", "gt", "ge", "and", "or",
         "concat", "like", "nlike", "seq", "sne", "starts", "ends", "contains", "upd", "upds"}
TerK == {"between", "nbetween", "case", "qeq", "qne", "qlt", "qle", "qgt", "qge", "upda", "updb"}
Arity(t) == IF t.k \in LeafK THEN 0 ELSE IF t.k \in UnK THEN 1 ELSE IF t.k \in BinK THEN 2 ELSE IF t.k \in TerK THEN 3
            ELSE IF t.k \in {"in", "notin"} THEN 1 + t.v ELSE 2 + 2 * t.v       \* "tin" / "tnotin": v = number of 2-tuples
Un1(k, a) == CASE k = "neg" -> Neg3(a) [] k = "not" -> Not3(a)
               [] k = "isnull" -> B(a = NULL) [] k = "notnull" -> B(a # NULL)
               [] k = "sisnull" -> B(a = SNULL) [] k = "snotnull" -> B(a # SNULL)
               [] k = "cast" -> a           \* CAST(int AS INTEGER)
               [] k = "subq" -> a           \* (SELECT e)
               [] OTHER -> B(a = 1)         \* "del": DELETE WHERE a  removes the row iff a is TRUE
Bin2(k, a, b, row) ==
  CASE k \in {"add", "xadd"} -> Add3(a, b) [] k \in {"sub", "xsub"} -> Sub3(a, b) [] k \in {"mul", "xmul"} -> Mul3(a, b)
    [] k = "idiv" -> IDiv3(a, b) [] k = "mod" -> Mod3(a, b)
    [] k = "eq" -> Eq3(a, b) [] k = "ne" -> Ne3(a, b) [] k = "lt" -> Lt3(a, b) [] k = "le" -> Le3(a, b)
    [] k = "gt" -> Gt3(a, b) [] k = "ge" -> Ge3(a, b) [] k = "and" -> And3(a, b) [] k = "or" -> Or3(a, b)
    [] k = "concat" -> Concat3(a, b) [] k = "like" -> Like3(a, b) [] k = "nlike" -> Not3(Like3(a, b))
    [] k = "seq" -> SEq3(a, b) [] k = "sne" -> Not3(SEq3(a, b))
    [] k = "starts" -> Starts3(a, b) [] k = "ends" -> Ends3(a, b) [] k = "contains" -> Contains3(a, b)
    [] k = "upd" -> (IF a = 1 THEN b ELSE row[1])    \* UPDATE t SET a = <b> WHERE <a>: the new value of column a
    [] OTHER -> IF a = 1 THEN b ELSE row[3]          \* "upds": UPDATE t SET s = <b> WHERE <a>: the new value of column s
\* "upda" / "updb": UPDATE t SET a = <b>, b = <c> WHERE <a>: new value of a / of b (both SET expressions see the OLD row)
Ter3(k, a, b, c, row) == CASE k = "between" -> Between3(a, b, c) [] k = "nbetween" -> Not3(Between3(a, b, c))
                           [] k = "case" -> Case3(a, b, c)
                           [] k = "upda" -> (IF a = 1 THEN b ELSE row[1]) [] k = "updb" -> (IF a = 1 THEN c ELSE row[2])
                           [] OTHER -> QCmp(k, a, b, c)
LeafVal(t, row) == CASE t.k = "col" -> row[t.v + 1] [] t.k = "lit" -> t.v [] t.k = "scol" -> row[t.v + 3]
                     [] t.k = "slit" -> StrLits[t.v] [] t.k = "true" -> 1 [] OTHER -> 0
\* One right-to-left pass over the prefix sequence with a value stack (top = first element): when token i is reached
\* its operands are the top Arity values, first operand on top.  `vals` collects the value of the sub-expression that
\* starts at every position.
Apply(t, w, row) ==
  IF t.k \in LeafK THEN LeafVal(t, row)
  ELSE IF t.k \in UnK THEN Un1(t.k, w[1])
  ELSE IF t.k \in BinK THEN Bin2(t.k, w[1], w[2], row)
  ELSE IF t.k \in TerK THEN Ter3(t.k, w[1], w[2], w[3], row)
  ELSE IF t.k = "in" THEN In3(w[1], Tail(w))
  ELSE IF t.k = "notin" THEN Not3(In3(w[1], Tail(w)))
  ELSE IF t.k = "tin" THEN TupIn3(w[1], w[2], Tail(Tail(w)))
  ELSE Not3(TupIn3(w[1], w[2], Tail(Tail(w))))
RECURSIVE Run(_, _, _, _, _)
Run(s, i, row, st, vals) ==
  IF i = 0 THEN vals
  ELSE LET n == Arity(s[i])
           v == Apply(s[i], SubSeq(st, 1, n), row)
       IN Run(s, i - 1, row, <<v>> \o SubSeq(st, n + 1, Len(st)), <<v>> \o vals)
AllVals(e, row) == Run(e, Len(e), row, <<>>, <<>>)     \* AllVals(e,row)[p] = value of the sub-expression starting at p
Val(e, row) == AllVals(e, row)[1]
\* structural operand extraction (used by the theorems only)
RECURSIVE SkipN(_, _)
SkipN(s, n) == IF n = 0 THEN s ELSE SkipN(SkipN(Tail(s), Arity(Head(s))), n - 1)
Opnd(e, i) == LET before == SkipN(Tail(e), i - 1) after == SkipN(Tail(e), i)
              IN SubSeq(before, 1, Len(before) - Len(after))
WellFormed(e) == e # <<>> /\ SkipN(e, 1) = <<>>

\* ------------------------------------------------------------------ expression sets
Un(ops, A) == {T1(o) \o a : o \in ops, a \in A}
Bin(ops, A, C) == {T1(o) \o a \o c : o \in ops, a \in A, c \in C}
Ter(ops, A, C, D) == {T1(o) \o a \o c \o d : o \in ops, a \in A, c \in C, d \in D}
Col(i) == <<Tok("col", i)>>
Lit(v) == <<Tok("lit", v)>>
SCol(i) == <<Tok("scol", i)>>
SLit(i) == <<Tok("slit", i)>>
Lits(S) == {Lit(v) : v \in S}
Lists(V, n) == UNION {[1..m -> V] : m \in 0..n}
RECURSIVE LitSeq(_)
LitSeq(l) == IF l = <<>> THEN <<>> ELSE Lit(Head(l)) \o LitSeq(Tail(l))
RECURSIVE Flat(_)
Flat(ls) == IF ls = <<>> THEN <<>> ELSE Head(ls) \o Flat(Tail(ls))
InOf(ops, Lhs, Ls) == {<<Tok(o, Len(l))>> \o x \o LitSeq(l) : o \in ops, x \in Lhs, l \in Ls}
\* contexts in which a predicate is observed: itself (SELECT / WHERE / HAVING are chosen by the harness), NOT p, CASE WHEN p THEN 1 ELSE 0
Ctx(P) == P \cup Un({"not"}, P) \cup Ter({"case"}, P, {Lit(1)}, {Lit(0)})

\* ---- C07
InVals == {-1, 0, 1, NULL}
InLen(L) == IF L = 0 THEN 2 ELSE 3
InScalar(L) == Ctx(InOf({"in", "notin"}, {Col(0)}, Lists(InVals, InLen(L)))
                \cup InOf({"in", "notin"}, {T1("add") \o Col(0) \o Col(1), Lit(NULL), Lit(1)}, Lists(InVals, 2)))
            \cup (IF L = 0 THEN InOf({"in", "notin"}, {Col(0)}, {l \in Lists(InVals, 3) : Len(l) = 3 /\ l[1] <= l[2]}) ELSE {})
TupVals == {0, 1, NULL}
Pairs == TupVals \X TupVals
TupLists(n) == UNION {[1..m -> Pairs] : m \in 0..n}
TupOf(ops, Ls) == {<<Tok(o, Len(l))>> \o Col(0) \o Col(1) \o LitSeq(Flat(l)) : o \in ops, l \in Ls}
InTuple(L) == Ctx(TupOf({"tin", "tnotin"}, TupLists(IF L = 0 THEN 1 ELSE 2)))
           \cup TupOf({"tin", "tnotin"}, IF L = 0 THEN {l \in TupLists(2) : Len(l) = 2 /\ l[1][1] # 1} ELSE {})
\* list members that are expressions (rendered inline, not as one expanding parameter)
InExprItems == {Col(1), Lit(1), Lit(NULL), T1("add") \o Col(1) \o Lit(1)}
InExpr(L) == Ctx({<<Tok(o, 1)>> \o Col(0) \o i : o \in {"in", "notin"}, i \in InExprItems}
              \cup {<<Tok(o, 2)>> \o Col(0) \o i \o j : o \in {"in", "notin"}, i \in InExprItems, j \in InExprItems})

\* ---- C43: the ORM evaluator's operator set
EvLeaf == {Col(0), Col(1)} \cup Lits({-1, 0, 1, 2})
EvArOps == {"add", "sub", "mul", "mod"}
EvArith1 == EvLeaf \cup Bin(EvArOps, {Col(0), Col(1)}, EvLeaf) \cup Bin(EvArOps, Lits({-1, 2}), {Col(0), Col(1)})
CmpK == {"eq", "ne", "lt", "le", "gt", "ge"}
EvCmp(L) == Bin(IF L = 0 THEN {"eq", "ne", "lt", "ge"} ELSE CmpK, EvArith1, IF L = 0 THEN {Col(1), Lit(0), Lit(-1)} ELSE EvLeaf)
EvInLists == { <<>>, <<1>>, <<1, NULL>>, <<NULL>>, <<0, 2>>, <<-1, -1, 0>> }
EvIn(L) == InOf({"in", "notin"}, {Col(0), T1("add") \o Col(0) \o Col(1)}, EvInLists)
EvTupIn(L) == TupOf({"tin", "tnotin"}, { <<>>, << <<1, 1>> >>, << <<0, 1>>, <<1, 0>> >>, << <<1, NULL>> >>, << <<2, 2>>, <<NULL, 0>> >> })
EvNull == Un({"isnull", "notnull"}, {Col(0), T1("add") \o Col(0) \o Col(1)})
EvQ(L) == Ter({"qeq", "qne", "qlt", "qle", "qgt", "qge"}, {Col(0), Lit(1)}, {Col(1), Lit(2)}, {Lit(0), Lit(1), Lit(-1)})
EvAtomsInt(L) == EvCmp(L) \cup EvIn(L) \cup EvTupIn(L) \cup EvNull \cup EvQ(L) \cup {T1("true"), T1("false")}
SLeafAll == {SCol(0), SCol(1)} \cup {SLit(i) : i \in 1..(Len(StrLits) - 1)}
EvStrVal == {SCol(0), SCol(1)} \cup Bin({"concat"}, {SCol(0), SCol(1)}, SLeafAll)
EvStrVal0 == {SCol(0), SCol(1), T1("concat") \o SCol(0) \o SCol(1), T1("concat") \o SCol(0) \o SLit(3)}
EvAtomsStr(L) == LET SV == IF L = 0 THEN EvStrVal0 ELSE EvStrVal IN
                 Bin({"starts", "ends", "seq", "sne"}, SV, SLeafAll) \cup Un({"sisnull", "snotnull"}, SV)
\* boolean structure over a basis that contains every truth value on some row and every operand class of interest
EvBasis == { T1("eq") \o Col(0) \o Lit(1), T1("eq") \o Col(1) \o Lit(0), T1("lt") \o Col(0) \o Col(1),
             T1("eq") \o (T1("mod") \o Col(0) \o Lit(2)) \o Col(1),
             <<Tok("in", 2)>> \o Col(0) \o Lit(1) \o Lit(NULL), <<Tok("notin", 0)>> \o Col(1),
             T1("isnull") \o Col(1), T1("true"), T1("false") }
EvBasisS == { T1("eq") \o Col(0) \o Lit(1), T1("eq") \o Col(1) \o Lit(0),
              <<Tok("in", 2)>> \o Col(0) \o Lit(1) \o Lit(NULL), <<Tok("notin", 0)>> \o Col(1) }
EvBool1(L) == EvBasis \cup Bin({"and", "or"}, EvBasis, EvBasis) \cup Un({"not"}, EvBasis)
EvBool2(L) == LET Bs == IF L = 0 THEN EvBasisS ELSE EvBasis
                  B1 == Bs \cup Bin({"and", "or"}, Bs, Bs) \cup Un({"not"}, Bs)
              IN Un({"not"}, B1) \cup Bin({"and", "or"}, B1, Bs) \cup Bin({"and", "or"}, Bs, B1)
EvSetInt(L) == EvArith1 \cup Bin(EvArOps, Bin(EvArOps, {Col(0)}, {Col(1), Lit(2)}), {Col(1), Lit(-1)}) \cup {Lit(NULL)}
\* statements: UPDATE t SET a = <set> WHERE <crit>  and  DELETE FROM t WHERE <crit>
EvCrits == EvBasis \cup Un({"not"}, EvBasis) \cup {T1("and") \o (T1("eq") \o Col(0) \o Lit(1)) \o (T1("eq") \o Col(1) \o Lit(0)),
                                                   T1("not") \o (T1("and") \o (T1("eq") \o Col(0) \o Lit(1)) \o (T1("eq") \o Col(1) \o Lit(0)))}
EvSets == {Lit(0), Lit(NULL), T1("add") \o Col(0) \o Lit(1), T1("mod") \o Col(0) \o Lit(2), T1("mul") \o Col(0) \o Col(1),
           T1("sub") \o Col(1) \o Col(0)}
EvStrCrits == {T1("seq") \o SCol(0) \o SLit(2), T1("starts") \o SCol(0) \o SLit(2), T1("starts") \o SCol(0) \o SCol(1),
               T1("sisnull") \o SCol(1), T1("not") \o (T1("ends") \o SCol(0) \o SLit(3))}
EvStrSets == {SLit(1), SLit(4), SLit(10), SCol(1), T1("concat") \o SCol(0) \o SLit(3), T1("concat") \o SCol(1) \o SCol(0)}
EvCrits2 == {T1("true"), T1("eq") \o Col(0) \o Lit(1), T1("lt") \o Col(0) \o Col(1), T1("isnull") \o Col(1)}
EvSetA == {Col(1), T1("add") \o Col(0) \o Col(1), Lit(0), T1("sub") \o Col(1) \o Lit(1)}
EvSetB == {Col(0), T1("add") \o Col(0) \o Lit(1), T1("mul") \o Col(0) \o Col(1), Lit(NULL)}
\* the C43 family: every criterion as DELETE, the statement grid as UPDATE (one column, two columns, string column)
EvStatements(L) == Un({"del"}, EvAtomsInt(L) \cup EvAtomsStr(L) \cup EvBool1(L) \cup EvBool2(L))
                   \cup Bin({"upd"}, EvCrits, EvSets) \cup Bin({"upd"}, {T1("true"), T1("notnull") \o Col(0)}, EvSetInt(L))
                   \cup Bin({"upds"}, EvStrCrits, EvStrSets)
                   \cup Ter({"upda", "updb"}, EvCrits2, EvSetA, EvSetB)

\* ---- C01: trees of depth <= 2 per operator family, depth 3 sampled.  Level 0 keeps the depth-2 layer to nested shapes over three
\* leaves (what decides a grouping is the pair of operators and the side, not the leaves); Level 1 is the full product.
Leaf01 == {Col(0), Col(1), Lit(2), Lit(-1)}
ArK == {"add", "sub", "mul", "idiv", "mod"}
XK == {"xsub", "xmul", "xadd"}
ArL == {Col(0), Col(1), Lit(2)}
Ar1 == Bin(ArK, Leaf01, Leaf01) \cup Un({"neg"}, Leaf01)
Ar1S == Bin(ArK, ArL, ArL) \cup Un({"neg"}, {Col(0), Lit(-1), Lit(2)})
ArD1S == ArL \cup Ar1S
Arith2(L) == LET O == IF L = 0 THEN {Col(1), Lit(2)} ELSE ArL IN       \* the leaf beside a nested node
             Ar1 \cup Un({"neg"}, Ar1S) \cup Bin(ArK, Ar1S, O) \cup Bin(ArK, O, Ar1S)
             \cup {T1(o) \o (T1(p) \o Col(0) \o Col(1)) \o (T1(q) \o Lit(2) \o Col(0)) : o \in ArK, p \in ArK, q \in ArK}
             \cup Bin(XK, Ar1S, {Col(1)}) \cup Bin(XK, {Col(0)}, Ar1S)
             \cup Bin(ArK, Bin(XK, {Col(0)}, {Col(1)}), {Lit(2)}) \cup Bin(ArK, {Lit(2)}, Bin(XK, {Col(0)}, {Col(1)}))
             \cup (IF L = 0 THEN {} ELSE Bin(ArK, Ar1S, Ar1S) \cup Bin(XK, ArD1S, ArL) \cup Bin(XK, ArL, ArD1S))
Cmp0 == Bin(CmpK, {Col(0)}, {Col(1), Lit(1)}) \cup Un({"isnull", "notnull"}, {Col(0), Col(1)}) \cup {T1("true"), T1("false")}
           \cup Ter({"between", "nbetween"}, {Col(0)}, {Lit(-1), Col(1)}, {Lit(1)})
           \cup InOf({"in", "notin"}, {Col(0)}, {<<>>, <<1, NULL>>, <<0, 2>>})
BoolK == {"and", "or"}
BoolB == {T1("eq") \o Col(0) \o Lit(1), T1("lt") \o Col(0) \o Col(1), T1("isnull") \o Col(1), T1("true"),
          T1("between") \o Col(0) \o Lit(-1) \o Lit(1), <<Tok("in", 2)>> \o Col(0) \o Lit(1) \o Lit(NULL)}
BoolB1 == BoolB \cup Bin(BoolK, BoolB, BoolB) \cup Un({"not"}, BoolB)
BoolB4 == {T1("eq") \o Col(0) \o Lit(1), T1("lt") \o Col(0) \o Col(1), T1("isnull") \o Col(1), T1("true")}
BoolB41 == BoolB4 \cup Bin(BoolK, BoolB4, BoolB4) \cup Un({"not"}, BoolB4)
Bool2(L) == LET N1 == IF L = 0 THEN BoolB41 ELSE BoolB1 IN
            Un({"not"}, Cmp0) \cup Bin(BoolK, Cmp0, BoolB) \cup Bin(BoolK, BoolB, Cmp0)
            \cup Bin(BoolK, N1, BoolB) \cup Bin(BoolK, BoolB, N1) \cup Un({"not"}, BoolB1)
            \cup (IF L = 0 THEN {} ELSE Bin(BoolK, Cmp0, Cmp0) \cup Bin(BoolK, BoolB1, BoolB1))
\* comparisons / predicates over arithmetic, arithmetic over predicates (booleans are integers on SQLite), CASE, CAST, scalar subquery
CaseLt == Ter({"case"}, {T1("lt") \o Col(0) \o Col(1)}, {Col(0)}, {Col(1)})
Mixed2(L) == LET A1 == IF L = 0 THEN Bin(ArK, {Col(0)}, {Col(1), Lit(2)}) \cup {T1("neg") \o Col(0)} ELSE Ar1S IN
          Bin(CmpK, A1, ArL) \cup Bin({"eq", "lt"}, ArL, A1)
          \cup Ter({"between", "nbetween"}, A1, {Lit(-1)}, {Col(1)}) \cup Ter({"between"}, {Col(0)}, A1, {Lit(2)}) \cup Ter({"between"}, {Col(0)}, {Lit(-1)}, A1)
          \cup Un({"isnull", "notnull"}, A1)
          \cup InOf({"in", "notin"}, A1, {<<>>, <<1, NULL>>})
          \cup Bin(ArK, BoolB, ArL) \cup Bin({"add", "sub", "mul"}, ArL, BoolB) \cup Un({"neg"}, BoolB)
          \cup Bin(CmpK, BoolB, {Lit(1), Col(1)}) \cup Bin({"eq", "ne", "lt"}, {Col(1)}, BoolB)
          \cup Un({"cast", "subq"}, ArD1S \cup BoolB) \cup Bin(ArK, Un({"cast", "subq"}, A1), ArL) \cup Bin(ArK, ArL, Un({"cast", "subq"}, A1))
          \cup Ter({"case"}, BoolB, A1 \cup ArL, {Lit(0), T1("neg") \o Col(1)}) \cup Bin(ArK, Ter({"case"}, BoolB, {Col(0)}, {Col(1)}), ArL)
          \cup Bin(ArK, ArL, CaseLt) \cup Bin(CmpK, CaseLt, ArL)
          \cup Un({"not"}, Bin(CmpK, A1, {Col(1)})) \cup Un({"not"}, Un({"not"}, BoolB)) \cup Un({"not"}, Un({"cast", "subq"}, BoolB))
SLeaf01(L) == IF L = 0 THEN {SCol(0), SCol(1), SLit(6)} ELSE {SCol(0), SCol(1), SLit(2), SLit(3), SLit(6), SLit(7), SLit(10)}
SVal1(L) == Bin({"concat"}, SLeaf01(L), SLeaf01(L))
SValD1(L) == SLeaf01(L) \cup SVal1(L)
SPred0 == Bin({"like", "nlike", "seq", "sne", "starts", "ends", "contains"}, {SCol(0)}, {SCol(1), SLit(6), SLit(8)}) \cup Un({"sisnull", "snotnull"}, {SCol(0)})
Str2(L) == Bin({"concat"}, SValD1(L), SValD1(L))
        \cup Bin({"like", "nlike", "seq", "sne"}, SValD1(L), SLeaf01(L)) \cup Bin({"like", "seq"}, SLeaf01(L), SVal1(L))
        \cup Bin({"starts", "ends", "contains"}, SValD1(L), SLeaf01(L)) \cup Bin({"starts", "ends", "contains"}, {SCol(0)}, SVal1(L))
        \cup Un({"sisnull", "snotnull"}, SValD1(L))
        \cup Un({"not"}, SPred0) \cup Bin(BoolK, SPred0, SPred0) \cup Un({"not"}, Bin(BoolK, SPred0, {T1("seq") \o SCol(0) \o SLit(2)}))
\* (the large sets take the level as a parameter so that TLC does not materialise all of them at start-up as constants)
\* depth 3, sampled: binary/unary/ternary nodes over random subsets of the depth-2 sets (TLC -seed = the check's seed)
Rand3(L) == LET A == RandomSubset(SampleN, Arith2(L)) C == RandomSubset(SampleN, Arith2(L))
             P == RandomSubset(SampleN, Bool2(L)) Q == RandomSubset(SampleN, Bool2(L))
             M == RandomSubset(SampleN, Mixed2(L))
         IN Bin(ArK, A, C) \cup Bin(CmpK, A, C) \cup Un({"neg", "cast", "subq"}, A \cup M) \cup Bin(BoolK, P, Q) \cup Un({"not"}, P \cup Q)
            \cup Bin(ArK, A, M) \cup Bin(ArK, M, C) \cup Ter({"case"}, P, A, C) \cup Ter({"between", "nbetween"}, A, C, M)

FamilyEx ==
  CASE Family = "in_scalar" -> InScalar(Level)
    [] Family = "in_tuple" -> InTuple(Level)
    [] Family = "in_expr" -> InExpr(Level)
    [] Family = "ev_atoms_int" -> EvAtomsInt(Level)
    [] Family = "ev_atoms_str" -> EvAtomsStr(Level)
    [] Family = "ev_bool" -> EvBool1(Level) \cup EvBool2(Level)
    [] Family = "ev_set" -> EvSetInt(Level)
    [] Family = "ev_stmt" -> Bin({"upd"}, EvCrits, EvSets) \cup Un({"del"}, EvCrits)
    [] Family = "arith2" -> Arith2(Level)
    [] Family = "bool2" -> Bool2(Level)
    [] Family = "mixed2" -> Mixed2(Level)
    [] Family = "str2" -> Str2(Level)
    [] Family = "rand3" -> Rand3(Level)
    [] Family = "c07" -> InScalar(Level) \cup InTuple(Level) \cup InExpr(Level)
    [] Family = "c43" -> EvStatements(Level)
    [] Family = "c01" -> Arith2(Level) \cup Bool2(Level) \cup Mixed2(Level) \cup Str2(Level) \cup Rand3(Level)
\* an expression over the string columns is evaluated on the rows that vary (s, u), any other on the rows that vary (a, b)
IsStr(ex) == \E p \in 1..Len(ex) : ex[p].k \in {"scol", "slit"}
RowsOf(ex) == IF IsStr(ex) THEN StrRows ELSE IntRows

VARIABLES e, x, sub
vars == <<e, x, sub>>
Lo == RowsOf(e)[1]
Hi == RowsOf(e)[2]
RowIdx == Lo..Hi
ValVec(ex) == LET r == RowsOf(ex) IN [i \in 1..(r[2] - r[1] + 1) |-> Val(ex, AllRows[r[1] + i - 1])]
SubVec(ex) == LET r == RowsOf(ex) IN [i \in 1..(r[2] - r[1] + 1) |-> AllVals(ex, AllRows[r[1] + i - 1])]
Init == /\ e \in FamilyEx
        /\ x = ValVec(e)
        /\ sub = IF EmitSub THEN SubVec(e) ELSE <<>>
        /\ PrintT(ToJson([e |-> e, lo |-> Lo, x |-> x, sub |-> sub]))
Next == UNCHANGED vars
\* the table contents come from the specification too (printed once)
ASSUME PrintT(ToJson([rows |-> AllRows, strlits |-> StrLits, family |-> Family]))

\* ------------------------------------------------------------------ theorems over the value domain (checked at start-up)
V3 == {0, 1, NULL}
IV == (-4..4) \cup {NULL}
ASSUME KleeneLaws ==
  /\ \A a, b \in V3 : And3(a, b) = And3(b, a) /\ Or3(a, b) = Or3(b, a)
  /\ \A a, b, c \in V3 : And3(And3(a, b), c) = And3(a, And3(b, c)) /\ Or3(Or3(a, b), c) = Or3(a, Or3(b, c))   \* AND / OR may be flattened
  /\ \A a, b \in V3 : Not3(And3(a, b)) = Or3(Not3(a), Not3(b)) /\ Not3(Or3(a, b)) = And3(Not3(a), Not3(b))     \* De Morgan
  /\ \A a \in V3 : Not3(Not3(a)) = a
  /\ \A a \in V3 : And3(1, a) = a /\ And3(0, a) = 0 /\ Or3(0, a) = a /\ Or3(1, a) = 1      \* TRUE / FALSE operands may be simplified away
  /\ And3(NULL, 0) = 0 /\ And3(0, NULL) = 0 /\ Or3(NULL, 1) = 1 /\ Or3(1, NULL) = 1 /\ And3(NULL, 1) = NULL /\ Or3(NULL, 0) = NULL
ASSUME NegationRewritingSound ==       \* every operator -> negated operator substitution the expression language performs
  /\ \A a, b \in IV : /\ Not3(Eq3(a, b)) = Ne3(a, b) /\ Not3(Ne3(a, b)) = Eq3(a, b)
                      /\ Not3(Lt3(a, b)) = Ge3(a, b) /\ Not3(Ge3(a, b)) = Lt3(a, b)
                      /\ Not3(Gt3(a, b)) = Le3(a, b) /\ Not3(Le3(a, b)) = Gt3(a, b)
  /\ \A a \in IV : Not3(B(a = NULL)) = B(a # NULL)
  /\ \A a, b \in IV : Eq3(a, b) = Eq3(b, a) /\ Ne3(a, b) = Ne3(b, a)            \* = and != may have their operands swapped (mssql does)
ASSUME Associativity ==
  /\ \A a, b, c \in IV : Add3(Add3(a, b), c) = Add3(a, Add3(b, c)) /\ Mul3(Mul3(a, b), c) = Mul3(a, Mul3(b, c))    \* flattened by the library
  /\ \E a, b, c \in -2..2 : Sub3(Sub3(a, b), c) # Sub3(a, Sub3(b, c))                                               \* must never be flattened
  /\ \E a, b, c \in -2..2 : IDiv3(IDiv3(a, b), c) # IDiv3(a, IDiv3(b, c))
  /\ \E a, b, c \in -2..2 : Mod3(Mod3(a, b), c) # Mod3(a, Mod3(b, c))
  /\ \E a, b, c \in -2..2 : Mul3(IDiv3(a, b), c) # IDiv3(a, Mul3(b, c)) /\ Mul3(a, IDiv3(b, c)) # IDiv3(Mul3(a, b), c)
  /\ \E a, b, c \in -2..2 : Sub3(a, Add3(b, c)) # Add3(Sub3(a, b), c)
  /\ \A s, t, u \in {<<>>, <<"a">>, <<"a", "b">>, SNULL} : Concat3(Concat3(s, t), u) = Concat3(s, Concat3(t, u))
ASSUME DivisionIdentity ==             \* a = b * (a / b) + (a % b), |a % b| < |b|, remainder has the sign of the dividend
  \A a \in -8..8 : \A b \in (-8..8) \ {0} :
     /\ a = b * TruncDiv(a, b) + SqlMod(a, b) /\ Abs(SqlMod(a, b)) < Abs(b)
     /\ (SqlMod(a, b) = 0 \/ (SqlMod(a, b) < 0) = (a < 0))
ASSUME TrueDivisionCompare ==          \* QCmp agrees with cross-multiplication on exact quotients
  \A a \in -4..4 : \A b \in {-2, -1, 1, 2} : \A c \in -4..4 :
     (SqlMod(a, b) = 0) => /\ QCmp("qeq", a, b, c) = Eq3(TruncDiv(a, b), c) /\ QCmp("qlt", a, b, c) = Lt3(TruncDiv(a, b), c)
                    /\ QCmp("qge", a, b, c) = Ge3(TruncDiv(a, b), c)
ASSUME LikeSanity ==
  LET S == {<<>>, <<"a">>, <<"b">>, <<"a", "b">>, <<"b", "a">>, <<"a", "a">>} IN
  \A t, p \in S : /\ Like(p, t) = (p = t)                                                   \* no wildcard: equality
                  /\ Like(p \o <<"%">>, t) = (Len(p) <= Len(t) /\ SubSeq(t, 1, Len(p)) = p)   \* prefix
                  /\ Like(<<"%">> \o p, t) = (Len(p) <= Len(t) /\ SubSeq(t, Len(t) - Len(p) + 1, Len(t)) = p)
                  /\ Like(<<"_">> \o p, t) = (Len(t) = Len(p) + 1 /\ Tail(t) = p)

\* ------------------------------------------------------------------ theorems about the enumerated expression (invariants)
TypeOK == WellFormed(e) /\ Len(x) = Hi - Lo + 1
R(i) == AllRows[i]
Vals(ex, i, n) == [j \in 1..n |-> Val(Opnd(ex, j), R(i))]
\* IN, declaratively (SQL standard 8.4): TRUE if some equality is TRUE, FALSE if all are FALSE (incl. empty list), else NULL
InDecl(v, items) == IF \E j \in 1..Len(items) : Eq3(v, items[j]) = 1 THEN 1
                    ELSE IF \A j \in 1..Len(items) : Eq3(v, items[j]) = 0 THEN 0 ELSE NULL
InIsOrOfEqualities ==
  Head(e).k \in {"in", "notin"} =>
    \A i \in RowIdx : LET w == Vals(e, i, 1 + Head(e).v) d == InDecl(w[1], Tail(w)) IN
       Val(e, R(i)) = IF Head(e).k = "in" THEN d ELSE Not3(d)
NotInIsNotOfIn ==
  /\ Head(e).k = "notin" => \A i \in RowIdx : Val(e, R(i)) = Not3(Val(<<Tok("in", Head(e).v)>> \o Tail(e), R(i)))
  /\ Head(e).k = "tnotin" => \A i \in RowIdx : Val(e, R(i)) = Not3(Val(<<Tok("tin", Head(e).v)>> \o Tail(e), R(i)))
\* row-value equality: TRUE iff every component is TRUE, FALSE iff some component is FALSE
TupEqDecl(a1, a2, b1, b2) == IF Eq3(a1, b1) = 1 /\ Eq3(a2, b2) = 1 THEN 1 ELSE IF Eq3(a1, b1) = 0 \/ Eq3(a2, b2) = 0 THEN 0 ELSE NULL
TupleInIsOrOfRowEqualities ==
  Head(e).k \in {"tin", "tnotin"} =>
    \A i \in RowIdx : LET n == Head(e).v
                          w == Vals(e, i, 2 + 2 * n)
                          q == [j \in 1..n |-> TupEqDecl(w[1], w[2], w[2 * j + 1], w[2 * j + 2])]
                          d == IF \E j \in 1..n : q[j] = 1 THEN 1 ELSE IF \A j \in 1..n : q[j] = 0 THEN 0 ELSE NULL
                      IN Val(e, R(i)) = IF Head(e).k = "tin" THEN d ELSE Not3(d)
BetweenIsRange ==
  Head(e).k \in {"between", "nbetween"} =>
    \A i \in RowIdx : LET w == Vals(e, i, 3) v == w[1] lo == w[2] hi == w[3]
                          d == IF v # NULL /\ lo # NULL /\ hi # NULL /\ lo <= v /\ v <= hi THEN 1
                               ELSE IF (v # NULL /\ lo # NULL /\ v < lo) \/ (v # NULL /\ hi # NULL /\ v > hi) THEN 0 ELSE NULL
                      IN Val(e, R(i)) = IF Head(e).k = "between" THEN d ELSE Not3(d)
DeMorganOnTrees ==
  (Head(e).k = "not" /\ Len(e) > 1 /\ e[2].k \in {"and", "or"}) =>
    \A i \in RowIdx : LET inner == Tail(e)
                          p == Val(Opnd(inner, 1), R(i)) q == Val(Opnd(inner, 2), R(i))
                      IN Val(e, R(i)) = IF e[2].k = "and" THEN Or3(Not3(p), Not3(q)) ELSE And3(Not3(p), Not3(q))
\* NOT over a comparison = the comparison with the negated operator (what the library renders)
NegatedK(k) == CASE k = "eq" -> "ne" [] k = "ne" -> "eq" [] k = "lt" -> "ge" [] k = "ge" -> "lt" [] k = "gt" -> "le" [] k = "le" -> "gt"
                 [] k = "isnull" -> "notnull" [] k = "notnull" -> "isnull" [] k = "between" -> "nbetween" [] k = "nbetween" -> "between"
                 [] k = "in" -> "notin" [] k = "notin" -> "in" [] k = "tin" -> "tnotin" [] k = "tnotin" -> "tin"
                 [] k = "like" -> "nlike" [] k = "nlike" -> "like" [] k = "seq" -> "sne" [] k = "sne" -> "seq"
                 [] k = "sisnull" -> "snotnull" [] k = "snotnull" -> "sisnull" [] k = "true" -> "false" [] k = "false" -> "true"
                 [] OTHER -> "none"
NegationRewritingOnTrees ==
  (Head(e).k = "not" /\ Len(e) > 1 /\ NegatedK(e[2].k) # "none") =>
    \A i \in RowIdx : Val(e, R(i)) = Val(<<Tok(NegatedK(e[2].k), e[2].v)>> \o Tail(Tail(e)), R(i))
CaseIsChoice ==
  Head(e).k = "case" => \A i \in RowIdx : LET w == Vals(e, i, 3) IN
     Val(e, R(i)) = IF w[1] = 1 THEN w[2] ELSE w[3]         \* NULL and FALSE conditions both take ELSE
BooleanValued ==      \* predicates never leave {0, 1, NULL}
  Head(e).k \in (CmpK \cup {"and", "or", "not", "in", "notin", "tin", "tnotin", "between", "nbetween", "isnull", "notnull",
                           "like", "nlike", "seq", "sne", "starts", "ends", "contains", "sisnull", "snotnull", "true", "false", "del",
                           "qeq", "qne", "qlt", "qle", "qgt", "qge"})
     => \A j \in 1..Len(x) : x[j] \in V3
IsNullNeverNull == Head(e).k \in {"isnull", "notnull", "sisnull", "snotnull", "del"} => \A j \in 1..Len(x) : x[j] \in {0, 1}
\* the statement tokens: UPDATE keeps every row the criterion does not select (NULL counts as not selected)
UpdateFrame ==
  /\ Head(e).k \in {"upd", "upds", "upda", "updb"} =>
       \A i \in RowIdx : LET c == Val(Opnd(e, 1), R(i))
                             col == CASE Head(e).k = "upd" -> 1 [] Head(e).k = "upds" -> 3 [] Head(e).k = "upda" -> 1 [] OTHER -> 2
                             src == IF Head(e).k = "updb" THEN 3 ELSE 2
                         IN /\ (c # 1 => Val(e, R(i)) = R(i)[col])                     \* rows not selected (FALSE or NULL) keep their value
                            /\ (c = 1 => Val(e, R(i)) = Val(Opnd(e, src), R(i)))       \* selected rows get the SET expression on the OLD row
  /\ Head(e).k = "del" => \A i \in RowIdx : (Val(e, R(i)) = 1) = (Val(Opnd(e, 1), R(i)) = 1)
Theorems == /\ TypeOK /\ InIsOrOfEqualities /\ NotInIsNotOfIn /\ TupleInIsOrOfRowEqualities /\ BetweenIsRange /\ DeMorganOnTrees
            /\ NegationRewritingOnTrees /\ CaseIsChoice /\ BooleanValued /\ IsNullNeverNull /\ UpdateFrame
=============================================================================
