---------------------------- MODULE InsertMany ----------------------------
(* C12: bulk INSERT .. RETURNING returns one row per parameter set, in parameter order.

   One behaviour = one Connection.execute(insert(t)[.returning(.., sort_by_parameter_order=sort)], [p1 .. pn]).
   Fixed per behaviour (chosen in Init): n (number of parameter sets), page (insertmanyvalues_page_size), style
   (how a row can be recognised), sort (sort_by_parameter_order), ret (RETURNING requested at all).

   Two layers.
   * DATABASE (the adversary): an INSERT statement with k VALUES tuples stores the k rows - server-generated keys are
     handed out in VALUES order, the only thing the "implicit sentinel" dialect flag assumes - and then hands the k
     RETURNING rows back in ANY order: action Fetch chooses a permutation.  SQLite never does that; PostgreSQL may.
   * MECHANISM (engine/default.py _deliver_insertmanyvalues_batches + sql/compiler.py _deliver_insertmanyvalues_batches):
     cut the parameter list into pages (page size 1 = "downgraded, row at a time" when ordering is requested and the
     statement has no usable sentinel), remember the client-side sentinel values of every page in parameter order,
     and after each page's fetchall() either  (a) look every remembered sentinel up in the returned rows (client-side
     sentinel: Python default on the primary key, composite primary key, explicit insert_sentinel() counter),
     (b) sort the page's rows on the server-generated key (implicit sentinel), or (c) take the rows as they come.
   The ABSTRACT property (InOrder, ExactlyOnce, PkBelongs, OneRowPerSet) never mentions pages or sentinels.

   styles:  "auto"      Integer autoincrement primary key, dialect has no implicit-sentinel support (SQLite as shipped)
            "implicit"  the same table, dialect flag insertmanyvalues_implicit_sentinel = AUTOINCREMENT (MariaDB-like)
            "counter"   the same again, dialect flags AUTOINCREMENT | USE_INSERT_FROM_SELECT (PostgreSQL / SQL Server form:
                        INSERT .. SELECT .. FROM (VALUES (.., 0), (.., 1) ..) ORDER BY sen_counter guarantees the VALUES-order
                        hand-out of keys that "implicit" merely assumes); for the mechanism the two are the same
            "uuid"      client-side Python default on a Uuid primary key (keys are NOT monotonic in parameter order)
            "composite" two-column primary key, both client-side defaults; neither column alone identifies the row
            "explicit"  autoincrement primary key + insert_sentinel() column (client-side counter 0..n-1)
            "none"      primary key from a non-monotonic server default, nothing to recognise a row by *)
EXTENDS Integers, Sequences, FiniteSets, TLC, Json
CONSTANTS MaxN, MaxPage, Styles, Sorts, Rets,
          Caps      \* dialect.insertmanyvalues_max_parameters expressed as the number of rows it allows per statement (0 = no limit)
VARIABLES st, last
vars == <<st, last>>

Range(s) == {s[i] : i \in 1..Len(s)}
Perms(k) == {p \in [1..k -> 1..k] : \A i, j \in 1..k : i # j => p[i] # p[j]}
Min(a, b) == IF a < b THEN a ELSE b

\* ---------------------------------------------------------------- keys
\* client-side primary key of the i-th parameter set: injective, not monotonic (i < 11)
ClientKey(i) == (i * 5) % 11
\* composite (a, b) encoded as a * 100 + b: a alternates, b repeats pairwise - only the pair is unique
CompKey(i) == (i % 2) * 100 + ((i + 1) \div 2)
\* server-generated keys: autoincrement counts up in VALUES order; the "none" style's server default counts DOWN
ServerKey(style, seq) == IF style = "none" THEN 50 - seq ELSE seq
ClientPk(style) == style \in {"uuid", "composite"}
PkOf(style, i, seq) == IF style = "uuid" THEN ClientKey(i) ELSE IF style = "composite" THEN CompKey(i) ELSE ServerKey(style, seq)
\* does the compiler find sentinel columns for this statement? (sql/compiler.py _get_sentinel_column_for_table + visit_insert)
\* (a list of <= 1 parameter sets is not compiled for executemany: no insertmanyvalues, no sentinel)
HasSentinel(s) == s.n >= 2 /\ s.ret /\ s.sort /\ s.style \in {"implicit", "counter", "uuid", "composite", "explicit"}
\* the value the mechanism remembers for parameter set i (imv_batch.sentinel_values); 0 = nothing remembered
SentinelOf(s, i) == IF ~HasSentinel(s) THEN 0
                    ELSE IF s.style = "uuid" THEN ClientKey(i)
                    ELSE IF s.style = "composite" THEN CompKey(i)
                    ELSE IF s.style = "explicit" THEN i - 1        \* DefaultExecutionContext sentinel_counter
                    ELSE 0                                         \* implicit: recognised by the server key, nothing remembered
\* ---------------------------------------------------------------- mechanism: planning
\* ordinary execute(): a list of one parameter set is not an executemany; an EMPTY list is (deprecated, warns) the same as no
\* parameters at all: one row made of defaults only is inserted  -- named deviation EmptyListIsOneDefaultRow
Single(s) == s.n <= 1
NRows(s) == IF s.n = 0 THEN 1 ELSE s.n
\* executemany without RETURNING on SQLite: one DBAPI cursor.executemany() call with every parameter set
PlainMany(s) == ~Single(s) /\ ~s.ret
\* ordering requested but no sentinel: every parameter set becomes its own statement
Downgraded(s) == ~Single(s) /\ s.ret /\ s.sort /\ ~HasSentinel(s)
\* the page size is further shrunk so that one statement never carries more bound parameters than the dialect allows
Capped(s) == IF s.cap > 0 /\ s.cap < s.page THEN s.cap ELSE s.page
PageSize(s) == IF Single(s) THEN 1 ELSE IF PlainMany(s) THEN s.n ELSE IF Downgraded(s) THEN 1 ELSE Capped(s)

InitSt(n, page, style, sort, ret, cap) ==
  [n |-> n, cap |-> cap, page |-> page, style |-> style, sort |-> sort, ret |-> ret,
   phase |-> "exec", nxt |-> 1,
   batch |-> <<>>,      \* parameter indices of the statement in flight, in VALUES order
   sv |-> <<>>,         \* the sentinel values remembered for them
   rows |-> <<>>,       \* rows of the statement in flight in the order the database stored them
   result |-> <<>>,     \* rows delivered to the caller so far
   table |-> <<>>,      \* every stored row, in storage order
   seq |-> 0]

\* ---------------------------------------------------------------- database
\* row as seen in RETURNING: p = the parameter set it was made from (the row's data column), pk = its primary key,
\* s = the sentinel column as returned (0 when the statement carries none)
RECURSIVE Store(_, _, _)
Store(s, idxs, seq) ==
  IF idxs = <<>> THEN <<>>
  ELSE LET i == Head(idxs)
           pk == PkOf(s.style, IF i = 0 THEN 1 ELSE i, seq + 1)     \* the defaults-only row draws the first client key
           sen == IF ~HasSentinel(s) THEN 0 ELSE IF s.style \in {"implicit", "counter"} THEN pk ELSE SentinelOf(s, i)
       IN <<[p |-> i, pk |-> pk, s |-> sen]>> \o Store(s, Tail(idxs), seq + 1)

\* ---------------------------------------------------------------- mechanism: receiving one page
ByPk(a, b) == a.pk < b.pk
\* rows_by_sentinel[...] lookup in the order of the remembered sentinel values
Match(wire, sv) == [j \in 1..Len(sv) |-> CHOOSE r \in Range(wire) : r.s = sv[j]]
Receive(s, wire) ==
  IF HasSentinel(s)
  THEN IF s.style \in {"implicit", "counter"} THEN SortSeq(wire, ByPk) ELSE Match(wire, s.sv)
  ELSE wire

\* ---------------------------------------------------------------- actions
Exec == /\ st.phase = "exec"
        /\ LET sz == Min(PageSize(st), NRows(st) - st.nxt + 1)
               idxs == IF st.n = 0 THEN <<0>> ELSE [j \in 1..sz |-> st.nxt + j - 1]
               rows == Store(st, idxs, st.seq)
           IN /\ st' = [st EXCEPT !.phase = IF st.ret THEN "fetch" ELSE "done",
                                  !.batch = idxs, !.sv = [j \in 1..Len(idxs) |-> SentinelOf(st, idxs[j])],
                                  !.rows = rows, !.table = @ \o rows, !.seq = @ + Len(idxs),
                                  !.nxt = IF st.ret THEN @ ELSE @ + Len(idxs)]
              /\ last' = [a |-> "Exec", batch |-> idxs, perm |-> <<>>, many |-> PlainMany(st),
                          ret |-> [k \in 1..Len(rows) |-> rows[k].p]]
Fetch == /\ st.phase = "fetch"
         /\ \E perm \in Perms(Len(st.rows)) :
              LET wire == [j \in 1..Len(st.rows) |-> st.rows[perm[j]]]
                  got == Receive(st, wire)
                  nx == st.nxt + Len(st.batch)
              IN /\ st' = [st EXCEPT !.result = @ \o got, !.nxt = nx, !.batch = <<>>, !.sv = <<>>, !.rows = <<>>,
                                     !.phase = IF nx > NRows(st) THEN "done" ELSE "exec"]
                 /\ last' = [a |-> "Fetch", batch |-> st.batch, perm |-> perm, many |-> FALSE,
                             ret |-> [k \in 1..Len(got) |-> got[k].p]]
Init == /\ st \in {InitSt(n, page, style, sort, ret, cap) : n \in 0..MaxN, page \in 1..MaxPage, style \in Styles, sort \in Sorts, ret \in Rets, cap \in Caps}
        /\ (st.cap > 0 => st.cap < st.page)      \* a limit that does not bite is the same behaviour as no limit
        /\ (~st.ret => ~st.sort)            \* sort_by_parameter_order is an argument of returning()
        /\ last = [a |-> "init", batch |-> <<>>, perm |-> <<>>, many |-> FALSE, ret |-> <<>>]
Next == Exec \/ Fetch
Spec == Init /\ [][Next]_vars
View == st
Obs(s) == [table |-> [k \in 1..Len(s.table) |-> <<s.table[k].p, s.table[k].pk>>],
           result |-> [k \in 1..Len(s.result) |-> <<s.result[k].p, s.result[k].pk>>]]
Emit == PrintT(ToJson([from |-> st, act |-> last', to |-> st']))
InitEmit == Init /\ PrintT(ToJson([init |-> st]))

\* ---------------------------------------------------------------- the property (C12), in its own words
Done == st.phase = "done"
Sets == IF st.n = 0 THEN {0} ELSE 1..st.n
\* every parameter set is inserted exactly once (at the end), never twice (always)
ExactlyOnce == /\ \A i \in Sets : Cardinality({k \in 1..Len(st.table) : st.table[k].p = i}) <= 1
               /\ Done => /\ Len(st.table) = Cardinality(Sets)
                          /\ \A i \in Sets : \E k \in 1..Len(st.table) : st.table[k].p = i
\* primary keys are unique (the sentinel lookup's precondition is a consequence, SentinelsUnique)
KeysUnique == \A j, k \in 1..Len(st.table) : j # k => st.table[j].pk # st.table[k].pk
SentinelsUnique == (HasSentinel(st) /\ st.style \notin {"implicit", "counter"}) => \A j, k \in 1..Len(st.sv) : j # k => st.sv[j] # st.sv[k]
\* RETURNING delivers one row per parameter set ...
OneRowPerSet == (Done /\ st.ret) => /\ Len(st.result) = Cardinality(Sets)
                                   /\ \A i \in Sets : \E k \in 1..Len(st.result) : st.result[k].p = i
\* ... and with sort_by_parameter_order the n-th row belongs to the n-th parameter set, at every moment, for every permutation
InOrder == (st.sort /\ st.n > 0) => \A k \in 1..Len(st.result) : st.result[k].p = k
\* the n-th returned row carries the primary key that was stored for the n-th parameter set
PkBelongs == \A k \in 1..Len(st.result) : \E j \in 1..Len(st.table) : st.table[j].p = st.result[k].p /\ st.table[j].pk = st.result[k].pk
\* pages are contiguous, in order, never longer than the page size
PagesOK == /\ Len(st.batch) <= PageSize(st)
           /\ \A j \in 1..Len(st.batch) : (st.n > 0 /\ st.phase = "fetch") => st.batch[j] = st.nxt + j - 1
\* an action property: what is delivered for a page is a rearrangement of what the database returned for THAT page
DeliversPage == [][ last'.a = "Fetch" => /\ Len(last'.ret) = Len(st.rows)
                                          /\ {last'.ret[k] : k \in 1..Len(last'.ret)} = {st.rows[k].p : k \in 1..Len(st.rows)} ]_vars
=============================================================================
