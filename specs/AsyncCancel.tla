---------------------------- MODULE AsyncCancel ----------------------------
(* C29 clause (b): the lifecycle of ONE pooled connection used by ONE asyncio task through AsyncEngine / AsyncConnection /
   AsyncSession, under cancellation at any suspension point (DESIGN 3.7, Appendix L).

   The module is a MECHANISM written as a deterministic event machine, transcribed from a mirror that was diffed against
   real runs (checks/asynccancel_driver.py on the hand-stepped loop with the fake aiosqlite):

     st.todo   the driver calls / pool events / close tasks the library is now obliged to produce, in order
               (the plan of the running program op, or the forced clean-up after a cancellation);
     Step(s,e) = [why, st]: the rules event e has to satisfy in state s (why = names of the violated ones) and the
               successor.  One event = one linearisation point that the harness can observe without touching /repo:
       opstart/opend   the program enters / leaves an op (connect, begin, exec, nested, commit, rollback, close,
                       `async with` entries, "exit" = normal exit of the innermost block, "sleep" = an await that is
                       not the database)
       call/ret        a driver coroutine was entered (= the task now SUSPENDS: one await point) / returned
       drv             the effect reached the database connection (open exec commit rollback close stop)
       pool            connect checkout reset checkin invalidate close detach close_detached (PoolEvents)
       closetask/closedone   a task running AsyncConnection.close / AsyncSession.close / sessionmaker-exit was created /
                       finished (this is what asyncio.shield protects: state "closing(shielded)")
       cancel          Task.cancel() on the program's task (t = "main") or on a close task (t = "close": forbidden)
       ended gc settle the task finished; its variables were dropped + gc.collect(); observation at quiescence

   The same Step function drives
     * the GENERATIVE model below (Next): every program of the grammar (ValidOps) up to MaxOps ops, a cancellation
       (Cancel) at ANY await point - i.e. whenever a driver call is in flight, before or after its effect, while the
       outer task waits on a shielded close, or in a non-database await - then AwaitDone steps (the head of st.todo), ShieldedCloseStep (the same,
       while st.shield # <<>>), GcFairy (event gc + finalizer), and
     * TraceAsyncCancel.tla, which replays recorded runs of the real code through it.

   Property (C29): ReturnsAtMostOnce, NoLeakAtQuiescence (returned or terminated exactly once), PooledClean (no connection
   in the pool with an open transaction), EngineUsable, CancelledBlockNeverCommits, MechanismSound (the mechanism never
   produces an event its own rules forbid).

   Named deviations (the spec follows the code):
     * Legacy = TRUE: a cancellation that lands in the pool's reset-on-return ROLLBACK (pool/base.py _finalize_fairy:
       `except BaseException ... raise` before `connection_record.checkin()`) invalidates the connection but never checks
       the record in; whether the fairy's finalizer returns it later depends on reference cycles (GcLate / never).
       With Legacy = TRUE TLC reports NoLeakAtQuiescence violated (known finding C29-reset-interrupted);
       Legacy = FALSE is the behaviour the property demands and the one traces are validated against.
     * a DBAPI connection that is still being created (pool `connect` event not yet fired) when the cancellation lands is
       ABANDONED: never pooled, never checked out, never closed (st.abandoned).  The property speaks about checked-out and
       pooled connections only; the number of such traces is reported, not judged.
     * creation on a cold engine (dialect.initialize on first connect) is not modelled step by step: item "create". *)
EXTENDS Integers, Sequences, FiniteSets, TLC, Json
CONSTANTS MaxOps, MaxRows, MaxCancels, MaxDepth,
          Legacy,          \* TRUE: interrupted reset loses the record (code as found); FALSE: what the property demands
          Session          \* TRUE: AsyncSession programs are part of the grammar
VARIABLES st, last
vars == <<st, last>>

I(t, a, b) == [t |-> t, a |-> a, b |-> b, n |-> 0]
In(t, a, b, n) == [t |-> t, a |-> a, b |-> b, n |-> n]      \* n: the savepoint a ROLLBACK TO has to name
CallRet(k) == <<I("call", k, ""), I("ret", k, "")>>
Eff(k, op, sql) == <<I("call", k, ""), I("drv", op, sql), I("ret", k, "")>>
ExecPlan(sql) == CallRet("cursor") \o Eff("execute", "exec", sql) \o (IF sql = "INSERT" THEN CallRet("cursorclose") ELSE <<>>)
OuterKinds == {"with_connect", "engine_begin", "with_session", "sm_begin"}
BeginBlocks == {"with_begin", "engine_begin", "s_begin", "sm_begin"}
Openers == OuterKinds \cup {"with_begin", "with_nested", "s_begin"}
CommitOps == {"commit", "s_commit"}
NoFrames == << [n |-> 0, r |-> {}] >>

\* pool at the start: "idle" one clean connection pooled, "idle2" a second untouched one next to it, "empty" initialised engine with
\* an empty pool, "cold" engine that never connected
PoolIds(pool) == CASE pool = "idle" -> {1} [] pool = "idle2" -> {1, 2} [] OTHER -> {}
InitSt(pool, prog, free) ==
  [prog |-> prog, free |-> free, pc |-> 0, op |-> "", stack |-> <<>>, phase |-> "run", exc |-> FALSE, ncancel |-> 0,
   fl |-> "", flid |-> 0, shield |-> <<>>, out |-> 0, rec |-> FALSE, live |-> FALSE, hit |-> FALSE, resetting |-> FALSE,
   txn |-> FALSE, stxn |-> FALSE, sconn |-> FALSE, frames |-> NoFrames, committed |-> {}, nrow |-> 0, spseq |-> 0,
   returns |-> 0, everout |-> FALSE, idle |-> PoolIds(pool), dead |-> 0,
   open |-> PoolIds(pool), nextid |-> CASE pool = "cold" -> 1 [] pool = "idle2" -> 3 [] OTHER -> 2,
   creating |-> 0, fresh |-> 0,
   abandoned |-> {}, todo |-> <<>>, closestarted |-> FALSE, explicit |-> FALSE, kind |-> "none", closed |-> FALSE,
   aborting |-> FALSE, strict |-> pool # "cold", slept |-> FALSE,
   \* ghosts for the property
   pooldirty |-> FALSE, badcommit |-> FALSE, lost |-> FALSE]

Top(s) == s.stack[Len(s.stack)]
InBegin(s) == \E i \in 1..Len(s.stack) : s.stack[i].k \in BeginBlocks
Clean(s) == Len(s.frames) = 1 /\ s.frames[1].r = {}
AllRows(s) == UNION {s.frames[i].r : i \in 1..Len(s.frames)}

\* ------------------------------------------------------------------ plans: what an op obliges the library to do
Acquire(s) == IF s.idle # {} THEN <<I("pool", "checkout", "")>>
              ELSE IF s.strict
                   THEN Eff("connect", "open", "") \o CallRet("function") \o CallRet("function")
                        \o <<I("pool", "connect", ""), I("pool", "checkout", "")>>
                   ELSE <<I("create", "", ""), I("pool", "connect", ""), I("pool", "checkout", "")>>
\* Connection.close(): a live transaction is rolled back first and the pool skips its own reset (transaction_was_reset)
ClosePlan(s, txn) == IF ~s.rec THEN <<>>
                     ELSE IF txn THEN Eff("rollback", "rollback", "") \o <<I("pool", "reset", ""), I("pool", "checkin", "")>>
                     ELSE <<I("pool", "reset", "")>> \o Eff("rollback", "rollback", "") \o <<I("pool", "checkin", "")>>
\* Session: end the transaction, then release the connection (Connection.close() without transaction: reset-on-return)
SessRelease(how) == Eff(how, how, "") \o <<I("pool", "reset", "")>> \o Eff("rollback", "rollback", "") \o <<I("pool", "checkin", "")>>
Shielded(w, body) == <<I("closetask", w, "")>> \o body \o <<I("closedone", w, "")>>
ExitPlan(s) ==
  LET top == Top(s) IN
  CASE top.k = "with_begin" -> IF top.act THEN Eff("commit", "commit", "") ELSE <<>>
    [] top.k = "with_nested" -> IF top.act THEN ExecPlan("RELEASE") ELSE <<>>
    [] top.k = "with_connect" -> Shielded("conn", ClosePlan(s, s.txn))
    [] top.k = "engine_begin" -> (IF top.act THEN Eff("commit", "commit", "") ELSE <<>>)
                                 \o Shielded("conn", ClosePlan(s, IF top.act THEN FALSE ELSE s.txn))
    [] top.k = "s_begin" -> IF s.sconn THEN SessRelease("commit") ELSE <<>>
    [] top.k = "with_session" -> Shielded("sess", IF s.sconn THEN SessRelease("rollback") ELSE <<>>)
    [] top.k = "sm_begin" -> <<I("closetask", "smgo", "")>> \o (IF s.sconn THEN SessRelease("commit") ELSE <<>>)
                             \o <<I("closetask", "sess", ""), I("closedone", "sess", ""), I("closedone", "smgo", "")>>
    [] OTHER -> <<>>
Plan(s, op) ==
  CASE op \in {"connect", "with_connect", "engine_begin"} -> Acquire(s)
    [] op \in {"begin", "with_begin", "with_session", "sm_begin", "s_begin"} -> <<>>
    [] op \in {"nested", "with_nested"} -> ExecPlan("SAVEPOINT")
    [] op = "exec" -> ExecPlan("INSERT")
    [] op = "commit" -> IF s.txn THEN Eff("commit", "commit", "") ELSE <<>>
    [] op = "rollback" -> IF s.txn THEN Eff("rollback", "rollback", "") ELSE <<>>
    [] op = "close" -> ClosePlan(s, s.txn)
    [] op = "s_exec" -> (IF s.sconn THEN <<>> ELSE Acquire(s)) \o ExecPlan("INSERT")
    [] op = "s_commit" -> IF s.sconn THEN SessRelease("commit") ELSE <<>>
    [] op = "s_rollback" -> IF s.sconn THEN SessRelease("rollback") ELSE <<>>
    [] op = "exit" -> ExitPlan(s)
    [] OTHER -> <<>>
\* the exception leaves through the entered blocks; the connection is gone already, the shielded closes find nothing to do
UnwindInvalid(s) ==
  IF s.stack = <<>> THEN <<>>
  ELSE CASE s.stack[1].k \in {"with_connect", "engine_begin"} -> Shielded("conn", <<>>)
         [] s.stack[1].k = "with_session" -> Shielded("sess", <<>>)
         [] s.stack[1].k = "sm_begin" -> <<I("closetask", "smgo", ""), I("closetask", "sess", ""), I("closedone", "sess", ""),
                                            I("closedone", "smgo", "")>>
         [] OTHER -> <<>>
\* the exception leaves through the entered blocks while the connection is alive (the task was suspended in an await that is not
\* a driver call): every block's __aexit__ undoes its own level - ROLLBACK TO for a savepoint block, ROLLBACK for a begin block,
\* the shielded close for the outermost block; a connection obtained with a plain `await engine.connect()` is left to the finalizer
RECURSIVE ConnUnwind(_, _, _)
ConnUnwind(s, i, txn) ==
  IF i = 0 THEN <<>>
  ELSE LET b == s.stack[i] IN
       CASE b.k = "with_nested" -> (IF b.act THEN CallRet("cursor") \o <<I("call", "execute", ""), In("drv", "exec", "ROLLBACK_TO", b.sp), I("ret", "execute", "")>>
                                     ELSE <<>>) \o ConnUnwind(s, i - 1, txn)
         [] b.k = "with_begin" -> (IF b.act THEN Eff("rollback", "rollback", "") ELSE <<>>) \o ConnUnwind(s, i - 1, IF b.act THEN FALSE ELSE txn)
         [] b.k = "with_connect" -> Shielded("conn", ClosePlan(s, txn))
         [] b.k = "engine_begin" -> (IF b.act THEN Eff("rollback", "rollback", "") ELSE <<>>)
                                    \o Shielded("conn", ClosePlan(s, IF b.act THEN FALSE ELSE txn))
         [] OTHER -> ConnUnwind(s, i - 1, txn)
UnwindLive(s) ==
  IF s.stack = <<>> THEN <<>>
  ELSE IF s.kind = "conn" THEN ConnUnwind(s, Len(s.stack), s.txn)
  ELSE LET rel == IF s.sconn THEN SessRelease("rollback") ELSE <<>> IN
       CASE s.stack[1].k = "with_session" -> IF Len(s.stack) = 2 THEN rel \o Shielded("sess", <<>>) ELSE Shielded("sess", rel)
         [] s.stack[1].k = "sm_begin" -> <<I("closetask", "smgo", "")>> \o rel
                                          \o <<I("closetask", "sess", ""), I("closedone", "sess", ""), I("closedone", "smgo", "")>>
         [] OTHER -> <<>>
\* invalidation of the interrupted connection: pool invalidate -> terminate (graceful close under its own shield) -> record back
Invalidation(s) == <<I("pool", "invalidate", ""), I("pool", "close", "")>> \o Eff("close", "close", "")
                   \o (IF s.resetting THEN (IF Legacy THEN <<>> ELSE <<I("pool", "checkin0r", "")>>)
                       ELSE <<I("pool", "checkin0", "")>>)

\* ------------------------------------------------------------------ the grammar of programs (mirrors asynccancel_driver.programs)
ValidOps(s) ==
  IF s.pc = 0 THEN {"connect", "with_connect", "engine_begin"} \cup (IF Session THEN {"with_session", "sm_begin"} ELSE {})
  ELSE IF s.closed THEN {}
  ELSE IF s.kind = "conn" THEN
         (IF s.nrow < MaxRows THEN {"exec"} ELSE {}) \cup {"nested", "with_nested"} \cup (IF ~s.slept THEN {"sleep"} ELSE {})
         \cup (IF ~s.txn THEN {"begin", "with_begin"} ELSE {})
         \cup (IF ~InBegin(s) THEN {"commit", "rollback"} ELSE {})
         \cup (IF s.explicit /\ s.stack = <<>> THEN {"close"} ELSE {})
         \cup (IF s.stack # <<>> THEN {"exit"} ELSE {})
  ELSE (IF s.nrow < MaxRows THEN {"s_exec"} ELSE {}) \cup (IF ~s.slept THEN {"sleep"} ELSE {})
         \cup (IF ~InBegin(s) THEN {"s_commit", "s_rollback"} ELSE {})
         \cup (IF ~s.stxn THEN {"s_begin"} ELSE {})
         \cup (IF s.stack # <<>> THEN {"exit"} ELSE {})

\* ------------------------------------------------------------------ Step
R(w, s) == [why |-> w, st |-> s]
Fail(name, ok) == IF ok THEN {} ELSE {name}
Pop(s) == [s EXCEPT !.todo = Tail(@)]
Deact(s) == [s EXCEPT !.stack = [i \in 1..Len(@) |-> IF @[i].k \in {"with_begin", "with_nested", "engine_begin"}
                                                       THEN [@[i] EXCEPT !.act = FALSE] ELSE @[i]]]
IdOk(s, id) == (s.creating # 0 /\ id = s.creating) \/ (s.creating = 0 /\ id = s.out)

OpStart(s, e) ==
  LET w == Fail("OpStart.task_running", s.phase = "run" /\ ~s.exc)
           \cup Fail("OpStart.previous_op_finished", s.op = "" /\ s.todo = <<>>)
           \cup Fail("OpStart.follows_program", s.free \/ (s.pc < Len(s.prog) /\ s.prog[s.pc + 1] = e.a /\ e.n = s.pc + 1))
           \cup Fail("OpStart.program_in_grammar", e.a \in ValidOps(s))
  IN IF w # {} THEN R(w, s)
     ELSE LET s1 == [s EXCEPT !.op = e.a, !.pc = @ + 1,
                              !.kind = IF s.pc = 0 THEN (IF e.a \in {"with_session", "sm_begin"} THEN "sess" ELSE "conn") ELSE @,
                              !.explicit = IF s.pc = 0 THEN e.a = "connect" ELSE @,
                              !.closestarted = @ \/ e.a = "close" \/ (e.a = "exit" /\ Top(s).k \in OuterKinds)]
          IN R({}, [s1 EXCEPT !.todo = Plan(s, e.a) \o <<I("opend", "", "")>>])

OpEnd(s, e) ==
  LET op == s.op
      s1 == [Pop(s) EXCEPT !.op = ""]
      s2 == CASE op \in {"with_connect", "with_session"} -> [s1 EXCEPT !.stack = Append(@, [k |-> op, act |-> TRUE, sp |-> 0])]
              [] op = "sm_begin" -> [s1 EXCEPT !.stack = Append(@, [k |-> op, act |-> TRUE, sp |-> 0]), !.stxn = TRUE]
              [] op = "engine_begin" -> [s1 EXCEPT !.stack = Append(@, [k |-> op, act |-> TRUE, sp |-> 0]), !.txn = TRUE]
              [] op = "with_begin" -> [s1 EXCEPT !.stack = Append(@, [k |-> op, act |-> TRUE, sp |-> 0]), !.txn = TRUE]
              [] op = "begin" -> [s1 EXCEPT !.txn = TRUE]
              [] op = "with_nested" -> [s1 EXCEPT !.stack = Append(@, [k |-> op, act |-> TRUE, sp |-> s.frames[Len(s.frames)].n])]
              [] op = "s_begin" -> [s1 EXCEPT !.stack = Append(@, [k |-> op, act |-> TRUE, sp |-> 0]), !.stxn = TRUE]
              [] op = "s_exec" -> [s1 EXCEPT !.stxn = TRUE]
              [] op \in {"s_commit", "s_rollback"} -> [s1 EXCEPT !.stxn = FALSE]
              [] op = "close" -> [s1 EXCEPT !.closed = TRUE]
              [] op = "sleep" -> [s1 EXCEPT !.slept = TRUE]
              [] op = "exit" -> [s1 EXCEPT !.stack = SubSeq(@, 1, Len(@) - 1),
                                           !.stxn = IF Top(s).k = "s_begin" THEN FALSE ELSE @,
                                           !.closed = Top(s).k \in OuterKinds]
              [] OTHER -> s1
  IN R({}, s2)

Cancel(s, e) ==
  IF e.a = "close" THEN R({"Cancel.never_reaches_the_shielded_close_task"}, s)
  ELSE LET s0 == [s EXCEPT !.ncancel = @ + 1, !.exc = TRUE,
                           !.todo = SelectSeq(@, LAMBDA t : t.t # "opend")]
       IN IF s.shield # <<>> THEN R({}, s0)                  \* closing(shielded): the outer waiter is cancelled, the close runs on
          ELSE IF s.fl # "" THEN
                 IF (s.creating # 0 /\ s.flid = s.creating) \/ s.fl = "connect"
                 THEN R({}, [s0 EXCEPT !.aborting = TRUE, !.fl = "", !.todo = <<I("aborted", "", "")>> \o UnwindInvalid(s)])
                 ELSE IF s.flid = s.out /\ s.out # 0
                 THEN R({}, [s0 EXCEPT !.hit = TRUE, !.fl = "", !.todo = Invalidation(s) \o UnwindInvalid(s)])
                 ELSE R({"Cancel.in_flight_call_is_on_the_programs_connection"}, s0)
          ELSE IF s.op = "sleep" /\ s0.todo = <<>>
               THEN R({}, [s0 EXCEPT !.todo = UnwindLive(s)])     \* suspended in a non-database await: the connection stays usable
          ELSE \* not started yet, or everything the shielded close had to do is done and the outer waiter has not resumed yet
               R(Fail("Cancel.only_at_a_suspension", (s.pc = 0 /\ s.op = "")
                                                      \/ (s.op = "exit" /\ s0.todo = <<>> /\ Top(s).k \in OuterKinds)), s0)

Ended(s, e) ==
  LET s1 == IF s.aborting /\ s.todo # <<>> /\ Head(s.todo).t = "aborted" THEN Pop(s) ELSE s
      s2 == IF s1.aborting /\ s1.creating # 0 THEN [s1 EXCEPT !.abandoned = @ \cup {s1.creating}, !.creating = 0] ELSE s1
      w == Fail("Ended.mechanism_finished", s2.shield # <<>> \/ \A i \in 1..Len(s2.todo) : s2.todo[i].t = "closedone")
           \cup Fail("Ended.outcome", IF s.ncancel > 0 THEN e.a \in {"cancelled", "timeout"} ELSE e.a = "done")
           \cup Fail("Ended.program_complete", s.ncancel > 0 \/ s.free \/ s.pc = Len(s.prog))
           \cup Fail("Ended.blocks_closed", s.ncancel > 0 \/ (s.stack = <<>> /\ s.op = ""))
           \cup Fail("Ended.connection_returned_unless_never_closed",
                     ~s2.rec \/ (s2.explicit /\ ~s2.closestarted) \/ s2.shield # <<>>)
  IN R(w, [s2 EXCEPT !.phase = "ended"])

Gc(s, e) ==
  LET w == Fail("Gc.after_the_task_ended_and_the_loop_is_idle", s.phase = "ended" /\ s.shield = <<>> /\ s.fl = "")
      s1 == [s EXCEPT !.phase = "gc"]
  IN R(w, IF s.rec /\ s.todo = <<>> /\ s.live
          THEN [s1 EXCEPT !.todo = <<I("pool", "reset", ""), I("pool", "detach", ""), I("pool", "close_detached", ""), I("drv", "stop", "")>>]
          ELSE s1)

Seq2Set(q) == {q[i] : i \in 1..Len(q)}
Settle(s, e) ==
  LET o == e.o
      w == Fail("Settle.mechanism_finished", s.todo = <<>> /\ s.shield = <<>> /\ s.fl = "")
           \cup Fail("Settle.no_leak", ~s.rec /\ o.co = 0)
           \cup Fail("Settle.returned_exactly_once", s.returns = (IF s.everout THEN 1 ELSE 0))
           \cup Fail("Settle.pool_as_expected", Seq2Set(o.idle) \ {0} = s.idle
                                                /\ Cardinality({i \in 1..Len(o.idle) : o.idle[i] = 0}) = s.dead)
           \cup Fail("Settle.ledger_as_expected", Seq2Set(o.open) = s.open)
           \cup Fail("Settle.no_open_transaction_anywhere", o.dirty = <<>> /\ ~o.locked)
           \cup Fail("Settle.rows_are_the_committed_ones", Seq2Set(o.rows) = s.committed)
  IN R(w, [s EXCEPT !.phase = "settled", !.lost = s.rec])
FreshEv(s, e) ==
  R(Fail("Fresh.engine_usable", e.o.ok /\ e.o.init /\ s.phase = "settled") \cup Fail("Fresh.no_leftover_transaction", ~e.o.intx)
    \cup Fail("Fresh.reuses_a_pooled_connection_as_it_is", s.idle = {} \/ e.o.id \in s.idle)
    \cup Fail("Fresh.sees_committed_rows", Seq2Set(e.o.rows) = s.committed), s)
EndEv(s, e) ==
  R(Fail("End.clean", e.o.co = 0 /\ ~e.o.locked /\ Seq2Set(e.o.rows) = s.committed) \cup Fail("End.after_settle", s.phase = "settled"),
    [s EXCEPT !.phase = "end"])

\* ---- effects on the database connection
SpIndex(s, n) == IF \E i \in 2..Len(s.frames) : s.frames[i].n = n THEN CHOOSE i \in 2..Len(s.frames) : s.frames[i].n = n ELSE 0
Effect(s, e) ==
  CASE e.a = "open" -> R(Fail("Open.fresh_connection", e.id \notin s.open), [s EXCEPT !.open = @ \cup {e.id}])
    [] e.a = "exec" /\ e.b = "INSERT" ->
         R(Fail("Exec.insert_belongs_to_the_exec_op", s.op \in {"exec", "s_exec"} /\ e.n = s.nrow + 1),
           [s EXCEPT !.nrow = @ + 1, !.frames[Len(s.frames)].r = @ \cup {e.n}, !.txn = TRUE])
    [] e.a = "exec" /\ e.b = "SAVEPOINT" ->
         R(Fail("Savepoint.belongs_to_a_nested_op", s.op \in {"nested", "with_nested"}),
           [s EXCEPT !.frames = Append(@, [n |-> e.n, r |-> {}]), !.txn = TRUE, !.spseq = e.n])
    [] e.a = "exec" /\ e.b = "RELEASE" ->
         LET i == SpIndex(s, e.n) IN
         IF i = 0 THEN R({"Release.savepoint_exists"}, s)
         ELSE R(Fail("Release.is_the_blocks_savepoint", s.op = "exit" /\ Top(s).k = "with_nested" /\ Top(s).sp = e.n),
                [s EXCEPT !.frames = [SubSeq(s.frames, 1, i - 1) EXCEPT ![i - 1].r = s.frames[i - 1].r \cup UNION {s.frames[j].r : j \in i..Len(s.frames)}]])
    [] e.a = "exec" /\ e.b = "ROLLBACK_TO" ->
         LET i == SpIndex(s, e.n) IN
         IF i = 0 THEN R({"RollbackTo.savepoint_exists"}, s)
         ELSE R(Fail("RollbackTo.only_while_an_exception_leaves_a_savepoint_block", s.exc),
                [s EXCEPT !.frames = [SubSeq(s.frames, 1, i) EXCEPT ![i].r = {}]])
    [] e.a = "exec" -> R({"Exec.statement_class"}, s)
    [] e.a = "commit" ->
         LET due == s.op \in CommitOps \/ (s.op = "exit" /\ s.stack # <<>> /\ Top(s).k \in BeginBlocks) IN
         R(Fail("Commit.only_by_a_commit_or_a_normally_left_begin_block", due),
           Deact([s EXCEPT !.committed = @ \cup AllRows(s), !.frames = NoFrames, !.txn = FALSE, !.badcommit = @ \/ ~due]))
    [] e.a = "rollback" ->
         LET s1 == [s EXCEPT !.frames = NoFrames, !.txn = FALSE] IN R({}, IF s.resetting THEN s1 ELSE Deact(s1))
    [] e.a \in {"close", "stop"} ->
         R(Fail("Close.connection_was_open", e.id \in s.open),
           [s EXCEPT !.open = @ \ {e.id}, !.live = IF e.id = s.out THEN FALSE ELSE @,
                     !.frames = IF e.id = s.out THEN NoFrames ELSE @, !.txn = IF e.id = s.out THEN FALSE ELSE @])
    [] OTHER -> R({"Drv.known_effect"}, s)

PoolEv(s, e) ==
  CASE e.a = "connect" -> R(Fail("PoolConnect.is_the_created_connection", e.id = s.creating /\ e.id \in s.open),
                            [s EXCEPT !.creating = 0, !.fresh = e.id])
    [] e.a = "checkout" ->
         R(Fail("Checkout.exclusive_open_connection", ~s.rec /\ (e.id \in s.idle \/ e.id = s.fresh) /\ e.id \in s.open)
           \cup Fail("Checkout.by_an_acquiring_op", s.op \in {"connect", "with_connect", "engine_begin", "s_exec"}),
           [s EXCEPT !.idle = @ \ {e.id}, !.fresh = 0, !.out = e.id, !.rec = TRUE, !.live = TRUE, !.hit = FALSE, !.returns = 0,
                     !.everout = TRUE, !.sconn = (s.op = "s_exec")])
    [] e.a = "reset" -> R(Fail("Reset.checked_out_connection", s.rec /\ e.id = s.out), [s EXCEPT !.resetting = TRUE])
    [] e.a = "checkin" ->
         LET w == Fail("Checkin.at_most_once", s.rec)
                  \cup (IF e.id # 0
                        THEN Fail("Checkin.live_connection_is_clean_and_was_not_interrupted", s.live /\ ~s.hit /\ Clean(s) /\ e.id = s.out)
                        ELSE Fail("Checkin.without_connection_only_after_close", ~s.live))
         IN R(w, [s EXCEPT !.rec = FALSE, !.returns = @ + 1, !.out = 0, !.resetting = FALSE, !.sconn = FALSE, !.txn = FALSE,
                           !.idle = IF e.id # 0 THEN @ \cup {e.id} ELSE @, !.dead = IF e.id = 0 THEN @ + 1 ELSE @,
                           !.pooldirty = @ \/ (e.id # 0 /\ (~Clean(s) \/ s.hit \/ ~s.live))])
    [] e.a = "invalidate" -> R(Fail("Invalidate.only_after_an_interrupted_driver_call", s.hit /\ e.id = s.out), s)
    [] e.a = "close" -> R(Fail("PoolClose.checked_out_connection", e.id = s.out), s)
    [] e.a = "detach" -> R(Fail("Detach.at_most_once", s.rec) \cup Fail("Detach.only_by_the_finalizer", s.phase = "gc"),
                           [s EXCEPT !.rec = FALSE, !.returns = @ + 1, !.dead = @ + 1])
    [] e.a = "close_detached" -> R(Fail("CloseDetached.only_by_the_finalizer", s.phase = "gc"), s)
    [] OTHER -> R({"Pool.known_event"}, s)

\* events that are steps of the mechanism: they must be the head of st.todo
Expect(h) == "expected_" \o h.t \o "_" \o h.a
Mech(s, e) ==
  IF s.todo = <<>> THEN R({"Mechanism.unexpected_event_" \o e.e}, s)
  ELSE LET h == Head(s.todo) IN
       CASE e.e = "call" ->
              LET w == Fail("Call.expected", h.t = "call" /\ h.a = e.a) \cup Fail("Call.none_in_flight", s.fl = "")
                       \cup Fail("Call.on_the_checked_out_connection",
                                 IF e.a = "connect" THEN e.id = s.nextid /\ s.creating = 0 ELSE IdOk(s, e.id) /\ e.id \notin s.idle)
              IN IF w # {} THEN R(w \cup {Expect(h)}, s)
                 ELSE R({}, [Pop(s) EXCEPT !.fl = e.a, !.flid = e.id,
                                           !.creating = IF e.a = "connect" THEN e.id ELSE @,
                                           !.nextid = IF e.a = "connect" THEN @ + 1 ELSE @])
         [] e.e = "ret" ->
              LET w == Fail("Ret.expected", h.t = "ret" /\ h.a = e.a /\ s.fl = e.a /\ s.flid = e.id)
              IN IF w # {} THEN R(w \cup {Expect(h)}, s) ELSE R({}, [Pop(s) EXCEPT !.fl = ""])
         [] e.e = "drv" ->
              LET w == Fail("Drv.expected", h.t = "drv" /\ h.a = e.a /\ (h.b = "" \/ h.b = e.b) /\ (h.n = 0 \/ h.n = e.n))
                       \cup Fail("Drv.on_the_checked_out_connection", IdOk(s, e.id))
              IN IF w # {} THEN R(w \cup {Expect(h)}, s) ELSE Effect(Pop(s), e)
         [] e.e = "pool" ->
              LET ok == CASE h.t # "pool" -> FALSE
                          [] h.a \in {"checkin0", "checkin0r"} -> e.a = "checkin" /\ e.id = 0
                          [] h.a = "checkin" -> e.a = "checkin" /\ e.id # 0
                          [] OTHER -> h.a = e.a
              IN IF ~ok THEN R({"Pool.expected", Expect(h)}, s) ELSE PoolEv(Pop(s), e)
         [] e.e = "closetask" ->
              IF h.t = "closetask" /\ h.a = e.a THEN R({}, [Pop(s) EXCEPT !.shield = Append(@, e.a)])
              ELSE R({"CloseTask.expected", Expect(h)}, s)
         [] e.e = "closedone" ->
              LET w == Fail("CloseDone.expected", h.t = "closedone" /\ h.a = e.a /\ s.shield # <<>> /\ s.shield[Len(s.shield)] = e.a)
                       \cup Fail("CloseDone.no_swallowed_exception", e.b = "")
              IN IF w # {} THEN R(w \cup {Expect(h)}, s) ELSE R({}, [Pop(s) EXCEPT !.shield = SubSeq(@, 1, Len(@) - 1)])
         [] e.e = "opend" ->
              LET w == Fail("OpEnd.expected", h.t = "opend" /\ e.a = s.op /\ ~s.exc)
              IN IF w # {} THEN R(w \cup {Expect(h)}, s) ELSE OpEnd(s, e)
         [] OTHER -> R({"Event.known_kind"}, s)

\* the unmodelled creation phase (cold engine): anything on the connection being created, until the pool's `connect` event
Creation(s, e) ==
  CASE e.e = "call" /\ e.a = "connect" /\ s.creating = 0 /\ Head(s.todo).t = "create" ->
         R(Fail("Create.fresh_id", e.id = s.nextid), [s EXCEPT !.creating = e.id, !.nextid = @ + 1, !.fl = "connect", !.flid = e.id])
    [] e.e = "call" -> R(Fail("Call.none_in_flight", s.fl = ""), [s EXCEPT !.fl = e.a, !.flid = e.id])
    [] e.e = "ret" -> R(Fail("Ret.matches_call", s.fl = e.a), [s EXCEPT !.fl = ""])
    [] e.a = "open" -> R({}, [s EXCEPT !.open = @ \cup {e.id}])
    [] OTHER -> R(Fail("Create.only_setup_statements", e.a = "rollback" \/ (e.a = "exec" /\ e.b \in {"PRAGMA", "SELECT"})), s)
InCreation(s, e) == /\ s.todo # <<>> /\ Head(s.todo).t \in {"create", "aborted"} /\ ~s.strict
                    /\ e.e \in {"call", "ret", "drv"}
                    /\ ((e.e = "call" /\ e.a = "connect" /\ s.creating = 0 /\ Head(s.todo).t = "create") \/ (s.creating # 0 /\ e.id = s.creating))

Step(s, e) ==
  IF e.e \in {"deliver", "timeout"} THEN R({}, s)
  ELSE IF s.todo # <<>> /\ Head(s.todo) = I("pool", "checkin0r", "") /\ ~(e.e = "pool" /\ e.a = "checkin" /\ e.id = 0)
       THEN R({"Reset.interrupted_reset_still_returns_the_record"}, s)
  ELSE IF e.e = "opstart" THEN OpStart(s, e)
  ELSE IF e.e = "cancel" THEN Cancel(s, e)
  ELSE IF e.e = "ended" THEN Ended(s, e)
  ELSE IF e.e = "gc" THEN Gc(s, e)
  ELSE IF e.e = "settle" THEN Settle(s, e)
  ELSE IF e.e = "fresh" THEN FreshEv(s, e)
  ELSE IF e.e = "end" THEN EndEv(s, e)
  ELSE IF s.phase = "gc" /\ e.e = "pool" /\ e.a = "checkin" /\ e.id = 0 /\ s.rec /\ ~s.live /\ s.todo = <<>>
       THEN \* GcLate: the finalizer returns the record an interrupted checkin left behind (reachable only with Legacy)
            R(Fail("Gc.late_checkin_only_in_legacy", Legacy), [s EXCEPT !.rec = FALSE, !.returns = @ + 1, !.dead = @ + 1, !.out = 0])
  ELSE IF InCreation(s, e) THEN Creation(s, e)
  ELSE IF s.todo # <<>> /\ Head(s.todo).t \in {"create", "aborted"} THEN Mech(Pop(s), e)
  ELSE Mech(s, e)

\* ------------------------------------------------------------------ generative model
Ev(e, a, b, id, n) == [e |-> e, a |-> a, b |-> b, id |-> id, n |-> n]
CallId(s, k) == IF k = "connect" THEN s.nextid ELSE IF s.creating # 0 THEN s.creating ELSE s.out
Inst(s, h) ==
  CASE h.t = "call" -> {Ev("call", h.a, "", CallId(s, h.a), 0)}
    [] h.t = "ret" -> {Ev("ret", h.a, "", s.flid, 0)}
    [] h.t = "drv" -> {Ev("drv", h.a, h.b, IF h.a = "stop" THEN s.out ELSE s.flid,
                          CASE h.n # 0 -> h.n [] h.b = "INSERT" -> s.nrow + 1 [] h.b = "SAVEPOINT" -> s.spseq + 1
                            [] h.b = "RELEASE" -> (IF s.stack # <<>> THEN Top(s).sp ELSE 0) [] OTHER -> 0)}
    [] h.t = "pool" ->
         CASE h.a = "connect" -> {Ev("pool", "connect", "", s.creating, 0)}
           [] h.a = "checkout" -> {Ev("pool", "checkout", "", id, 0) : id \in (IF s.fresh # 0 THEN {s.fresh} ELSE s.idle)}
           [] h.a \in {"checkin0", "checkin0r"} -> {Ev("pool", "checkin", "", 0, 0)}
           [] OTHER -> {Ev("pool", h.a, "", s.out, 0)}
    [] h.t = "closetask" -> {Ev("closetask", h.a, "", 0, 0)}
    [] h.t = "closedone" -> {Ev("closedone", h.a, "", 0, 0)}
    [] h.t = "opend" -> {Ev("opend", s.op, "", 0, s.pc)}
    [] OTHER -> {}
Truth(s) == [co |-> IF s.rec THEN 1 ELSE 0, idle |-> <<>>, open |-> <<>>, dirty |-> <<>>, locked |-> FALSE, rows |-> <<>>]
\* AwaitDone / ShieldedCloseStep / GcFairy's finalizer steps: the next obliged step of the mechanism
MechStep == st.todo # <<>> /\ \E e \in Inst(st, Head(st.todo)) :
              LET r == Step(st, e) IN st' = r.st /\ last' = [e |-> e, why |-> r.why]
StartOp == /\ st.todo = <<>> /\ st.phase = "run" /\ ~st.exc /\ st.op = "" /\ st.pc < MaxOps
           /\ \E op \in ValidOps(st) : LET e == Ev("opstart", op, "", 0, st.pc + 1) r == Step(st, e) IN
                                         st' = r.st /\ last' = [e |-> e, why |-> r.why]
\* Cancel / Timeout: at ANY suspension - a driver call in flight (before or after its effect), the wait for a shielded close
\* task, or before the task ever ran
CanCancel(s) == /\ s.phase = "run" /\ s.ncancel < MaxCancels
                /\ (s.fl # "" \/ s.shield # <<>> \/ (s.pc = 0 /\ s.op = "") \/ (s.op = "sleep" /\ s.todo = <<I("opend", "", "")>>)
                    \/ (s.op = "exit" /\ s.todo = <<I("opend", "", "")>> /\ Top(s).k \in OuterKinds))
CancelAct == CanCancel(st) /\ LET e == Ev("cancel", "main", "", 0, 0) r == Step(st, e) IN
                                st' = r.st /\ last' = [e |-> e, why |-> r.why]
\* the task is over: normally after its last op with every block closed, or once the exception has left every block
CanEnd(s) == /\ s.phase = "run"
             /\ IF s.exc THEN (s.shield # <<>> \/ (s.fl = "" /\ \A i \in 1..Len(s.todo) : s.todo[i].t \in {"closedone", "aborted"}))
                ELSE s.todo = <<>> /\ s.op = "" /\ s.stack = <<>> /\ s.pc > 0 /\ s.fl = ""
EndAct == CanEnd(st) /\ \E how \in (IF st.ncancel > 0 THEN {"cancelled", "timeout"} ELSE {"done"}) :
            LET e == Ev("ended", how, "", 0, 0) r == Step(st, e) IN st' = r.st /\ last' = [e |-> e, why |-> r.why]
GcFairy == /\ st.phase = "ended" /\ st.todo = <<>> /\ st.shield = <<>> /\ st.fl = ""
           /\ LET e == Ev("gc", "", "", 0, 0) r == Step(st, e) IN st' = r.st /\ last' = [e |-> e, why |-> r.why]
\* Legacy only: whether the finalizer still finds the record depends on reference cycles - it may (GcLate) or may not
GcLate == /\ Legacy /\ st.phase = "gc" /\ st.rec /\ ~st.live /\ st.todo = <<>>
          /\ LET e == Ev("pool", "checkin", "", 0, 0) r == Step(st, e) IN st' = r.st /\ last' = [e |-> e, why |-> r.why]
Quiesce == /\ st.phase = "gc" /\ st.todo = <<>>
           /\ st' = [st EXCEPT !.phase = "settled", !.lost = st.rec] /\ last' = [e |-> Ev("settle", "", "", 0, 0), why |-> {}]
Next == MechStep \/ StartOp \/ CancelAct \/ EndAct \/ GcFairy \/ GcLate \/ Quiesce
Init == /\ st \in {InitSt(p, <<>>, TRUE) : p \in {"idle", "empty"}}
        /\ last = [e |-> Ev("new", "", "", 0, 0), why |-> {}]
Spec == Init /\ [][Next]_vars
View == st
Depth == TLCGet("level") <= MaxDepth
\* edge dump (vacuity / coverage figures): one line per labelled edge
Emit == PrintT(ToJson([a |-> last'.e.e, b |-> last'.e.a, op |-> st.op, sh |-> Len(st.shield), fl |-> st.fl, exc |-> st.exc]))

\* ------------------------------------------------------------------ the property
\* the mechanism never produces an event its own rules forbid (rules = the clauses of Step; the trace spec applies the same rules to the code)
MechanismSound == last.why = {}
\* a checked-out connection is returned to the pool or terminated at most once ...
ReturnsAtMostOnce == st.returns <= 1
\* ... and exactly once by the time everything is quiet (no leak)
NoLeakAtQuiescence == st.phase = "settled" => (~st.rec /\ ~st.lost /\ (st.everout => st.returns = 1))
\* no connection sits in the pool with an open transaction (or after having been interrupted in mid-operation)
PooledClean == ~st.pooldirty
\* later operations on the engine work: the pool has its slot back and every pooled connection is usable
EngineUsable == st.phase = "settled" => (~st.rec /\ st.idle \subseteq st.open)
\* rows are published only by a commit op or by leaving a begin-block normally - never by a block that was cancelled
CancelledBlockNeverCommits == ~st.badcommit
CommitNeedsDueOp == [][st'.committed # st.committed =>
                         (last'.e.e = "drv" /\ last'.e.a = "commit"
                          /\ (st.op \in CommitOps \/ (st.op = "exit" /\ st.stack # <<>> /\ Top(st).k \in BeginBlocks)))]_vars
\* a cancellation that arrives while the close runs under asyncio.shield does not interrupt it
ShieldHolds == [][(last'.e.e = "cancel" /\ st.shield # <<>>) => (st'.todo = SelectSeq(st.todo, LAMBDA t : t.t # "opend") /\ ~st'.hit)]_vars
\* an interrupted connection is never handed to anybody again
InterruptedNeverPooled == st.hit => st.out \notin st.idle
TypeOK == st.returns \in 0..2 /\ st.ncancel \in 0..MaxCancels /\ st.nrow \in 0..MaxRows
=============================================================================
