---------------------------- MODULE TraceAsyncCancel ----------------------------
(* Code -> spec for C29 clause (b): event traces recorded from the REAL AsyncEngine / AsyncConnection / AsyncSession
   (checks/asynccancel_driver.py: hand-stepped event loop, deterministic fake aiosqlite over real sqlite3, task.cancel() or
   an asyncio.timeout expiry delivered exactly at the k-th suspension point) are replayed through AsyncCancel!Step.
   ONE TLC run (-workers 1) consumes every trace of the file IOEnv.TRACE_FILE (batch pattern of TraceCatalog):

     trace = [id, prog, pool, k, mode, ev]     prog  the program (sequence of ops), pool in {"idle","idle2","empty","cold"}
     event = [e, a, b, id, n (, o)]            the alphabet of AsyncCancel (o = observation record of settle / fresh / end)

   Step is deterministic, so the chain is: an event whose rules all hold advances the state; the first event that breaks a
   rule prints [rej, at, ev, why, ...] (why = the names of the broken rules) and validation continues with the next trace.
   A trace must reach its final `end` observation.  The state invariants of AsyncCancel are evaluated on every accepted
   state on the way.  Legacy = FALSE in the cfg: traces are judged against the behaviour the property demands. *)
EXTENDS AsyncCancel, IOUtils
Traces == ndJsonDeserialize(IOEnv.TRACE_FILE)      \* one trace per line
NT == Len(Traces)
VARIABLES tid, l, nrej
tvars == <<st, last, tid, l, nrej>>
TView == <<st, tid, l, nrej>>
None == [e |-> Ev("new", "", "", 0, 0), why |-> {}]
Start(k, r) == /\ tid' = k /\ l' = 1 /\ nrej' = r /\ last' = None
               /\ st' = IF k <= NT THEN InitSt(Traces[k].pool, Traces[k].prog, FALSE) ELSE InitSt("idle", <<>>, FALSE)
               /\ TLCSet(1, <<k, 1, r>>)
Brief(s) == [op |-> s.op, pc |-> s.pc, phase |-> s.phase, rec |-> s.rec, hit |-> s.hit, fl |-> s.fl, shield |-> s.shield,
             todo |-> IF s.todo = <<>> THEN "" ELSE Head(s.todo).t \o ":" \o Head(s.todo).a, resetting |-> s.resetting]
Consume == /\ tid <= NT /\ l <= Len(Traces[tid].ev)
           /\ LET e == Traces[tid].ev[l]
                  r == Step(st, e)
              IN IF r.why = {}
                 THEN /\ st' = r.st /\ l' = l + 1 /\ last' = None /\ UNCHANGED <<tid, nrej>>
                      /\ TLCSet(1, <<tid, l + 1, nrej>>)
                 ELSE /\ PrintT(ToJson([rej |-> Traces[tid].id, at |-> l, ev |-> e, why |-> r.why, s |-> Brief(st)]))
                      /\ Start(tid + 1, nrej + 1)
NextTrace == /\ tid <= NT /\ l > Len(Traces[tid].ev)
             /\ IF st.phase = "end" THEN Start(tid + 1, nrej)
                ELSE /\ PrintT(ToJson([rej |-> Traces[tid].id, at |-> l, ev |-> Ev("eof", "", "", 0, 0),
                                       why |-> {"Trace.reaches_the_final_observation"}, s |-> Brief(st)]))
                     /\ Start(tid + 1, nrej + 1)
TInit == /\ tid = 1 /\ l = 1 /\ nrej = 0 /\ last = None
         /\ st = IF NT >= 1 THEN InitSt(Traces[1].pool, Traces[1].prog, FALSE) ELSE InitSt("idle", <<>>, FALSE)
         /\ TLCSet(1, <<1, 1, 0>>)
TNext == Consume \/ NextTrace
\* acceptance: everything consumed (register = NT + 1), number of rejected traces reported
Summary == LET p == TLCGet(1) IN PrintT(ToJson([consumed |-> p[1] - 1, total |-> NT, rejected |-> p[3]]))
=============================================================================
