---------------------------- MODULE Sharding ----------------------------
(* C53: horizontal sharding routes reads and writes per the shard choosers.

   One ShardedSession (ext/horizontal_shard.py; autoflush off) over NS databases, one mapped class T(id, grp, val).  The three
   chooser functions are CONSTANT TABLES of a behaviour (a "profile", picked in Init from the profiles file the check generates):
       sc[g]       shard_chooser:    the shard an object with grp = g is flushed to
       qall        execute_chooser:  the shards (a sequence: results are merged in this order) of an unfiltered SELECT
       qgrp[g]     execute_chooser:  ... of SELECT ... WHERE grp = g
       qget        execute_chooser:  ... of the primary-key SELECT that Session.get() emits when the identity map has no match
       ic[pk]      identity_chooser: the shards whose identity-map entries Session.get(T, pk) consults, in this order
       init[sh]    the data set: rows the databases hold at the start (a generated data set may hold rows in a shard OTHER than
                   sc[g] - data written under an older sharding function; UPDATE / DELETE of such an object must still go to the
                   shard it was loaded from, not to sc[g])
   Objects the program creates are "slots" <<pk, g>> (T(id=pk, grp=g)); once flushed or loaded an object is known by its identity
   key <<pk, tok>> (tok = identity token = shard id).  Rows are [pk, g, v].

   Mechanism layer (what the code does): flush -> connection_callable -> _choose_shard_and_assign: a pending object goes to
   sc[g] and gets that identity token, UPDATE / DELETE go to the token of the object's key; execute_and_instances: an explicit
   shard (set_shard / bind_arguments / set_shard_id option / identity token of a refresh) wins, otherwise one statement per shard
   of execute_chooser, each loaded with identity_token = that shard, results merged in order; _identity_lookup: identity map
   entries <<pk, tok>> for tok in ic[pk], first hit wins, else the SELECT.  The session's transaction spans one connection per
   shard: commit publishes, rollback discards the work of all of them. *)
EXTENDS Integers, Sequences, FiniteSets, TLC, Json, IOUtils
CONSTANTS NS,          \* shards 1..NS
          PKs,         \* primary keys, e.g. {1, 2}
          NG,          \* grp values 1..NG
          MaxDepth,    \* operations per behaviour (CONSTRAINT Depth)
          MaxVal       \* Modify increments val up to this
VARIABLES P, st, last
vars == <<P, st, last>>
Shards == 1..NS
Grps == 1..NG
Profiles == JsonDeserialize(IOEnv.SHARD_PROFILES)
Slots == PKs \X Grps
Row(pk, g, v) == [pk |-> pk, g |-> g, v |-> v]
Empty == [s \in Shards |-> {}]
SetOf(q) == {q[i] : i \in 1..Len(q)}
InitRows(p) == [sh \in Shards |-> SetOf(p.init[sh])]
InitSt(p) ==
          [db |-> InitRows(p), work |-> InitRows(p),      \* committed rows / rows as the session's transaction sees them, per shard
           pend |-> {},                       \* slots added, not flushed
           used |-> {},                       \* slots ever added (an object is added once; slots of the data set are never added)
           im |-> {},                         \* identity keys <<pk, tok>> of the persistent objects in the identity map
           dirty |-> {},                      \* keys with an unflushed val = val + 1
           del |-> {},                        \* keys passed to session.delete(), not flushed
           deleted |-> {},                    \* keys whose DELETE was flushed in the open transaction
           newk |-> {}]                       \* keys INSERTed in the open transaction
R(s, r) == [st |-> s, ret |-> r]
Seq2Set(q) == {q[i] : i \in 1..Len(q)}
RowOf(s, k) == CHOOSE r \in s.work[k[2]] : r.pk = k[1]
HasRow(s, k) == \E r \in s.work[k[2]] : r.pk = k[1]
\* rows of shard sh matching a filter (g = 0: none), ascending primary key, as result entries [pk, tok, g]
RECURSIVE SortPk(_)
SortPk(S) == IF S = {} THEN << >> ELSE LET m == CHOOSE x \in S : \A y \in S : x.pk <= y.pk IN <<m>> \o SortPk(S \ {m})
Matching(s, sh, g) == {r \in s.work[sh] : g = 0 \/ r.g = g}
Entries(s, sh, g) == LET q == SortPk(Matching(s, sh, g)) IN [i \in 1..Len(q) |-> [pk |-> q[i].pk, tok |-> sh, g |-> q[i].g]]
RECURSIVE Merge(_, _, _)
Merge(s, shs, g) == IF shs = << >> THEN << >> ELSE Entries(s, Head(shs), g) \o Merge(s, Tail(shs), g)
Keys(res) == {<<res[i].pk, res[i].tok>> : i \in 1..Len(res)}
Tick(s) == s
\* ---------------------------------------------------------------- operations: st -> [st, ret]
DoAdd(s, o) == R([Tick(s) EXCEPT !.pend = @ \cup {o}, !.used = @ \cup {o}], "ok")
\* flush: INSERT every pending object into the shard shard_chooser names, UPDATE / DELETE in the shard of the identity token
Flushed(s, p) ==
   LET ins == [sh \in Shards |-> {Row(o[1], o[2], 0) : o \in {x \in s.pend : p.sc[x[2]] = sh}}]
       upd(sh) == {k \in s.dirty \ s.del : k[2] = sh}
       gone(sh) == {k \in s.del : k[2] = sh}
       w1 == [sh \in Shards |->
                ({r \in s.work[sh] : <<r.pk, sh>> \notin gone(sh) /\ <<r.pk, sh>> \notin upd(sh)}
                 \cup {Row(r.pk, r.g, r.v + 1) : r \in {x \in s.work[sh] : <<x.pk, sh>> \in upd(sh)}})
                \cup ins[sh]]
       nk == {<<o[1], p.sc[o[2]]>> : o \in s.pend}
   IN [s EXCEPT !.work = w1, !.pend = {}, !.dirty = {}, !.del = {},
                !.im = (@ \cup nk) \ s.del, !.newk = @ \cup nk, !.deleted = @ \cup s.del]
DoFlush(s, p) == R(Flushed(Tick(s), p), "ok")
DoCommit(s, p) == LET f == Flushed(Tick(s), p) IN R([f EXCEPT !.db = f.work, !.newk = {}, !.deleted = {}], "ok")
\* rollback: every shard's connection rolls back; objects inserted in the transaction leave the session, deleted ones return,
\* pending objects are expunged, unflushed changes are forgotten
DoRollback(s) == R([Tick(s) EXCEPT !.work = s.db, !.pend = {}, !.dirty = {}, !.del = {},
                                   !.im = (@ \ s.newk) \cup s.deleted, !.newk = {}, !.deleted = {}], "ok")
DoExpunge(s) == R([Tick(s) EXCEPT !.im = {}], "ok")
DoModify(s, k) == R([Tick(s) EXCEPT !.dirty = @ \cup {k}], "ok")
DoDelete(s, k) == R([Tick(s) EXCEPT !.del = @ \cup {k}], "ok")
\* a SELECT: kind "all" | "grp" (arg = g) | "shard" (arg = sh: set_shard / bind_arguments shard_id / set_shard_id option)
Targets(p, kind, arg) == IF kind = "all" THEN p.qall ELSE IF kind = "grp" THEN p.qgrp[arg] ELSE <<arg>>
DoQuery(s, p, kind, arg) ==
   LET res == Merge(s, Targets(p, kind, arg), IF kind = "grp" THEN arg ELSE 0)
   IN R([Tick(s) EXCEPT !.im = @ \cup Keys(res)], res)
\* Session.get(T, pk): identity map first, per identity_chooser; else the primary key SELECT over execute_chooser's shards
DoGet(s, p, pk) ==
   LET hits == {i \in 1..Len(p.ic[pk]) : <<pk, p.ic[pk][i]>> \in s.im}
       res == LET all == Merge(s, p.qget, 0) IN SelectSeq(all, LAMBDA e : e.pk = pk)
   IN IF hits # {} THEN LET i == CHOOSE x \in hits : \A y \in hits : x <= y
                            k == <<pk, p.ic[pk][i]>>
                        IN R(Tick(s), <<[pk |-> pk, tok |-> k[2], g |-> RowOf(s, k).g]>>)
      ELSE IF Len(res) = 0 THEN R(Tick(s), << >>)
      ELSE IF Len(res) = 1 THEN R([Tick(s) EXCEPT !.im = @ \cup Keys(res)], res)
      ELSE R(Tick(s), "MultipleResultsFound")
\* Session.get(T, pk, identity_token = sh): the caller names the shard.  Only the identity key <<pk, sh>> may answer - the identity
\* chooser is NOT consulted (horizontal_shard._identity_lookup: `if identity_token is not None: return super()._identity_lookup(...)`,
\* a miss is a miss) - and only shard sh is queried (the token travels as load option _identity_token)
EntryOf(s, k) == [pk |-> k[1], tok |-> k[2], g |-> RowOf(s, k).g]
DoGetTok(s, pk, sh) ==
   LET k == <<pk, sh>> IN
   IF k \in s.im THEN R(s, <<EntryOf(s, k)>>)
   ELSE IF HasRow(s, k) THEN R([s EXCEPT !.im = @ \cup {k}], <<EntryOf(s, k)>>)
   ELSE R(s, << >>)
\* Session.get(T, pk, bind_arguments = {"shard_id": sh}) / options = [set_shard_id(sh)]: the identity map pass is still the identity
\* chooser's (it is handed the bind arguments; the table-driven chooser of the profile ignores them), only the SELECT goes to sh
DoGetBind(s, p, pk, sh) ==
   LET hits == {i \in 1..Len(p.ic[pk]) : <<pk, p.ic[pk][i]>> \in s.im}
       k == <<pk, sh>>
   IN IF hits # {} THEN LET i == CHOOSE x \in hits : \A y \in hits : x <= y IN R(s, <<EntryOf(s, <<pk, p.ic[pk][i]>>)>>)
      ELSE IF HasRow(s, k) THEN R([s EXCEPT !.im = @ \cup {k}], <<EntryOf(s, k)>>)
      ELSE R(s, << >>)
\* Session.merge(d): d is a DETACHED copy (loaded by another session, identity key <<pk, sh>>) of a committed row, with val + 1.
\* merge() looks its target up with get(identity_token = sh): the object of THAT shard (loaded now if necessary) takes the
\* attribute values; the edit is an unflushed val + 1 of key <<pk, sh>> and of nothing else
DoMerge(s, k) == R([s EXCEPT !.im = @ \cup {k}, !.dirty = @ \cup {k}], <<EntryOf(s, k)>>)
\* ---------------------------------------------------------------- actions
Step(a, arg1, arg2, res) == st' = res.st /\ last' = [a |-> a, x |-> arg1, y |-> arg2, ret |-> res.ret] /\ UNCHANGED P
Can == TRUE
Depth == TLCGet("level") <= MaxDepth
Clean == st.pend = {} /\ st.dirty = {} /\ st.del = {} /\ st.newk = {} /\ st.deleted = {} /\ st.work = st.db
\* the program never creates a second row with the same primary key in one database (that is IntegrityError, not sharding)
Target(o) == P.sc[o[2]]
Seeded == {<<r.pk, r.g>> : r \in UNION {InitRows(P)[sh] : sh \in Shards}}
MayAdd(o) == /\ o \notin st.used /\ o \notin Seeded
             /\ \A r \in st.work[Target(o)] : r.pk # o[1]
             /\ \A x \in st.pend : ~(x[1] = o[1] /\ Target(x) = Target(o))
             /\ <<o[1], Target(o)>> \notin st.deleted
Add == \E o \in Slots : Can /\ MayAdd(o) /\ Step("Add", o[1], o[2], DoAdd(st, o))
Flush == Can /\ Step("Flush", 0, 0, DoFlush(st, P))
Commit == Can /\ Step("Commit", 0, 0, DoCommit(st, P))
Rollback == Can /\ Step("Rollback", 0, 0, DoRollback(st))
Expunge == Can /\ Clean /\ st.im # {} /\ Step("Expunge", 0, 0, DoExpunge(st))
Live(k) == k \in st.im /\ k \notin st.del
Modify == \E k \in st.im : Can /\ Live(k) /\ k \notin st.dirty /\ RowOf(st, k).v < MaxVal /\ Step("Modify", k[1], k[2], DoModify(st, k))
Delete == \E k \in st.im : Can /\ Live(k) /\ k \notin st.newk /\ Step("Delete", k[1], k[2], DoDelete(st, k))
QueryAll == Can /\ Step("QueryAll", 0, 0, DoQuery(st, P, "all", 0))
QueryGrp == \E g \in Grps : Can /\ Step("QueryGrp", g, 0, DoQuery(st, P, "grp", g))
QueryShard == \E sh \in Shards : Can /\ Step("QueryShard", sh, 0, DoQuery(st, P, "shard", sh))
Get == \E pk \in PKs : Can /\ Step("Get", pk, 0, DoGet(st, P, pk))
GetTok == \E pk \in PKs, sh \in Shards : Can /\ Step("GetTok", pk, sh, DoGetTok(st, pk, sh))
GetBind == \E pk \in PKs, sh \in Shards : Can /\ Step("GetBind", pk, sh, DoGetBind(st, P, pk, sh))
\* a detached copy exists for rows that are committed and untouched by the open transaction
Mergeable(k) == /\ HasRow(st, k) /\ RowOf(st, k) \in st.db[k[2]] /\ RowOf(st, k).v < MaxVal
                /\ k \notin st.dirty /\ k \notin st.del /\ k \notin st.newk
MergeObj == \E pk \in PKs, sh \in Shards : Can /\ Mergeable(<<pk, sh>>) /\ Step("Merge", pk, sh, DoMerge(st, <<pk, sh>>))
Init == /\ P \in Seq2Set(Profiles)
        /\ st = InitSt(P) /\ last = [a |-> "init", x |-> 0, y |-> 0, ret |-> "ok"]
Next == Add \/ Flush \/ Commit \/ Rollback \/ Expunge \/ Modify \/ Delete \/ QueryAll \/ QueryGrp \/ QueryShard \/ Get
        \/ GetTok \/ GetBind \/ MergeObj
Spec == Init /\ [][Next]_vars
View == <<P, st>>
\* what the binding compares after every step: rows per database file (committed: raw sqlite3; uncommitted: the session's own
\* connection of that shard) and every object of the identity map with its token and current attribute values
ObjVal(s, k) == IF HasRow(s, k) THEN RowOf(s, k).v + (IF k \in s.dirty THEN 1 ELSE 0) ELSE 0 - 1
Obs(s) == [db |-> s.db, work |-> s.work,
           objs |-> {[pk |-> k[1], tok |-> k[2], g |-> RowOf(s, k).g, v |-> ObjVal(s, k)] : k \in {x \in s.im : HasRow(s, x)}},
           pend |-> s.pend]
Emit == PrintT(ToJson([from |-> [P |-> P, st |-> st], act |-> last', to |-> [P |-> P, st |-> st'], obs |-> Obs(st')]))
InitEmit == Init /\ PrintT(ToJson([init |-> [P |-> P, st |-> st]]))
\* ---------------------------------------------------------------- properties (C53)
AllRows(w) == UNION {w[sh] : sh \in Shards}
\* "every flushed object is written to the shard its shard chooser selects": each row lives in exactly that database
\* (rows of the initial data set are where the data set put them)
RowsWhereChosen == \A sh \in Shards : \A r \in st.work[sh] \cup st.db[sh] : <<r.pk, r.g>> \in st.used => P.sc[r.g] = sh
RowOnce == \A sh1, sh2 \in Shards : sh1 # sh2 => \A r1 \in st.work[sh1] : \A r2 \in st.work[sh2] : ~(r1.pk = r2.pk /\ r1.g = r2.g)
PkUniquePerShard == \A sh \in Shards : \A r1, r2 \in st.work[sh] : r1.pk = r2.pk => r1 = r2
\* the database changes only by flush / commit / rollback, and commit publishes exactly the flushed work
WritesOnlyByFlush == [][ (st'.work # st.work => last'.a \in {"Flush", "Commit", "Rollback"})
                         /\ (st'.db # st.db => last'.a = "Commit" /\ st'.db = st'.work) ]_vars
\* "queries return the union of the rows from the shards the query chooser selects" (declaratively: as a bag)
IsQuery(a) == a \in {"QueryAll", "QueryGrp", "QueryShard"}
Chosen(a, x) == IF a = "QueryAll" THEN Seq2Set(P.qall) ELSE IF a = "QueryGrp" THEN Seq2Set(P.qgrp[x]) ELSE {x}
Wanted(a, x, sh) == {r \in st.work[sh] : a # "QueryGrp" \/ r.g = x}
QueryIsUnion ==
   [][ IsQuery(last'.a) =>
         LET res == last'.ret  a == last'.a  x == last'.x IN
         /\ \A i \in 1..Len(res) : res[i].tok \in Chosen(a, x) /\ (\E r \in Wanted(a, x, res[i].tok) : r.pk = res[i].pk /\ r.g = res[i].g)
         /\ \A sh \in Chosen(a, x) : \A r \in Wanted(a, x, sh) : Cardinality({i \in 1..Len(res) : res[i].pk = r.pk /\ res[i].tok = sh}) = 1
         /\ Len(res) = Cardinality(UNION {{<<sh, r.pk>> : r \in Wanted(a, x, sh)} : sh \in Chosen(a, x)})
     ]_vars
\* "objects loaded from different shards with the same primary key stay distinct": an identity key carries the shard its row lives in
KeysAreHome == \A k \in st.im : HasRow(st, k)
\* Session.get consults the identity map in identity_chooser order before any database
GetOrder == [][ last'.a \in {"Get", "GetBind"} =>
                 LET pk == last'.x  hit == {i \in 1..Len(P.ic[pk]) : <<pk, P.ic[pk][i]>> \in st.im} IN
                 hit # {} => (Len(last'.ret) = 1 /\ last'.ret[1].tok = P.ic[pk][CHOOSE i \in hit : \A j \in hit : i <= j] /\ st'.im = st.im) ]_vars
\* an object addressed WITH its shard (get(identity_token=), merge() of a detached object) is the object of that shard, never a
\* same-primary-key object of another one; nothing else enters the identity map or becomes dirty
TokenHonoured == [][ last'.a \in {"GetTok", "Merge"} =>
                      LET k == <<last'.x, last'.y>> IN
                      /\ \A i \in 1..Len(last'.ret) : last'.ret[i].pk = k[1] /\ last'.ret[i].tok = k[2]
                      /\ Len(last'.ret) = (IF HasRow(st, k) THEN 1 ELSE 0)
                      /\ st'.im \subseteq st.im \cup {k}
                      /\ st'.dirty = (IF last'.a = "Merge" THEN st.dirty \cup {k} ELSE st.dirty) ]_vars
\* a flush writes every shard only on behalf of objects of that shard: rows that change or disappear in shard sh belong to dirty /
\* deleted keys with token sh, rows that appear are the pending objects shard_chooser sends there (so a merged edit lands in the
\* merged object's own shard and the same-primary-key row of another shard is untouched)
FlushWritesHome ==
   [][ last'.a \in {"Flush", "Commit"} =>
         \A sh \in Shards :
            /\ \A r \in st.work[sh] \ st'.work[sh] : <<r.pk, sh>> \in st.dirty \cup st.del
            /\ \A r \in st'.work[sh] \ st.work[sh] : \/ <<r.pk, sh>> \in st.dirty
                                                      \/ (<<r.pk, r.g>> \in st.pend /\ P.sc[r.g] = sh) ]_vars
=============================================================================
