---------------------------- MODULE Lexers ----------------------------
(* C05 / C06: SQL string literals and delimited identifiers as the BACKEND reads them.

   Strings are sequences of one-character strings.  "~" stands for a non-ASCII letter (the binding maps it to
   U+00E9): TLC's output channel is ASCII.

   One general SQL lexer  Lex(text)  written as an explicit state machine (states out / word / num / str / qid,
   one character consumed per step) parameterised by the backend:
       LexBS       backslash is an escape character inside '...'   (MySQL default, PostgreSQL with
                   standard_conforming_strings=off)
       LexN        N'...' national string literal                   (MSSQL)
       Backend     "sqlite" | "pg" | "mysql" | "mssql" | "oracle"   which of  " ` [  open a delimited identifier
                   and how the closing character is escaped inside
   and the two RENDERERS the property is about, stated per character:
       Render(s)   the string literal for value s   ('' doubling; \\ doubling iff RenBS; N prefix iff RenN;
                   %% iff RenPct - a format/pyformat DBAPI (DrvPct) halves them again: Deliver)
       Quote(n)    the identifier as IdentifierPreparer must emit it: bare iff n is all lower case, has only
                   legal characters, a legal initial character and is no reserved word - where the legal
                   characters, illegal initial characters and RESERVED WORDS are data extracted from the working
                   tree at run time (IOEnv.LEX_DATA) - else  iq Escape(n) fq.

   THEOREMS checked by TLC over every string up to MaxLen over the alphabet (+ the extra words: every keyword):
     LitOK       Lex(Deliver(Render(s))) is exactly ONE string token whose value is s, also between other tokens
                 (no injection, no truncation, the statement keeps its shape)
     IdentOK     Lex(Deliver(Quote(n))) is exactly ONE identifier token naming n (a bare word names its lower-case
                 form and must not be a keyword OF THE BACKEND - KW, measured on SQLite - nor start like a number or
                 a parameter), also between other tokens
     DottedOK    Lex(Deliver(Format(parts))) = name . name . name  and  Unformat(Deliver(Format(parts))) = parts
                 (Unformat = the regular expression of IdentifierPreparer.unformat_identifiers, transcribed)
     ScalarOK    (mode "scalar", code -> spec) every literal the implementation rendered for a non-string value
                 lexes as one literal token, optionally preceded by a minus sign
   Every state prints the rendering; the binding requires the implementation's output to EQUAL it.          *)
EXTENDS Integers, Sequences, FiniteSets, TLC, Json, IOUtils

\* everything that varies comes from the data file: a sequence of FAMILIES, each
\*   [name, mode "lit" | "ident" | "dotted" | "scalar", chars (alphabet), maxlen, maxparts, expect, <family parameters>]
ToSet(q) == {q[i] : i \in 1..Len(q)}
\* read once into TLC registers (a Java-implemented operator is not cached like a constant definition, and the per-family
\* sets would otherwise be rebuilt from their sequences at every reference): 1 = the data, 2 = the sets of each family
ASSUME /\ TLCSet(1, JsonDeserialize(IOEnv.LEX_DATA))
       /\ TLCSet(2, [i \in 1..Len(TLCGet(1).fams) |->
                       LET G == TLCGet(1).fams[i] IN
                       [reserved |-> ToSet(G.reserved), legal |-> ToSet(G.legal), bad |-> ToSet(G.illegal_initial),
                        kw |-> ToSet(G.keywords), words |-> ToSet(G.words)]])
D == TLCGet(1)
NF == Len(D.fams)
VARIABLES f,         \* index of the family (dialect configuration) of this case
          x, out
vars == <<f, x, out>>
F == D.fams[f]
Mode == F.mode
Chars == F.chars                          \* the alphabet, a sequence of one-character strings
B == Len(Chars)
MaxLen == F.maxlen                        \* strings / names up to this length
MaxParts == F.maxparts                    \* dotted mode: number of components
\* ---- literal family
RenBS == F.ren_bs                         \* renderer doubles backslashes
RenN == F.ren_n                           \* renderer emits N'...'
RenPct == F.ren_pct                       \* renderer doubles % (what a format / pyformat paramstyle requires)
DrvPct == F.drv_pct                       \* the DBAPI is a format / pyformat one: it halves %% and reads a lone % as a specifier
LexBS == F.lex_bs
LexN == F.lex_n
\* ---- identifier family
Backend == F.backend
\* the delimiters each dialect must use, and the character doubled inside them
IQ == CASE Backend = "mysql" -> "`" [] Backend = "mssql" -> "[" [] OTHER -> "\""
FQ == CASE Backend = "mysql" -> "`" [] Backend = "mssql" -> "]" [] OTHER -> "\""
EscQ == FQ
\* data extracted from the working tree
Reserved == TLCGet(2)[f].reserved           \* IdentifierPreparer.reserved_words (sequences of characters)
Legal == TLCGet(2)[f].legal                 \* characters c with legal_characters.match(c)
BadInit == TLCGet(2)[f].bad            \* illegal_initial_characters
KW == TLCGet(2)[f].kw                   \* words the BACKEND refuses as a bare identifier (measured / assumed)
WordSet == TLCGet(2)[f].words                   \* extra names to enumerate (keywords, long names)
Expect == F.expect                        \* FALSE for the deliberately mismatched families (sensitivity of the theorem)

Upper == <<"A","B","C","D","E","F","G","H","I","J","K","L","M","N","O","P","Q","R","S","T","U","V","W","X","Y","Z">>
LowerL == <<"a","b","c","d","e","f","g","h","i","j","k","l","m","n","o","p","q","r","s","t","u","v","w","x","y","z">>
Digits == {"0","1","2","3","4","5","6","7","8","9"}
Letters == ToSet(Upper) \cup ToSet(LowerL)
LowerMap == [c \in ToSet(Upper) |-> LowerL[CHOOSE i \in 1..26 : Upper[i] = c]]
LowerC(c) == IF c \in DOMAIN LowerMap THEN LowerMap[c] ELSE c
LowerS(s) == [i \in 1..Len(s) |-> LowerC(s[i])]
WordChars == Letters \cup Digits \cup {"_", "$", "~"}

RECURSIVE Pow(_, _)
Pow(b, n) == IF n = 0 THEN 1 ELSE b * Pow(b, n - 1)
OfLen(m) == {[i \in 1..m |-> Chars[(((k - 1) \div Pow(B, m - i)) % B) + 1]] : k \in 1..Pow(B, m)}
UpTo(n) == UNION {OfLen(m) : m \in 0..n}
Strings == UpTo(MaxLen)
Names == (Strings \ {<<>>}) \cup WordSet

\* ================================================================ the DBAPI's % formatting (format / pyformat)
RECURSIVE Halve(_)
Halve(t) == IF t = <<>> THEN <<>>
            ELSE IF Head(t) # "%" THEN <<Head(t)>> \o Halve(Tail(t))
            ELSE IF Len(t) >= 2 /\ t[2] = "%" THEN <<"%">> \o Halve(Tail(Tail(t)))
            ELSE <<"<format-error>">> \o Halve(Tail(t))          \* a lone % is a conversion specifier
Deliver(t) == IF DrvPct THEN Halve(t) ELSE t

\* ================================================================ the lexer (one character per step)
Tok(t, v) == [t |-> t, v |-> v]
At(text, i) == IF i <= Len(text) THEN text[i] ELSE "<eof>"
\* what opens a delimited identifier on this backend: <<closing character, closing character can be doubled>>
OpensQid(c) == \/ c = "\"" /\ Backend \in {"sqlite", "pg", "mssql", "oracle"}
               \/ c = "`" /\ Backend \in {"sqlite", "mysql"}
               \/ c = "[" /\ Backend \in {"sqlite", "mssql"}
CloserOf(c) == IF c = "[" THEN "]" ELSE c
Doubles(c) == IF c = "[" THEN Backend = "mssql" ELSE Backend # "oracle"
\* MySQL (without ANSI_QUOTES) reads "..." as a string literal
OpensDStr(c) == c = "\"" /\ Backend = "mysql"
\* backslash escapes of MySQL / PostgreSQL E'' strings, for the characters of the alphabet
Unescape(c) == IF c \in {"%", "_"} THEN <<"\\", c>> ELSE <<c>>      \* MySQL keeps the backslash before % and _
RECURSIVE DigitsEnd(_, _)
DigitsEnd(text, i) == IF At(text, i) \in Digits THEN DigitsEnd(text, i + 1) ELSE i
\* end (exclusive) of the numeric literal starting at i:  digits [. digits] [e [+-] digits]   |   . digits ...
NumEnd(text, i) ==
  LET a == DigitsEnd(text, i)
      b == IF At(text, a) = "." THEN DigitsEnd(text, a + 1) ELSE a
      e1 == IF At(text, b) \in {"e", "E"}
            THEN (IF At(text, b + 1) \in {"+", "-"} THEN b + 2 ELSE b + 1) ELSE b
      c == IF e1 > b /\ At(text, e1) \in Digits THEN DigitsEnd(text, e1) ELSE b
  IN c

\* st: "out" | "word" | "str" | "qid";  q: closing character of the open literal / identifier (and "N" flag in kind)
RECURSIVE LexFrom(_, _, _, _, _, _, _)
LexFrom(text, i, st, q, kind, cur, toks) ==
  LET c == At(text, i) n == At(text, i + 1) IN
  CASE st = "out" ->
         IF i > Len(text) THEN toks
         ELSE IF c = "'" THEN LexFrom(text, i + 1, "str", "'", "str", <<>>, toks)
         ELSE IF c = "N" /\ n = "'" /\ LexN THEN LexFrom(text, i + 2, "str", "'", "nstr", <<>>, toks)
         ELSE IF OpensDStr(c) THEN LexFrom(text, i + 1, "str", c, "str", <<>>, toks)
         ELSE IF OpensQid(c) THEN LexFrom(text, i + 1, "qid", CloserOf(c), IF Doubles(c) THEN "dbl" ELSE "nodbl", <<>>, toks)
         ELSE IF c \in Digits \/ (c = "." /\ n \in Digits)
              THEN LET e == NumEnd(text, i) IN LexFrom(text, e, "out", "", "", <<>>, Append(toks, Tok("num", SubSeq(text, i, e - 1))))
         ELSE IF c \in WordChars THEN LexFrom(text, i + 1, "word", "", "", <<c>>, toks)
         ELSE IF c = " " THEN LexFrom(text, i + 1, "out", "", "", <<>>, toks)
         ELSE IF c = "-" /\ n = "-" THEN Append(toks, Tok("comment", SubSeq(text, i, Len(text))))
         ELSE IF c = "#" /\ Backend = "mysql" THEN Append(toks, Tok("comment", SubSeq(text, i, Len(text))))
         ELSE LexFrom(text, i + 1, "out", "", "", <<>>, Append(toks, Tok("p", <<c>>)))
    [] st = "word" ->
         IF c \in WordChars THEN LexFrom(text, i + 1, "word", "", "", Append(cur, c), toks)
         ELSE LexFrom(text, i, "out", "", "", <<>>, Append(toks, Tok("word", cur)))
    [] st = "str" ->
         IF i > Len(text) THEN Append(toks, Tok("unterminated", cur))
         ELSE IF c = q THEN IF n = q THEN LexFrom(text, i + 2, "str", q, kind, Append(cur, q), toks)
                            ELSE LexFrom(text, i + 1, "out", "", "", <<>>, Append(toks, Tok(kind, cur)))
         ELSE IF c = "\\" /\ LexBS THEN IF i = Len(text) THEN Append(toks, Tok("unterminated", cur))
                                        ELSE LexFrom(text, i + 2, "str", q, kind, cur \o Unescape(n), toks)
         ELSE LexFrom(text, i + 1, "str", q, kind, Append(cur, c), toks)
    [] st = "qid" ->
         IF i > Len(text) THEN Append(toks, Tok("unterminated", cur))
         ELSE IF c = q THEN IF n = q /\ kind = "dbl" THEN LexFrom(text, i + 2, "qid", q, kind, Append(cur, q), toks)
                            ELSE LexFrom(text, i + 1, "out", "", "", <<>>, Append(toks, Tok("qid", cur)))
         ELSE LexFrom(text, i + 1, "qid", q, kind, Append(cur, c), toks)
Lex(text) == LexFrom(text, 1, "out", "", "", <<>>, <<>>)

\* ================================================================ C05: the literal renderer
RenChar(c) == IF c = "'" THEN <<"'", "'">>
              ELSE IF c = "\\" /\ RenBS THEN <<"\\", "\\">>
              ELSE IF c = "%" /\ RenPct THEN <<"%", "%">>
              ELSE <<c>>
RECURSIVE Body(_)
Body(s) == IF s = <<>> THEN <<>> ELSE RenChar(Head(s)) \o Body(Tail(s))
Render(s) == (IF RenN THEN <<"N">> ELSE <<>>) \o <<"'">> \o Body(s) \o <<"'">>
StrTok(s) == Tok(IF RenN THEN "nstr" ELSE "str", s)
Pre == <<"a", " ", "=", " ">>
Post == <<" ", "O", "R", " ", "b", ";">>
LitOKFor(s) == /\ Lex(Deliver(Render(s))) = <<StrTok(s)>>
               /\ Lex(Deliver(Pre \o Render(s) \o Post)) = Lex(Pre) \o <<StrTok(s)>> \o Lex(Post)

\* ================================================================ C06: the identifier renderer
RequiresQuotes(n) == \/ LowerS(n) \in Reserved
                     \/ n[1] \in BadInit
                     \/ \E i \in 1..Len(n) : n[i] \notin Legal
                     \/ LowerS(n) # n
RECURSIVE EscId(_)
EscId(n) == IF n = <<>> THEN <<>>
            ELSE (IF Head(n) = EscQ THEN <<EscQ, EscQ>>
                  ELSE IF Head(n) = "%" /\ RenPct THEN <<"%", "%">> ELSE <<Head(n)>>) \o EscId(Tail(n))
QuoteId(n) == <<IQ>> \o EscId(n) \o <<FQ>>
Quote(n) == IF RequiresQuotes(n) THEN QuoteId(n) ELSE n
\* what the BACKEND needs, independent of the tables in the code: a bare identifier may not start with a digit (it would be read as
\* a number: the lexer's "num" state) nor with $ (a parameter marker); Oracle also refuses a leading underscore.  This is never
\* taken from the tree's illegal_initial_characters (BadInit, used by Quote only); for SQLite it is calibrated by execution
\* (lexers_common.sqlite_illegal_initial: every digit and $ are refused, _ and letters accepted).
NumberLike(c) == c \in Digits \/ c = "$" \/ (c = "_" /\ Backend = "oracle")
IsIdentTok(t) == \/ t.t = "qid" /\ t.v # <<>>
                 \/ t.t = "word" /\ ~NumberLike(t.v[1]) /\ LowerS(t.v) \notin KW
TokName(t) == IF t.t = "word" THEN LowerS(t.v) ELSE t.v
Names1(toks) == Len(toks) = 1 /\ IsIdentTok(toks[1])
\* Oracle has no way to write a double quote inside an identifier: such names are not representable there
Representable(n) == n # <<>> /\ (Backend = "oracle" => "\"" \notin ToSet(n))
IdPre == <<"a", " ", "=", " ">>
IdPost == <<" ", "a", "s", " ", "b", ",">>
IdentOKFor(n) == Representable(n) =>
   LET toks == Lex(Deliver(Quote(n)))
       ctx == Lex(Deliver(IdPre \o Quote(n) \o IdPost))
       a == Len(Lex(IdPre)) IN
   /\ Names1(toks) /\ TokName(toks[1]) = n
   /\ Len(ctx) = a + 1 + Len(Lex(IdPost))
   /\ SubSeq(ctx, 1, a) = Lex(IdPre) /\ SubSeq(ctx, a + 2, Len(ctx)) = Lex(IdPost)
   /\ IsIdentTok(ctx[a + 1]) /\ TokName(ctx[a + 1]) = n

\* ---------------------------------------------------------------- dotted names
RECURSIVE Format(_)
Format(parts) == IF Len(parts) = 1 THEN Quote(parts[1]) ELSE Quote(Head(parts)) \o <<".">> \o Format(Tail(parts))
\* unformat_identifiers:  r = (?: (?: IQ ((?:ESC|[^FQ])+) FQ | ([^.]+) ) (?=\.|$) )+   ;  [unescape(a or b) for a, b in r.findall(text)]
\* with ESC = _escape_identifier(FQ).  Inner(text, i, j): text[i..j] parses as (ESC | one character other than FQ)+
EscFinal == EscId(<<FQ>>)
RECURSIVE Inner(_, _, _)
Inner(text, i, j) == IF i > j THEN TRUE
                     ELSE IF i + Len(EscFinal) - 1 <= j /\ SubSeq(text, i, i + Len(EscFinal) - 1) = EscFinal /\ Inner(text, i + Len(EscFinal), j) THEN TRUE
                     ELSE text[i] # FQ /\ Inner(text, i + 1, j)
\* closing positions j of a delimited component opened at i (the regex engine tries the longest first)
Closers(text, i) == {j \in (i + 2)..Len(text) : /\ text[j] = FQ /\ Inner(text, i + 1, j - 1)
                                                 /\ At(text, j + 1) \in {".", "<eof>"}}
Max(S) == CHOOSE m \in S : \A y \in S : y <= m
RECURSIVE RunEnd(_, _)
RunEnd(text, i) == IF i <= Len(text) /\ text[i] # "." THEN RunEnd(text, i + 1) ELSE i
\* _unescape_identifier: value.replace(escape_to_quote, escape_quote)  (MSSQL: "]]" -> "]")
UnescPair == <<EscQ, EscQ>>
UnescTo == EscQ
RECURSIVE UnescId(_)
UnescId(t) == IF t = <<>> THEN <<>>
              ELSE IF Len(t) >= 2 /\ SubSeq(t, 1, 2) = UnescPair THEN <<UnescTo>> \o UnescId(Tail(Tail(t)))
              ELSE <<Head(t)>> \o UnescId(Tail(t))
RECURSIVE Unformat(_, _)
Unformat(text, i) ==
  IF i > Len(text) THEN <<>>
  ELSE IF text[i] = IQ /\ Closers(text, i) # {}
       THEN LET j == Max(Closers(text, i)) IN <<UnescId(SubSeq(text, i + 1, j - 1))>> \o Unformat(text, j + 1)
  ELSE IF text[i] # "." THEN LET e == RunEnd(text, i) IN <<UnescId(SubSeq(text, i, e - 1))>> \o Unformat(text, e)
  ELSE Unformat(text, i + 1)
PartNames == Names
DottedOKFor(parts) == (\A k \in 1..Len(parts) : Representable(parts[k])) =>
   LET text == Deliver(Format(parts)) toks == Lex(text) IN
   /\ Len(toks) = 2 * Len(parts) - 1
   /\ \A k \in 1..Len(toks) : IF k % 2 = 1 THEN IsIdentTok(toks[k]) /\ TokName(toks[k]) = parts[(k + 1) \div 2]
                                           ELSE toks[k] = Tok("p", <<".">>)
   /\ Unformat(text, 1) = parts

\* ---------------------------------------------------------------- scalar literals rendered by the implementation
Rendered == F.rendered                     \* sequence of [txt |-> characters, kind |-> "num" | "str" | "const"]
ConstWords == {<<"n","u","l","l">>, <<"t","r","u","e">>, <<"f","a","l","s","e">>}
OneLiteral(toks, kind) ==
   /\ Len(toks) = 1
   /\ CASE kind = "num" -> toks[1].t = "num"
        [] kind = "str" -> toks[1].t \in {"str", "nstr"}
        [] kind = "const" -> toks[1].t = "num" \/ (toks[1].t = "word" /\ LowerS(toks[1].v) \in ConstWords)
        [] OTHER -> FALSE
\* Oracle writes dates as TO_DATE('...', 'format'): a function of two string literals
CallOfStrings(toks) == /\ Len(toks) = 6 /\ toks[1].t = "word" /\ toks[2] = Tok("p", <<"(">>) /\ toks[3].t = "str"
                       /\ toks[4] = Tok("p", <<",">>) /\ toks[5].t = "str" /\ toks[6] = Tok("p", <<")">>)
ScalarOKFor(r) == LET toks == Lex(Deliver(r.txt)) IN
   \/ r.kind # "call" /\ OneLiteral(toks, r.kind)
   \/ r.kind = "call" /\ CallOfStrings(toks)
   \/ r.kind = "num" /\ Len(toks) = 2 /\ toks[1] = Tok("p", <<"-">>) /\ OneLiteral(Tail(toks), "num")

\* ================================================================ enumeration: one case per initial state
\* (the variables f, x, out are declared at the top: f selects the family, x is the enumerated input)
Init == /\ f \in 1..NF
        /\ \/ /\ Mode = "lit" /\ x \in Strings
              /\ out = [f |-> F.name, s |-> x, render |-> Render(x), toks |-> Lex(Deliver(Render(x))), ok |-> LitOKFor(x)]
           \/ /\ Mode = "ident" /\ x \in Names
              /\ out = [f |-> F.name, n |-> x, quote |-> Quote(x), quoted |-> RequiresQuotes(x), forced |-> QuoteId(x),
                        repr |-> Representable(x), ok |-> IdentOKFor(x)]
           \/ /\ Mode = "dotted" /\ x \in [1..MaxParts -> PartNames]
              /\ out = [f |-> F.name, parts |-> x, fmt |-> Format(x), unf |-> Unformat(Deliver(Format(x)), 1),
                        repr |-> \A k \in 1..MaxParts : Representable(x[k]), ok |-> DottedOKFor(x)]
           \/ /\ Mode = "scalar" /\ x \in 1..Len(Rendered)
              /\ out = [f |-> F.name, i |-> x, toks |-> Lex(Deliver(Rendered[x].txt)), ok |-> ScalarOKFor(Rendered[x])]
        /\ PrintT(ToJson(out))
Next == UNCHANGED vars

\* a family with expect = FALSE pairs a renderer with the WRONG backend lexer: the theorem must fail there
\* (the binding requires at least one such failure - the theorems are not vacuous)
LitOK == (Mode = "lit" /\ Expect) => LitOKFor(x)
IdentOK == (Mode = "ident" /\ Expect) => IdentOKFor(x)
DottedOK == (Mode = "dotted" /\ Expect) => DottedOKFor(x)
ScalarOK == (Mode = "scalar" /\ Expect) => ScalarOKFor(Rendered[x])
\* the decoded value never depends on what follows: a literal is closed by its own last character
LitClosed == (Mode = "lit" /\ Expect) => \A c \in ToSet(Chars) : Lex(Deliver(Render(x)) \o <<" ", c>>)[1] = StrTok(x)
=============================================================================
