---------------------------- MODULE Pool ----------------------------
(* QueuePool at critical-section grain: pool/impl.py (_do_get, _do_return_conn, _inc_overflow, _dec_overflow),
   util/queue.py (Queue.get / put under one RLock with the not_empty condition) and the per-checkout path of
   pool/base.py (_ConnectionRecord.checkout / get_connection / checkin, _finalize_fairy, invalidate).
   One action per critical section / per DBAPI call; every DBAPI call has an `ok` and a `fail` variant (Faults).
   P = state shared by all threads, T[t] = the thread's program counter and locals, K = the pool's configuration
   (a variable that never changes, so that one TLC run covers several configurations and TracePool can switch it
   between traces).  Time: `clock` serves the queue timeout and recycle-by-age; `stamp` is a strictly increasing
   counter standing for time.time() values that get STORED (starttime, _invalidate_time, _soft_invalidate_time) -
   the code's documented assumption that measurable time passes between those state changes.               *)
EXTENDS Integers, Sequences, FiniteSets, TLC
CONSTANTS Threads,      \* set of strings
          Sizes, Maxos, Lifos, Timeouts, Recycles,   \* configuration space; Maxos: 9 stands for "unlimited" (-1 in the code)
          Ops,          \* checkouts per thread
          MaxConn,      \* records / connections ever created (|Threads| * Ops never binds)
          MaxClock,     \* bound of the virtual clock
          Faults        \* subset of {"connect","reset","inv","soft","poolinv","drop"}
VARIABLES P, T, K, last
vars == <<P, T, K, last>>
View == <<P, T, K>>
NoT == "-"
Recs == 1..MaxConn
Configs == {[size |-> s, maxo |-> (IF m = 9 THEN 0 - 1 ELSE m), lifo |-> l, timeout |-> to, recycle |-> (IF rc = 9 THEN 0 - 1 ELSE rc)] :
              s \in Sizes, m \in Maxos, l \in Lifos, to \in Timeouts, rc \in Recycles}
UseOverflow == K.maxo > -1
AtLimit == UseOverflow /\ P.overflow >= K.maxo

P0 == [queue |-> <<>>, overflow |-> 0, recConn |-> [r \in Recs |-> 0], recBorn |-> [r \in Recs |-> 0],
       recSoft |-> [r \in Recs |-> 0], recClk |-> [r \in Recs |-> 0], nrec |-> 0, nconn |-> 0, open |-> {},
       stamp |-> 0, invTime |-> 0, clock |-> 0, wq |-> <<>>, mutex |-> NoT]
T0 == [t \in Threads |-> [pc |-> "idle", wait |-> FALSE, mine |-> 0, held |-> 0, ops |-> Ops, deadline |-> 0, res |-> "none"]]
InitWith(k) == /\ K = k /\ P = [P0 EXCEPT !.overflow = 0 - k.size] /\ T = T0 /\ last = [a |-> "init", t |-> NoT]
Init == \E k \in Configs : InitWith(k)

Lbl(a, t) == last' = [a |-> a, t |-> t] /\ UNCHANGED K
Go(t, pc) == T' = [T EXCEPT ![t].pc = pc]
Me(t) == T[t]
Rec(t) == T[t].mine

\* ------------------------------------------------------------------ checkout: QueuePool._do_get
StartGet(t) == /\ Me(t).pc = "idle" /\ Me(t).ops > 0
               /\ T' = [T EXCEPT ![t].pc = "read1", ![t].ops = @ - 1, ![t].res = "none"]
               /\ UNCHANGED P /\ Lbl("StartGet", t)
\* wait = use_overflow and self._overflow >= self._max_overflow      (unlocked read)
Read1(t) == /\ Me(t).pc = "read1"
            /\ T' = [T EXCEPT ![t].pc = "qget", ![t].wait = AtLimit]
            /\ UNCHANGED P /\ Lbl("Read1", t)
TakeR == IF K.lifo THEN P.queue[Len(P.queue)] ELSE Head(P.queue)
TakeQ == IF K.lifo THEN SubSeq(P.queue, 1, Len(P.queue) - 1) ELSE Tail(P.queue)
\* Queue.get(wait, timeout) up to the first point where it returns, raises Empty or enters not_empty.wait()
QGet(t) == /\ Me(t).pc = "qget" /\ P.mutex = NoT
           /\ IF P.queue # <<>>
              THEN P' = [P EXCEPT !.queue = TakeQ] /\ T' = [T EXCEPT ![t].pc = "getconn", ![t].mine = TakeR]
              ELSE IF ~Me(t).wait \/ K.timeout <= 0
                   THEN UNCHANGED P /\ T' = [T EXCEPT ![t].pc = "read2", ![t].deadline = P.clock]
                   ELSE /\ P' = [P EXCEPT !.wq = Append(@, t)]
                        /\ T' = [T EXCEPT ![t].pc = "waiting", ![t].deadline = P.clock + K.timeout]
           /\ Lbl("QGet", t)
\* a notified or timed-out waiter re-acquires the mutex and re-runs the loop `while self._empty()`
Wake(t) == /\ Me(t).pc = "woken" /\ P.mutex = NoT
           /\ IF P.queue # <<>>
              THEN P' = [P EXCEPT !.queue = TakeQ] /\ T' = [T EXCEPT ![t].pc = "getconn", ![t].mine = TakeR]
              ELSE IF Me(t).deadline - P.clock <= 0
                   THEN UNCHANGED P /\ Go(t, "read2")
                   ELSE P' = [P EXCEPT !.wq = Append(@, t)] /\ Go(t, "waiting")
           /\ Lbl("Wake", t)
\* the clock moves to c; every waiter whose deadline is reached leaves the wait list
Expired(c) == {t \in Threads : T[t].pc = "waiting" /\ T[t].deadline <= c}
TickTo(c) == /\ c > P.clock /\ c <= MaxClock
             /\ P' = [P EXCEPT !.clock = c, !.wq = SelectSeq(@, LAMBDA x : x \notin Expired(c))]
             /\ T' = [t \in Threads |-> IF t \in Expired(c) THEN [T[t] EXCEPT !.pc = "woken"] ELSE T[t]]
             /\ Lbl("Tick", NoT)
Tick == (P.wq # <<>> \/ K.recycle > -1) /\ TickTo(P.clock + 1)
\* after Empty: second unlocked read
Read2(t) == /\ Me(t).pc = "read2"
            /\ IF AtLimit
               THEN IF Me(t).wait THEN T' = [T EXCEPT ![t].pc = "idle", ![t].res = "TimeoutError"]
                                  ELSE Go(t, "read1")                      \* return self._do_get()
               ELSE Go(t, "inc")
            /\ UNCHANGED P /\ Lbl("Read2", t)
\* _inc_overflow: test and increment under _overflow_lock (or unlocked when unlimited)
Inc(t) == /\ Me(t).pc = "inc"
          /\ IF ~UseOverflow \/ P.overflow < K.maxo
             THEN P' = [P EXCEPT !.overflow = @ + 1] /\ Go(t, "create")
             ELSE UNCHANGED P /\ Go(t, "read1")
          /\ Lbl("Inc", t)
Connected(r, c) == [P EXCEPT !.recConn[r] = c, !.recBorn[r] = P.stamp + 1, !.recClk[r] = P.clock, !.stamp = @ + 1,
                             !.nconn = c, !.open = @ \cup {c}]
\* _create_connection(): a new _ConnectionRecord whose __connect() succeeds; _ConnectionRecord.checkout then calls
\* get_connection() on it like on any other record (a pool invalidation in between recycles the brand-new connection)
Create(t) == /\ Me(t).pc = "create" /\ P.nrec < MaxConn /\ P.nconn < MaxConn
             /\ P' = [Connected(P.nrec + 1, P.nconn + 1) EXCEPT !.nrec = @ + 1]
             /\ T' = [T EXCEPT ![t].pc = "getconn", ![t].mine = P.nrec + 1]
             /\ Lbl("Create", t)
CreateFail(t) == /\ "connect" \in Faults /\ Me(t).pc = "create" /\ Go(t, "decfail") /\ UNCHANGED P /\ Lbl("CreateFail", t)
DecFail(t) == /\ Me(t).pc = "decfail" /\ P' = [P EXCEPT !.overflow = @ - 1]
              /\ T' = [T EXCEPT ![t].pc = "idle", ![t].res = "Error"] /\ Lbl("DecFail", t)
\* ------------------------------------------------------------------ _ConnectionRecord.get_connection
Expiring(r) == \/ (K.recycle > -1 /\ P.clock - P.recClk[r] > K.recycle)
               \/ P.invTime > P.recBorn[r]
               \/ P.recSoft[r] > P.recBorn[r]
Closed(p, r) == [p EXCEPT !.open = @ \ {p.recConn[r]}, !.recConn[r] = 0]
GetConn(t) == /\ Me(t).pc = "getconn"
              /\ LET r == Rec(t) IN
                 IF P.recConn[r] = 0 THEN UNCHANGED P /\ Go(t, "reconnect")
                 ELSE IF Expiring(r) THEN P' = Closed(P, r) /\ Go(t, "reconnect")
                 ELSE UNCHANGED P /\ Go(t, "fairy")
              /\ Lbl("GetConn", t)
Reconnect(t) == /\ Me(t).pc = "reconnect" /\ P.nconn < MaxConn
                /\ P' = Connected(Rec(t), P.nconn + 1) /\ Go(t, "fairy") /\ Lbl("Reconnect", t)
\* connect fails inside get_connection: _checkin_failed -> the record (without connection) goes back to the pool
ReconnectFail(t) == /\ "connect" \in Faults /\ Me(t).pc = "reconnect"
                    /\ T' = [T EXCEPT ![t].pc = "put", ![t].res = "Error"] /\ UNCHANGED P /\ Lbl("ReconnectFail", t)
\* the fairy is created and handed to the caller
Fairy(t) == /\ Me(t).pc = "fairy"
            /\ T' = [T EXCEPT ![t].pc = "holding", ![t].held = Rec(t), ![t].res = "ok"]
            /\ UNCHANGED P /\ Lbl("Fairy", t)
\* ------------------------------------------------------------------ what a holder can do
StartClose(t) == /\ Me(t).pc = "holding"
                 /\ T' = [T EXCEPT ![t].pc = "reset", ![t].held = 0, ![t].res = "none"] /\ UNCHANGED P /\ Lbl("StartClose", t)
\* the last reference is dropped: the weakref callback runs _finalize_fairy in the dropping thread (same path as close)
StartDrop(t) == /\ "drop" \in Faults /\ Me(t).pc = "holding"
                /\ T' = [T EXCEPT ![t].pc = "reset", ![t].held = 0, ![t].res = "none"] /\ UNCHANGED P /\ Lbl("StartDrop", t)
\* reset-on-return (rollback); skipped when the record has no connection
Reset(t) == /\ Me(t).pc = "reset" /\ Go(t, "put") /\ UNCHANGED P /\ Lbl("Reset", t)
ResetFail(t) == /\ "reset" \in Faults /\ Me(t).pc = "reset" /\ P.recConn[Rec(t)] # 0
                /\ P' = Closed(P, Rec(t)) /\ Go(t, "put") /\ Lbl("ResetFail", t)
StartInvalidate(t) == /\ "inv" \in Faults /\ Me(t).pc = "holding"
                      /\ T' = [T EXCEPT ![t].pc = "inval", ![t].held = 0, ![t].res = "none"] /\ UNCHANGED P /\ Lbl("StartInvalidate", t)
Inval(t) == /\ Me(t).pc = "inval" /\ P' = Closed(P, Rec(t)) /\ Go(t, "put") /\ Lbl("Inval", t)
SoftInvalidate(t) == /\ "soft" \in Faults /\ Me(t).pc = "holding" /\ P.recSoft[Rec(t)] <= P.recBorn[Rec(t)]
                     /\ P' = [P EXCEPT !.recSoft[Rec(t)] = P.stamp + 1, !.stamp = @ + 1]
                     /\ UNCHANGED T /\ Lbl("SoftInvalidate", t)
\* Pool._invalidate(fairy): stamp the pool unless the connection's generation is already invalidated, then invalidate it
StartPoolInv(t) == /\ "poolinv" \in Faults /\ Me(t).pc = "holding"
                   /\ T' = [T EXCEPT ![t].pc = "pinv", ![t].held = 0, ![t].res = "none"] /\ UNCHANGED P /\ Lbl("StartPoolInv", t)
PoolInvStamp(t) == /\ Me(t).pc = "pinv"
                   /\ IF P.invTime < P.recBorn[Rec(t)] THEN P' = [P EXCEPT !.invTime = P.stamp + 1, !.stamp = @ + 1] ELSE UNCHANGED P
                   /\ Go(t, "inval") /\ Lbl("PoolInvStamp", t)
\* ------------------------------------------------------------------ check-in: QueuePool._do_return_conn
Put(t) == /\ Me(t).pc = "put" /\ P.mutex = NoT
          /\ IF Len(P.queue) < K.size
             THEN P' = [P EXCEPT !.queue = Append(@, Rec(t)), !.mutex = t] /\ Go(t, "notify")
             ELSE UNCHANGED P /\ Go(t, "fullclose")
          /\ Lbl("Put", t)
\* self.not_empty.notify() and release of the mutex
Notify(t) == /\ Me(t).pc = "notify"
             /\ P' = [P EXCEPT !.mutex = NoT, !.wq = IF @ = <<>> THEN @ ELSE Tail(@)]
             /\ T' = [x \in Threads |->
                        IF x = t THEN [T[t] EXCEPT !.pc = "idle", !.mine = 0, !.res = IF @ = "Error" THEN @ ELSE "ok"]
                        ELSE IF P.wq # <<>> /\ x = Head(P.wq) THEN [T[x] EXCEPT !.pc = "woken"] ELSE T[x]]
             /\ Lbl("Notify", t)
FullClose(t) == /\ Me(t).pc = "fullclose"
                /\ P' = (IF P.recConn[Rec(t)] # 0 THEN Closed(P, Rec(t)) ELSE P) /\ Go(t, "fulldec") /\ Lbl("FullClose", t)
FullDec(t) == /\ Me(t).pc = "fulldec" /\ P' = [P EXCEPT !.overflow = @ - 1]
              /\ T' = [T EXCEPT ![t].pc = "idle", ![t].mine = 0, ![t].res = IF @ = "Error" THEN @ ELSE "ok"] /\ Lbl("FullDec", t)

Calls(t) == StartGet(t) \/ StartClose(t) \/ StartDrop(t) \/ StartInvalidate(t) \/ SoftInvalidate(t) \/ StartPoolInv(t)
Internal(t) == Read1(t) \/ QGet(t) \/ Wake(t) \/ Read2(t) \/ Inc(t) \/ Create(t) \/ CreateFail(t) \/ DecFail(t)
               \/ GetConn(t) \/ Reconnect(t) \/ ReconnectFail(t) \/ Fairy(t) \/ Reset(t) \/ ResetFail(t) \/ Inval(t)
               \/ PoolInvStamp(t) \/ Put(t) \/ Notify(t) \/ FullClose(t) \/ FullDec(t)
Next == (\E t \in Threads : Calls(t) \/ Internal(t)) \/ Tick
Spec == Init /\ [][Next]_vars
\* fairness for the liveness check: every thread keeps running, holders eventually release
FairSpec == Spec /\ \A t \in Threads : WF_vars(Calls(t) \/ Internal(t))

\* ------------------------------------------------------------------ what the property says
HeldBy(t) == T[t].held
\* no record and no DBAPI connection is held by two checkouts at the same time
Exclusive == \A t1, t2 \in Threads : (t1 # t2 /\ HeldBy(t1) # 0 /\ HeldBy(t2) # 0) =>
                (HeldBy(t1) # HeldBy(t2) /\ P.recConn[HeldBy(t1)] # P.recConn[HeldBy(t2)])
\* ... nor idle in the pool while somebody owns it
QueueSet == {P.queue[i] : i \in 1..Len(P.queue)}
Owned == {T[t].mine : t \in {x \in Threads : T[x].pc # "notify"}} \ {0}
QueueDisjoint == /\ QueueSet \cap Owned = {} /\ Cardinality(QueueSet) = Len(P.queue)
                 /\ \A t1, t2 \in Threads : (t1 # t2 /\ T[t1].mine # 0) => T[t1].mine # T[t2].mine
                 /\ \A r1, r2 \in Recs : (r1 # r2 /\ P.recConn[r1] # 0) => P.recConn[r1] # P.recConn[r2]
\* never more than pool_size + max_overflow connections open, never more than pool_size idle
OpenBound == UseOverflow => Cardinality(P.open) <= K.size + K.maxo
IdleBound == Len(P.queue) <= K.size
\* checkedout() equals the number of live checkouts whenever no call is in progress
Quiescent == \A t \in Threads : T[t].pc \in {"idle", "holding"}
CheckedOut == K.size - Len(P.queue) + P.overflow
CountOK == Quiescent => CheckedOut = Cardinality({t \in Threads : T[t].pc = "holding"})
\* _overflow + pool_size = number of records that exist (idle or owned by a call in progress) - at every state
Slots == {t \in Threads : T[t].pc \in {"create", "decfail", "getconn", "reconnect", "fairy", "holding", "reset", "inval", "pinv",
                                        "put", "fullclose", "fulldec"}}
OverflowCounts == P.overflow + K.size = Len(P.queue) + Cardinality(Slots)
\* a held connection is open in the ledger
NoStale == \A t \in Threads : HeldBy(t) # 0 => (P.recConn[HeldBy(t)] # 0 /\ P.recConn[HeldBy(t)] \in P.open)
\* once every holder has released: zero checked out, every open connection idle in the pool
NoLeak == (\A t \in Threads : T[t].pc = "idle") =>
             (CheckedOut = 0 /\ P.open = {P.recConn[P.queue[i]] : i \in 1..Len(P.queue)} \ {0})
\* every open connection belongs to exactly one live record (idle or owned)
OpenOwned == P.open = {P.recConn[r] : r \in QueueSet \cup Owned} \ {0}
\* TimeoutError only at or after the deadline of the wait
TimeoutAfterDeadline == [][\A t \in Threads : (T'[t].res = "TimeoutError" /\ T[t].res # "TimeoutError") => P.clock >= T[t].deadline]_vars
\* nobody waits while he could create a connection, nobody sits in the wait list without waiting
WaitListOK == /\ \A i \in 1..Len(P.wq) : T[P.wq[i]].pc = "waiting"
              /\ \A t \in Threads : T[t].pc = "waiting" => \E i \in 1..Len(P.wq) : P.wq[i] = t
\* liveness (FairSpec, clock frozen by MaxClock = 0): a checkout that waits is eventually served by a returned connection
Served == \A t \in Threads : (T[t].pc = "waiting") ~> (T[t].pc = "holding")
Perms == Permutations(Threads)
\* model bound check (a violation is a machinery failure, not a verdict): MaxConn never disables a connect
ConnBoundFree == \A t \in Threads : T[t].pc \in {"create", "reconnect"} => (P.nconn < MaxConn /\ P.nrec < MaxConn)
=============================================================================
