---------------------------- MODULE ParamStyle ----------------------------
(* C04: bound parameters are delivered to the right placeholders in every paramstyle.

   A statement is the sequence of its parameter OCCURRENCES in text order (plus literal percent signs of the SQL text):
       occurrence = [c |-> clause label, b |-> bind]        bind = [kind, n]
           kind "plain"     one value, one placeholder per occurrence
                "expanding" n values (0..2), rendered as n placeholders at execution time (IN)
                "literal"   literal_execute: the value is written into the text, no placeholder
                "litexp"    expanding + literal_execute
   Every (bind, index) carries a DISTINCT value  Val(b, i), so any permutation or sharing is observable.

   PEP 249 gives each paramstyle its meaning - Resolve(style, sql, params) = the value each placeholder receives:
       qmark ?  / format %s          the k-th placeholder takes params[k]       (format: %% in the text is one %, a lone % is an error)
       numeric :n / numeric_dollar $n  takes params[n]; the tuple has exactly max(n) entries
       named :key / pyformat %(key)s   takes params[key]                          (pyformat: %% as for format)

   Mode "model":  Deliver(style, stmt) is the delivery scheme of the compiler stated functionally (positional styles: one entry per
       occurrence in text order, repeated binds repeated; numeric: one number per distinct plain bind in order of first occurrence,
       the values of expanding binds numbered after all plain ones; named: one key per bind, key_i per expanded value).
       THEOREM DeliveryCorrect: Resolve(style, Deliver(style, stmt)) = Expected(stmt) for all six styles, params exactly used
       (ParamsExact), checked by TLC for every statement within the bound.  Each state prints the statement: the binding builds it
       with the real expression language (clause labels select where the bind goes).
   Mode "names":  bind names that need escaping; EscName is the character map of SQLCompiler.bindparam_string, ExpName the naming of
       expanded values (name_i).  KeysDistinct says the keys a named-style driver sees are distinct for distinct (bind, index) - the
       condition under which sharing is impossible.  Each state prints the names and whether KeysDistinct holds.
   Mode "trace" (code -> spec): what the real DBAPI cursor received - for every statement and style the placeholders found in the SQL
       text in text order, each with the value its occurrence must get (the harness tags every occurrence in the text), and the
       parameters - is validated against Resolve: TraceCorrect, TraceAccepted, TraceStyle.                                        *)
EXTENDS Integers, Sequences, FiniteSets, TLC, Json, IOUtils
CONSTANTS Mode,        \* "model" | "names" | "trace"
          MaxOcc,      \* model: occurrences per statement
          NBinds,      \* model: binds per statement
          Family       \* model: "select" | "dml"

Styles == {"qmark", "format", "numeric", "numeric_dollar", "named", "pyformat"}
ToSet(q) == {q[i] : i \in 1..Len(q)}
RECURSIVE Flat(_)
Flat(ss) == IF ss = <<>> THEN <<>> ELSE Head(ss) \o Flat(Tail(ss))
Val(b, i) == 100 * b + i                      \* distinct per (bind, index); index 0 for a plain / literal bind

\* ================================================================ statements
Kinds == {"plain", "expanding", "literal", "litexp"}
IsExp(bd) == bd.kind \in {"expanding", "litexp"}
IsLit(bd) == bd.kind \in {"literal", "litexp"}
Values(stmt, b) == IF IsExp(stmt.binds[b]) THEN [i \in 1..stmt.binds[b].n |-> Val(b, i)] ELSE <<Val(b, 0)>>
\* what each token of the text must evaluate to: one entry per occurrence, the sequence of its values
Expected(stmt) == [k \in 1..Len(stmt.occ) |-> IF stmt.occ[k].c = "pct" THEN <<>> ELSE Values(stmt, stmt.occ[k].b)]

\* ---------------------------------------------------------------- the delivery scheme
\* sql tokens: [t |-> "ph", ...] placeholder, [t |-> "lit", v] literal value, [t |-> "pct1"] a lone %, [t |-> "pct2"] %%, [t |-> "grp", toks] the
\* rendering of ONE occurrence (a group of placeholders / literals: an expanded IN list)
FirstOcc(stmt, b) == LET S == {k \in 1..Len(stmt.occ) : stmt.occ[k].c # "pct" /\ stmt.occ[k].b = b} IN
                     IF S = {} THEN 0 ELSE CHOOSE k \in S : \A j \in S : k <= j
Used(stmt) == {b \in 1..Len(stmt.binds) : FirstOcc(stmt, b) > 0}
\* plain binds in order of first occurrence; then the expanding ones in order of first occurrence
RECURSIVE SortByFirst(_, _)
SortByFirst(stmt, S) == IF S = {} THEN <<>>
                        ELSE LET b == CHOOSE u \in S : \A y \in S : FirstOcc(stmt, u) <= FirstOcc(stmt, y) IN <<b>> \o SortByFirst(stmt, S \ {b})
PlainOrder(stmt) == SortByFirst(stmt, {b \in Used(stmt) : stmt.binds[b].kind = "plain"})
ExpOrder(stmt) == SortByFirst(stmt, {b \in Used(stmt) : stmt.binds[b].kind = "expanding"})
IndexIn(seq, x) == CHOOSE i \in 1..Len(seq) : seq[i] = x
RECURSIVE SumN(_, _, _)
SumN(stmt, seq, upto) == IF upto = 0 THEN 0 ELSE stmt.binds[seq[upto]].n + SumN(stmt, seq, upto - 1)
NumOf(stmt, b, i) == IF stmt.binds[b].kind = "plain" THEN IndexIn(PlainOrder(stmt), b)
                     ELSE Len(PlainOrder(stmt)) + SumN(stmt, ExpOrder(stmt), IndexIn(ExpOrder(stmt), b) - 1) + i
KeyOf(b, i) == IF i = 0 THEN <<"p", b>> ELSE <<"p", b, i>>
Pct(style) == IF style \in {"format", "pyformat"} THEN [t |-> "pct2"] ELSE [t |-> "pct1"]
\* rendering of occurrence k (its ordinal among positional placeholders is filled in by Resolve)
Rend(style, stmt, k) ==
  LET o == stmt.occ[k] IN
  IF o.c = "pct" THEN Pct(style)
  ELSE LET bd == stmt.binds[o.b]
           idx == IF IsExp(bd) THEN [i \in 1..bd.n |-> i] ELSE <<0>> IN
       [t |-> "grp", toks |-> [j \in 1..Len(idx) |->
            IF IsLit(bd) THEN [t |-> "lit", v |-> Val(o.b, idx[j])]
            ELSE CASE style \in {"qmark", "format"} -> [t |-> "ph", k |-> "pos"]
                   [] style \in {"numeric", "numeric_dollar"} -> [t |-> "ph", k |-> "num", n |-> NumOf(stmt, o.b, idx[j])]
                   [] OTHER -> [t |-> "ph", k |-> "key", key |-> KeyOf(o.b, idx[j])]]]
PosParams(stmt) == Flat([k \in 1..Len(stmt.occ) |->
                      IF stmt.occ[k].c = "pct" \/ IsLit(stmt.binds[stmt.occ[k].b]) THEN <<>> ELSE Values(stmt, stmt.occ[k].b)])
NumParams(stmt) == [b \in 1..Len(PlainOrder(stmt)) |-> Val(PlainOrder(stmt)[b], 0)]
                   \o Flat([e \in 1..Len(ExpOrder(stmt)) |-> Values(stmt, ExpOrder(stmt)[e])])
KeyParams(stmt) == Flat([b \in 1..Len(stmt.binds) |->
                      IF b \notin Used(stmt) \/ IsLit(stmt.binds[b]) THEN <<>>
                      ELSE IF IsExp(stmt.binds[b]) THEN [i \in 1..stmt.binds[b].n |-> <<KeyOf(b, i), Val(b, i)>>]
                      ELSE << <<KeyOf(b, 0), Val(b, 0)>> >>])
Deliver(style, stmt) ==
  [sql |-> [k \in 1..Len(stmt.occ) |-> Rend(style, stmt, k)],
   params |-> CASE style \in {"qmark", "format"} -> PosParams(stmt)
                [] style \in {"numeric", "numeric_dollar"} -> NumParams(stmt)
                [] OTHER -> KeyParams(stmt)]

\* ---------------------------------------------------------------- PEP 249: what the driver does with (sql, params)
KeyLookup(pairs, key) == LET S == {i \in 1..Len(pairs) : pairs[i][1] = key} IN
                         IF Cardinality(S) = 1 THEN pairs[CHOOSE i \in S : TRUE][2] ELSE -1       \* missing or ambiguous
\* ordinal of positional placeholder j of group k among all positional placeholders of the text
PosBefore(sql, k) == LET n[i \in 0..Len(sql)] == IF i = 0 THEN 0
                                                 ELSE n[i - 1] + (IF sql[i].t = "grp" THEN Cardinality({j \in 1..Len(sql[i].toks) : sql[i].toks[j].t = "ph"}) ELSE 0)
                     IN n[k - 1]
PhBefore(toks, j) == Cardinality({i \in 1..(j - 1) : toks[i].t = "ph"})
TokVal(style, sql, params, k, j) ==
  LET tk == sql[k].toks[j] IN
  IF tk.t = "lit" THEN tk.v
  ELSE CASE tk.k = "pos" -> LET p == PosBefore(sql, k) + PhBefore(sql[k].toks, j) + 1 IN IF p <= Len(params) THEN params[p] ELSE -1
         [] tk.k = "num" -> IF tk.n \in 1..Len(params) THEN params[tk.n] ELSE -1
         [] tk.k = "key" -> KeyLookup(params, tk.key)
Resolve(style, sql, params) == [k \in 1..Len(sql) |-> IF sql[k].t # "grp" THEN <<>> ELSE [j \in 1..Len(sql[k].toks) |-> TokVal(style, sql, params, k, j)]]
PhToks(sql) == Flat([k \in 1..Len(sql) |-> IF sql[k].t = "grp" THEN SelectSeq(sql[k].toks, LAMBDA tk : tk.t = "ph") ELSE <<>>])
\* the driver accepts the call: no lone % for the %-formatting styles, every parameter consumed, none missing
Accepts(style, sql, params) ==
  /\ (style \in {"format", "pyformat"} => \A k \in 1..Len(sql) : sql[k].t # "pct1")
  /\ (style \notin {"format", "pyformat"} => \A k \in 1..Len(sql) : sql[k].t # "pct2")
  /\ LET phs == PhToks(sql) IN
     CASE style \in {"qmark", "format"} -> Len(params) = Len(phs) /\ \A i \in 1..Len(phs) : phs[i].k = "pos"
       [] style \in {"numeric", "numeric_dollar"} -> /\ \A i \in 1..Len(phs) : phs[i].k = "num" /\ phs[i].n \in 1..Len(params)
                                                     /\ \A n \in 1..Len(params) : \E i \in 1..Len(phs) : phs[i].n = n
       [] OTHER -> /\ \A i \in 1..Len(phs) : phs[i].k = "key" /\ Cardinality({p \in 1..Len(params) : params[p][1] = phs[i].key}) = 1
                   /\ \A p \in 1..Len(params) : \E i \in 1..Len(phs) : phs[i].key = params[p][1]

\* ================================================================ model mode: enumeration
SelectClauses == <<"cte", "sel", "sel2", "subq", "where", "in", "having", "order", "limit", "offset", "pct">>
DmlClauses == <<"values", "values2", "set", "dwhere", "din", "returning">>
Clauses == IF Family = "select" THEN SelectClauses ELSE DmlClauses
InClauses == {"in", "din"}
IntClauses == {"limit", "offset"}        \* literal_execute is what some dialects use there; expanding is impossible
\* increasing index sequences = ordered sub-sequences of the clause list
IncSeqs == {s \in UNION {[1..n -> 1..Len(Clauses)] : n \in 1..MaxOcc} : \A i \in 1..(Len(s) - 1) : s[i] < s[i + 1]}
PlainChoices == [kind : {"plain", "literal"}, n : {0}]
ExpChoices == [kind : {"expanding", "litexp"}, n : 0..2]
BindChoices == PlainChoices \cup ExpChoices
MaxOf(S) == IF S = {} THEN 0 ELSE CHOOSE m \in S : \A y \in S : y <= m
\* which clauses may occur together
ClauseOK(s) == LET cs == {Clauses[s[k]] : k \in 1..Len(s)} IN
   /\ cs # {"pct"}
   /\ (Family = "dml" => /\ cs \cap {"values", "set"} # {}
                         /\ ~(cs \cap {"values", "values2"} # {} /\ cs \cap {"set", "dwhere", "din"} # {})      \* INSERT or UPDATE
                         /\ ("values2" \in cs => "values" \in cs))
\* g assigns a bind to every occurrence: 0 for a literal %, binds numbered in order of first use (no two statements differ by renaming)
Growth(s, g) == \A k \in 1..Len(s) :
   IF Clauses[s[k]] = "pct" THEN g[k] = 0
   ELSE g[k] >= 1 /\ g[k] <= 1 + MaxOf({g[j] : j \in 1..(k - 1)})
NB(g) == MaxOf({g[k] : k \in DOMAIN g})
\* an expanding bind lives in IN clauses only, and only expanding binds do
Options(s, g, b) == LET ks == {k \in 1..Len(s) : g[k] = b} IN
   IF \A k \in ks : Clauses[s[k]] \in InClauses THEN ExpChoices
   ELSE IF \A k \in ks : Clauses[s[k]] \notin InClauses THEN PlainChoices ELSE {}
StmtsOf(s) == UNION {{[cl |-> s, g |-> g, binds |-> bs] : bs \in {f \in [1..NB(g) -> BindChoices] : \A b \in 1..NB(g) : f[b] \in Options(s, g, b)}} :
                     g \in {h \in [1..Len(s) -> 0..NBinds] : Growth(s, h)}}
Stmts == UNION {StmtsOf(s) : s \in {q \in IncSeqs : ClauseOK(q)}}
Norm(st) == [occ |-> [k \in 1..Len(st.cl) |-> [c |-> Clauses[st.cl[k]], b |-> st.g[k]]], binds |-> st.binds]

\* ================================================================ names mode
\* SQLCompiler._bind_translate_chars
EscChar(c) == CASE c = "%" -> "P" [] c = "(" -> "A" [] c = ")" -> "Z" [] c = ":" -> "C" [] c \in {".", "[", "]", " "} -> "_" [] OTHER -> c
EscName(nm) == [i \in 1..Len(nm) |-> EscChar(nm[i])]
Digit(n) == <<"0","1","2","3","4","5","6","7","8","9">>[n + 1]
ExpName(nm, i) == EscName(nm) \o <<"_", Digit(i)>>
NamePool == << <<"p">>, <<"a", ".", "b">>, <<"a", "_", "b">>, <<"a", " ", "b">>, <<"x", "%", "y">>, <<"q", "[", "1", "]">>,
               <<"f", "(", "x", ")">>, <<"x">>, <<"x", "_", "1">>, <<"c", ":", "d">> >>
\* a names case: an injective choice of 3 names for  [plain bind, plain bind, expanding bind with 2 values]
NameCases == {s \in [1..3 -> 1..Len(NamePool)] : s[1] < s[2] /\ s[3] # s[1] /\ s[3] # s[2]}
\* the compiled statement is keyed by the three (escaped) names; at execution the expanding one is replaced by its expanded names
KeysOf(s) == {EscName(NamePool[s[1]]), EscName(NamePool[s[2]]), EscName(NamePool[s[3]]), ExpName(NamePool[s[3]], 1), ExpName(NamePool[s[3]], 2)}
KeysDistinctFor(s) == Cardinality(KeysOf(s)) = 5

\* ================================================================ trace mode
ASSUME TLCSet(1, IF Mode = "trace" THEN ndJsonDeserialize(IOEnv.PARAM_TRACES) ELSE <<>>)
Traces == TLCGet(1)
\* trace = [id, style, sql : seq of tokens as above (each group carries exp : the values its occurrence must get), params : seq of values |
\*          seq of <<key, value>>]
TraceExpected(T) == [k \in 1..Len(T.sql) |-> IF T.sql[k].t = "grp" THEN T.sql[k].exp ELSE <<>>]

\* the placeholder syntax of each paramstyle
SymOf(style) == CASE style = "qmark" -> "?" [] style = "format" -> "%s" [] style = "numeric" -> ":n" [] style = "numeric_dollar" -> "$n"
                  [] style = "named" -> ":name" [] style = "pyformat" -> "%(name)s"
VARIABLES cs, out
vars == <<cs, out>>
\* the three theorems about one statement, evaluated once (the invariants below read the result)
Judge(N) == LET d == [s \in Styles |-> Deliver(s, N)]
                e == Expected(N)
                q == d["qmark"] IN
   [stmt |-> N,
    correct |-> \A s \in Styles : Resolve(s, d[s].sql, d[s].params) = e,
    exact |-> \A s \in Styles : Accepts(s, d[s].sql, d[s].params),
    \* sensitivity: exchanging two different positional parameters is always visible to Resolve
    swapseen |-> \A i, j \in 1..Len(q.params) : (i < j /\ q.params[i] # q.params[j]) =>
                     Resolve("qmark", q.sql, [q.params EXCEPT ![i] = q.params[j], ![j] = q.params[i]]) # e,
    qmark |-> q.params, numeric |-> d["numeric"].params]
\* model mode: Init prints the statement (single-threaded), the Judge step evaluates the theorems (TLC's workers share that work)
Init == \/ /\ Mode = "model" /\ cs \in Stmts
           /\ out = [stmt |-> Norm(cs)]
           /\ PrintT(ToJson(out))
        \/ /\ Mode = "names" /\ cs \in NameCases
           /\ out = [names |-> [i \in 1..3 |-> NamePool[cs[i]]], distinct |-> KeysDistinctFor(cs)]
           /\ PrintT(ToJson(out))
        \/ /\ Mode = "trace" /\ cs \in 1..Len(Traces)
           /\ out = [id |-> Traces[cs].id,
                     correct |-> Resolve(Traces[cs].style, Traces[cs].sql, Traces[cs].params) = TraceExpected(Traces[cs]),
                     accepts |-> Accepts(Traces[cs].style, Traces[cs].sql, Traces[cs].params),
                     style |-> LET phs == PhToks(Traces[cs].sql) IN \A i \in 1..Len(phs) : phs[i].sym = SymOf(Traces[cs].style)]
           /\ PrintT(ToJson(out))
Next == \/ /\ Mode = "model" /\ "correct" \notin DOMAIN out
           /\ out' = Judge(Norm(cs)) /\ UNCHANGED cs
        \/ /\ ~(Mode = "model" /\ "correct" \notin DOMAIN out) /\ UNCHANGED vars

Judged == Mode = "model" /\ "correct" \in DOMAIN out
DeliveryCorrect == Judged => out.correct
ParamsExact == Judged => out.exact
SwapSeen == Judged => out.swapseen
KeysDistinct == Mode = "names" => KeysDistinctFor(cs)
TraceStyle == Mode = "trace" => LET phs == PhToks(Traces[cs].sql) IN \A i \in 1..Len(phs) : phs[i].sym = SymOf(Traces[cs].style)
TraceCorrect == Mode = "trace" => out.correct
TraceAccepted == Mode = "trace" => out.accepts
=============================================================================
