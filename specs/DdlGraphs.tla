---------------------------- MODULE DdlGraphs ----------------------------
(* Foreign-key graphs of a MetaData (C14): the quantifier domain of the property, the facts derived from a
   graph that the expected outcomes depend on (declaratively, via reachability), and the expected catalogs.

   A graph G = [tb |-> set of tables, fk |-> set of foreign keys, ix |-> set of indexes [n, t]]
   A foreign key f = [n |-> name, s |-> referencing table, d |-> referenced table,
                      ua |-> use_alter flag, nm |-> the constraint has a name]           (more fields allowed)

   Stand-alone use (INIT GInit, NEXT GStutter): every set E of at most MaxEdges ordered pairs of tables
   (self pairs included) with every function  f : E -> 1..K  is one graph = one initial state (Sample = 0);
   with Sample > 0 a pseudo-random subset of Sample edge sets, each with one pseudo-random f (TLC -seed);
       f = 1 one FK   2 one FK with use_alter
           3 two FKs (the 2nd multi-column)   4 two FKs, 2nd use_alter   5 two FKs, both use_alter
   so K = 2, MaxEdges = N*N gives every edge set (self references, cycles, disconnected components) x every
   use_alter assignment; K = 5 adds two constraints between the same pair.  TLC checks GraphSane / PlanExists on every
   graph and prints one JSON case per graph; the driver builds the real MetaData from each case.
   TraceCatalog EXTENDS this module and evaluates the same operators on the graph recorded in each trace. *)
EXTENDS Catalog, Json, Randomization
CONSTANTS N, K, MaxEdges, Sample, Named
VARIABLE g

\* ---------------------------------------------------------------- derived facts (declarative)
\* dependency pairs <<referenced, referencing>>; a self reference is not a dependency
Dep(fks) == {<<f.d, f.s>> : f \in {f \in fks : f.s # f.d}}
RECURSIVE Reach(_, _, _)
Reach(E, frontier, seen) == LET nxt == {e[2] : e \in {e \in E : e[1] \in frontier}} \ seen
                            IN IF nxt = {} THEN seen ELSE Reach(E, nxt, seen \cup nxt)
OnCycle(E, n) == n \in Reach(E, {n}, {})
Cyclic(E) == \E e \in E : OnCycle(E, e[1])
Within(fks, ts) == {f \in fks : f.s \in ts /\ f.d \in ts}
\* what the table sort looks at: use_alter constraints are excluded by definition of use_alter
SortFks(G) == {f \in G.fk : ~f.ua}
SortDeps(G) == Dep(SortFks(G))
AllDeps(G) == Dep(G.fk)
\* subsets of the tables that can exist on their own with ALL their constraints / be dropped on their own
DownClosed(G, P) == P \subseteq G.tb /\ \A f \in G.fk : f.s \in P => f.d \in P
UpClosed(G, D) == D \subseteq G.tb /\ \A f \in G.fk : f.d \in D => f.s \in D
DownSets(G) == {P \in SUBSET G.tb : DownClosed(G, P)}
UpSets(G) == {D \in SUBSET G.tb : UpClosed(G, D)}
\* ---------------------------------------------------------------- expected catalogs
CatFk(f) == [n |-> f.n, s |-> f.s, d |-> f.d]
SubCat(G, P) == [tables |-> P, cons |-> {CatFk(f) : f \in {f \in G.fk : f.s \in P}}, idx |-> {i \in G.ix : i.t \in P}]
FullCat(G) == SubCat(G, G.tb)
\* ---------------------------------------------------------------- expected outcomes that depend on the graph
\* a backend without ALTER (SQLite) can only be held to a dependency-ordered DROP when the order exists:
\* every FK counted (they are all inline there), no cycle, and no use_alter (which removes the FK from the sort)
LiteStrictDrop(G) == ~Cyclic(AllDeps(G)) /\ \A f \in G.fk : ~f.ua
\* documented: DROP of a cycle needs named constraints (DROP CONSTRAINT); unnamed cycle among the tables ts
\* => CircularDependencyError("... have names so that they can be dropped using DROP CONSTRAINT")
DropRaisesCircular(G, ts) == Cyclic(Dep(Within({f \in G.fk : ~f.nm /\ ~f.ua}, ts)))
\* sorted_tables: permutation of the tables; referenced before referencing for every dependency of a table
\* that is not itself on a dependency cycle (for an acyclic graph: for every dependency)
Pos(order, t) == CHOOSE i \in 1..Len(order) : order[i] = t
IsPerm(order, S) == Len(order) = Cardinality(S) /\ {order[i] : i \in 1..Len(order)} = S
SortedRespects(G, order) == \A f \in SortFks(G) :
      (f.s # f.d /\ ~OnCycle(SortDeps(G), f.s)) => Pos(order, f.d) < Pos(order, f.s)

\* ---------------------------------------------------------------- enumeration
Tb == 1..N
Pairs == Tb \X Tb
Fk(p, k, ua, mc) == [n |-> <<p[1], p[2], k>>, s |-> p[1], d |-> p[2], k |-> k, ua |-> ua, mc |-> mc, nm |-> Named]
OptFks(p, o) == CASE o = 0 -> {}
                  [] o = 1 -> {Fk(p, 1, FALSE, FALSE)}
                  [] o = 2 -> {Fk(p, 1, TRUE, FALSE)}
                  [] o = 3 -> {Fk(p, 1, FALSE, FALSE), Fk(p, 2, FALSE, TRUE)}
                  [] o = 4 -> {Fk(p, 1, FALSE, FALSE), Fk(p, 2, TRUE, TRUE)}
                  [] o = 5 -> {Fk(p, 1, TRUE, FALSE), Fk(p, 2, TRUE, TRUE)}
GraphOf(opt) == [tb |-> Tb, fk |-> UNION {OptFks(p, opt[p]) : p \in Pairs}, ix |-> {[n |-> t, t |-> t] : t \in Tb}]
EdgeSets == {E \in SUBSET Pairs : Cardinality(E) <= MaxEdges}
Extend(E, f) == [p \in Pairs |-> IF p \in E THEN f[p] ELSE 0]
Case == [n |-> N, named |-> Named, fk |-> g.fk,
         down |-> DownSets(g), up |-> UpSets(g),
         sortcyclic |-> Cyclic(SortDeps(g)), allcyclic |-> Cyclic(AllDeps(g)),
         litestrict |-> LiteStrictDrop(g), dropraises |-> DropRaisesCircular(g, g.tb)]
GInit == /\ \/ Sample = 0 /\ \E E \in EdgeSets : \E f \in [E -> 1..K] : g = GraphOf(Extend(E, f))
            \/ Sample > 0 /\ \E E \in RandomSubset(Sample, EdgeSets) : \E f \in RandomSubset(1, [E -> 1..K]) : g = GraphOf(Extend(E, f))
         /\ cat = EmptyCat
         /\ PrintT(ToJson(Case))
GStutter == UNCHANGED <<g, cat>>

\* ---------------------------------------------------------------- checked on every enumerated graph
\* the expected catalogs are legal states of the enforcing catalog; closed subsets are dual
GraphSane == /\ NoDanglingOf(FullCat(g))
             /\ \A P \in DownSets(g) : NoDanglingOf(SubCat(g, P)) /\ (g.tb \ P) \in UpSets(g)
             /\ {} \in DownSets(g) /\ g.tb \in DownSets(g) /\ {} \in UpSets(g) /\ g.tb \in UpSets(g)
             /\ (LiteStrictDrop(g) => ~Cyclic(SortDeps(g)))
\* the property is satisfiable for every graph: some DDL order is accepted by the enforcing catalog
\* (all tables bare, every FK by ALTER; DROP CONSTRAINT everything, then the tables) and yields FullCat / EmptyCat
Bad == [tables |-> {-1}, cons |-> {}, idx |-> {}]
RECURSIVE PlanTables(_, _)
PlanTables(c, ts) == IF ts = {} \/ c = Bad THEN c
                     ELSE LET t == CHOOSE t \in ts : TRUE
                              i == CHOOSE i \in g.ix : i.t = t
                          IN IF OkCreateTable(PgMode, c, t, {}) /\ OkCreateIndex(DoCreateTable(c, t, {}), i)
                             THEN PlanTables(DoCreateIndex(DoCreateTable(c, t, {}), i), ts \ {t}) ELSE Bad
RECURSIVE PlanAdd(_, _)
PlanAdd(c, fs) == IF fs = {} \/ c = Bad THEN c
                  ELSE LET f == CHOOSE f \in fs : TRUE
                       IN IF OkAddConstraint(PgMode, c, CatFk(f)) THEN PlanAdd(DoAddConstraint(c, CatFk(f)), fs \ {f}) ELSE Bad
RECURSIVE PlanDropCons(_, _)
PlanDropCons(c, fs) == IF fs = {} \/ c = Bad THEN c
                       ELSE LET f == CHOOSE f \in fs : TRUE
                            IN IF OkDropConstraint(PgMode, c, f.s, f.n) THEN PlanDropCons(DoDropConstraint(c, f.s, f.n), fs \ {f}) ELSE Bad
RECURSIVE PlanDropTables(_, _)
PlanDropTables(c, ts) == IF ts = {} \/ c = Bad THEN c
                         ELSE LET t == CHOOSE t \in ts : TRUE
                              IN IF OkDropTable(PgMode, c, t) THEN PlanDropTables(DoDropTable(c, t), ts \ {t}) ELSE Bad
PlanExists == LET full == PlanAdd(PlanTables(EmptyCat, g.tb), g.fk)
              IN full = FullCat(g) /\ PlanDropTables(PlanDropCons(full, g.fk), g.tb) = EmptyCat
=============================================================================
