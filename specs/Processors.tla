---------------------------- MODULE Processors ----------------------------
(* engine/_processors_cy.py helpers that exist in a compiled and a pure-Python build (C55): tiny total functions, transcribed;
   every (function, input) is one initial state with its expected value.  Values are records [t, i, s]:
   t = "none" | "int" | "str" | "bool" | "err" (so TLC never compares a string with an integer). *)
EXTENDS Integers, Sequences, TLC, Json
VARIABLES fn, arg, exp
vars == <<fn, arg, exp>>
VNone == [t |-> "none", i |-> 0, s |-> ""]
VInt(k) == [t |-> "int", i |-> k, s |-> ""]
VStr(x) == [t |-> "str", i |-> 0, s |-> x]
VBool(b) == [t |-> "bool", i |-> IF b THEN 1 ELSE 0, s |-> ""]
VErr(x) == [t |-> "err", i |-> 0, s |-> x]
Ints == {VInt(k) : k \in {0 - 2, 0 - 1, 0, 1, 2}}
Strs == {VStr(x) : x \in {"", "0", "1", "12", "x"}}
IntToBoolean(v) == IF v.t = "none" THEN VNone ELSE VBool(v.i # 0)
Digit(d) == CASE d = 0 -> "0" [] d = 1 -> "1" [] d = 2 -> "2" [] OTHER -> "?"
ToStr(v) == IF v.t = "none" THEN VNone
            ELSE IF v.t = "int" THEN VStr(IF v.i < 0 THEN "-" \o Digit(0 - v.i) ELSE Digit(v.i))
            ELSE v
\* float(): ints map to themselves (compared numerically by the harness); digit strings parse, other strings raise ValueError
ToFloat(v) == IF v.t = "none" THEN VNone
              ELSE IF v.t = "int" THEN v
              ELSE CASE v.s = "0" -> VInt(0) [] v.s = "1" -> VInt(1) [] v.s = "12" -> VInt(12) [] OTHER -> VErr("ValueError")
Apply(f, v) == CASE f = "int_to_boolean" -> IntToBoolean(v) [] f = "to_str" -> ToStr(v) [] OTHER -> ToFloat(v)
Dom(f) == IF f = "int_to_boolean" THEN Ints \cup {VNone} ELSE Ints \cup Strs \cup {VNone}
Init == /\ fn \in {"int_to_boolean", "to_str", "to_float"} /\ arg \in Dom(fn) /\ exp = Apply(fn, arg)
        /\ PrintT(ToJson([fn |-> fn, arg |-> arg, exp |-> exp]))
Next == UNCHANGED vars
\* sanity theorems: None is preserved by every processor; int_to_boolean is total and two-valued on ints; to_str is idempotent
NonePreserved == arg.t = "none" => exp.t = "none"
BoolTwoValued == (fn = "int_to_boolean" /\ arg.t # "none") => exp.t = "bool"
ToStrIdempotent == fn = "to_str" => ToStr(exp) = exp
=============================================================================
