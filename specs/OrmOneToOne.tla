---------------------------- MODULE OrmOneToOne ----------------------------
(* C37 on a bidirectional ONE-TO-ONE pair P.child (uselist=False) <-> C.parent (back_populates), in memory.
   Mechanism = attributes._backref_listeners.emit_backref_from_scalar_set_event on both sides with the event tokens it tests:
   a set on one side (1) clears the other side of the value it replaces (impl.pop with check_old) and (2) sets the other side of
   the new value through child_impl.append(.., initiator) - and THAT nested set carries the original initiator, whose token equals
   the check_recursive_token of the first side, so the previous partner of the NEW value is never told.
     SetChild(p, c): child[p] := c;  parent[old child of p] := None (if it pointed at p);  parent[c] := p;  child[old parent of c] stays
     SetParent(c, p): parent[c] := p; child[old parent of c] := None (if it pointed at c); child[p] := c;   parent[old child of p] stays
   Both sides are kept loaded (objects built with child=None / parent=None). *)
EXTENDS Integers, Sequences, FiniteSets, TLC, Json
CONSTANTS Ps, Cs, MaxDepth
VARIABLES st, last
vars == <<st, last>>
None == "none"
InitSt == [child |-> [p \in Ps |-> None], parent |-> [c \in Cs |-> None],
           displaced |-> FALSE]     \* ghost: a value that already had a partner on the other side was assigned to a new one
DoSetChild(s, p, c) ==
   LET old == s.child[p]
       s1 == IF old # None /\ old # c /\ s.parent[old] = p THEN [s EXCEPT !.parent[old] = None] ELSE s
       s2 == IF c # None /\ old # c THEN [s1 EXCEPT !.parent[c] = p] ELSE s1
   IN [s2 EXCEPT !.child[p] = c, !.displaced = @ \/ (c # None /\ old # c /\ s.parent[c] \notin {None, p})]
DoSetParent(s, c, p) ==
   LET old == s.parent[c]
       s1 == IF old # None /\ old # p /\ s.child[old] = c THEN [s EXCEPT !.child[old] = None] ELSE s
       s2 == IF p # None /\ old # p THEN [s1 EXCEPT !.child[p] = c] ELSE s1
   IN [s2 EXCEPT !.parent[c] = p, !.displaced = @ \/ (p # None /\ old # p /\ s.child[p] \notin {None, c})]
SetChild == \E p \in Ps, c \in Cs \cup {None} : st' = DoSetChild(st, p, c) /\ last' = [a |-> "SetChild", arg |-> <<p, c>>, ret |-> "ok"]
SetParent == \E c \in Cs, p \in Ps \cup {None} : st' = DoSetParent(st, c, p) /\ last' = [a |-> "SetParent", arg |-> <<c, p>>, ret |-> "ok"]
Init == st = InitSt /\ last = [a |-> "init", arg |-> <<>>, ret |-> "ok"]
Next == SetChild \/ SetParent
Spec == Init /\ [][Next]_vars
View == st
Emit == PrintT(ToJson([from |-> st, act |-> last', to |-> st']))
InitEmit == Init /\ PrintT(ToJson([init |-> st]))
Depth == TLCGet("level") <= MaxDepth
\* C37: B is A's child exactly when A is B's parent
BothSides11 == \A p \in Ps, c \in Cs : (st.child[p] = c) <=> (st.parent[c] = p)
\* holds on every history in which no already-partnered value was handed to a new partner
BothSides11_NoDisplacement == ~st.displaced => BothSides11
TypeOK == (\A p \in Ps : st.child[p] \in Cs \cup {None}) /\ (\A c \in Cs : st.parent[c] \in Ps \cup {None})
=============================================================================
