---------------------------- MODULE ResultCursor ----------------------------
(* C10 - Result objects deliver exactly the underlying rows under any access pattern.

   Mechanism layer: engine/result.py + engine/_result_cy.py (row getters, _manyrow_getter top-up loop, _only_one_row)
   over the raw layer of engine/cursor.py (CursorFetchStrategy / BufferedRowCursorFetchStrategy /
   FullyBufferedCursorFetchStrategy / NoCursorDQLFetchStrategy) and of IteratorResult / ChunkedIteratorResult /
   MergedResult / FrozenResult.  Grown from DESIGN Appendix G.2.  One record `st`; every public call is a pure
   function st -> [st, ret, idx]; `idx` = raw row indexes the call handed to the caller (ghost, lives only in `last`).

   Abstract layer (the properties at the bottom): a plain list with a cursor - every raw row is handed out at most
   once and in order, what a call returns is the declaratively defined visible prefix (projected, de-duplicated), a row
   may be skipped only as a duplicate under the caller's unique filter or by a call documented to discard (first/one/
   scalar*/close), nothing is delivered after close, exception classes of one()/first()/scalar_one().

   The program under test holds a base Result `b`, at most one filtered view `v` (ScalarResult / MappingResult) and at most one
   iterator object `it` (iter(b) / iter(v)) that it resumes between other calls.
   Named deviations (pinned-tree behaviour that contradicts the property; FALSE = documented behaviour):
     DevViewUniqueStale  ScalarResult/MappingResult.unique() keeps the memoized row getters
     DevFullFetchmany0   FullyBufferedCursorFetchStrategy.fetchmany(0) soft-closes although rows remain
   (three further defects of the pinned tree - MergedResult never hard-closed, iterators resumed after close/exhaustion - have no
   deviation constant: the spec states the documented behaviour and the replay reports them, see known_findings.d/C10.json)
   Families (how closure is reported is a per-family fact, not idealised):
     iter-backed ("iter","chunk","merged"): fetchmany never closes; first()/one() hard-close even when already exhausted
     cursor-backed ("default","buffered","full"): attached/soft/hard; once soft, hard_close requests of fetchone are ignored *)
EXTENDS Integers, Sequences, FiniteSets, TLC, Json
CONSTANTS MaxRows, MaxDepth,
          Hi, NDom,      \* rows are pairs over {0, Hi}; NDom = 2 or 3 distinct rows
          UVals,         \* unhashable values ({} or {Hi}): hashing a tuple containing one raises TypeError
          Fams,          \* initial implementation configurations: "iter" "chunk" "default" "full" "buffered<max_row_buffer>_<growth_factor>"
          Ops, ViewOps,  \* scenario: action names enabled on the base Result / on the filtered view
          Sizes, PSizes, \* fetchmany / partitions sizes; SzNone stands for "no size given"
          DevViewUniqueStale, DevFullFetchmany0
VARIABLES st, last
vars == <<st, last>>
SzNone == 99
RowDom == IF NDom = 2 THEN {<<0, 0>>, <<Hi, 0>>} ELSE {<<0, 0>>, <<0, Hi>>, <<Hi, 0>>}
Min(a, b) == IF a < b THEN a ELSE b
IsIter(f) == f \in {"iter", "chunk", "merged"}
NoView == [kind |-> "none", uniq |-> FALSE, ustr |-> FALSE, own |-> FALSE, seen |-> {}, proj |-> <<1, 2>>]
NoMemo == [one |-> "unset", many |-> "unset", it |-> "unset"]
FamOf(c) == IF c \in {"iter", "chunk", "default", "full"} THEN c ELSE "buffered"
BufMaxOf(c) == CASE c = "buffered1_5" -> 1 [] c = "buffered2_5" -> 2 [] c \in {"buffered3_5", "buffered3_2"} -> 3 [] OTHER -> 0
GrowthOf(c) == CASE c = "buffered3_2" -> 2 [] c \in {"buffered1_5", "buffered2_5", "buffered3_5"} -> 5 [] OTHER -> 0
InitSt(rows, c) == [cfg |-> c, rows |-> rows, orig |-> rows, pos |-> 0, state |-> "attached", fam |-> FamOf(c),
                    buf |-> IF FamOf(c) = "buffered" THEN Min(1, Len(rows)) ELSE 0,          \* the strategy pre-fetches one row
                    bufsize |-> IF GrowthOf(c) > 0 THEN Min(BufMaxOf(c), GrowthOf(c)) ELSE BufMaxOf(c),
                    maxbuf |-> BufMaxOf(c), growth |-> GrowthOf(c),
                    yp |-> 0, b |-> [uniq |-> FALSE, ustr |-> FALSE, seen |-> {}, proj |-> <<1, 2>>],
                    v |-> NoView, vm |-> NoMemo, it |-> "none", frozen |-> FALSE, broken |-> FALSE]
Remaining(s) == Len(s.rows) - s.pos
\* ---------------------------------------------------------------- return values
RV(k, rows, err) == [k |-> k, rows |-> rows, err |-> err]
ROk == RV("ok", <<>>, "")
RNone == RV("none", <<>>, "")
RErr(e) == RV("err", <<>>, e)
Res(s, ret, idx) == [st |-> s, ret |-> ret, idx |-> idx]
\* ---------------------------------------------------------------- handles
HU(s, h) == IF h = "b" THEN s.b.uniq ELSE s.v.uniq
Alias(s, h) == h = "b" \/ ~s.v.own                       \* a view created from a unique()d Result shares its seen-set object
HSeen(s, h) == IF Alias(s, h) THEN s.b.seen ELSE s.v.seen
SetSeen(s, h, S) == IF Alias(s, h) THEN [s EXCEPT !.b.seen = S] ELSE [s EXCEPT !.v.seen = S]
HStr(s, h) == IF Alias(s, h) THEN s.b.ustr ELSE s.v.ustr
HProj(s, h) == IF h = "b" THEN s.b.proj ELSE s.v.proj
ProjW(p, r) == [k \in 1..Len(p) |-> r[p[k]]]
Val(s, h, i) == ProjW(HProj(s, h), s.rows[i])
Vals(s, h, idx) == [k \in 1..Len(idx) |-> Val(s, h, idx[k])]
Unhashable(s, h, i) == UVals # {} /\ ~HStr(s, h) /\ \E k \in 1..Len(HProj(s, h)) : Val(s, h, i)[k] \in UVals
\* Ghost: which row getters (_onerow_getter / _manyrow_getter / _iterator_getter) the view has memoized and with which
\* unique flag (the base Result drops its memoizations in every generative call; history diversity there comes from random walks).  The documented behaviour does not depend on it (EffU = HU unless the named deviation is switched on), but it is
\* hidden state of the implementation, so it is part of the state: the edge tours then reach every call both with and without
\* a previously memoized getter.  Generative calls drop the memoizations (@_generative -> _generate); under DevViewUniqueStale
\* ScalarResult/MappingResult.unique() does not.
EffU(s, h, which) == IF DevViewUniqueStale /\ h = "v" /\ s.vm[which] # "unset" THEN s.vm[which] = "uniq" ELSE HU(s, h)
Memo(s, h, which) == IF h = "v" /\ s.vm[which] = "unset" THEN [s EXCEPT !.vm[which] = IF HU(s, h) THEN "uniq" ELSE "plain"] ELSE s
\* ---------------------------------------------------------------- raw layer: [st, out (raw indexes), err]
\* (the ghost memo flags are dropped on close: with no rows left they cannot matter any more)
CloseTo(s, hard) == [s EXCEPT !.state = IF hard THEN "hard" ELSE (IF @ = "attached" THEN "soft" ELSE @), !.pos = Len(s.rows), !.buf = 0,
                              !.vm = NoMemo]
Raw(s, out, err) == [st |-> s, out |-> out, err |-> err]
RCE == "ResourceClosedError"
Idx(a, b) == [k \in 1..(b - a + 1) |-> a + k - 1]          \* <<a, ..., b>> (empty when b < a)
RawOne(s, hard) ==
  IF s.fam = "buffered" /\ s.state = "attached" THEN
     LET need == s.buf = 0
         size == s.bufsize
         new == IF need THEN (IF size < 1 THEN Remaining(s) ELSE Min(size, Remaining(s))) ELSE 0
         buf1 == IF need THEN new ELSE s.buf
         bs1 == IF need /\ new > 0 /\ s.growth > 0 /\ size < s.maxbuf THEN Min(s.maxbuf, size * s.growth) ELSE s.bufsize
     IN IF buf1 = 0 THEN Raw(CloseTo(s, hard), <<>>, "")
        ELSE Raw([s EXCEPT !.buf = buf1 - 1, !.bufsize = bs1, !.pos = @ + 1], <<s.pos + 1>>, "")
  ELSE IF s.state = "hard" THEN Raw(s, <<>>, RCE)
  ELSE IF s.state = "soft" THEN Raw(IF IsIter(s.fam) /\ hard THEN [s EXCEPT !.state = "hard"] ELSE s, <<>>, "")
  ELSE IF s.pos < Len(s.rows) THEN Raw([s EXCEPT !.pos = @ + 1], <<s.pos + 1>>, "")
  ELSE Raw(CloseTo(s, hard), <<>>, "")
\* `for raw_row in self.iterator` inside the iterator-backed generator: exhaustion does not call _soft_close
RawIterOne(s) ==
  IF ~IsIter(s.fam) THEN RawOne(s, FALSE)
  ELSE IF s.state = "hard" THEN Raw(s, <<>>, RCE)
  ELSE IF s.state = "attached" /\ s.pos < Len(s.rows) THEN Raw([s EXCEPT !.pos = @ + 1], <<s.pos + 1>>, "")
  ELSE Raw(s, <<>>, "")
RawAll(s) ==
  IF s.state = "hard" THEN Raw(s, <<>>, RCE)
  ELSE IF s.state = "soft" THEN Raw(s, <<>>, "")
  ELSE Raw(CloseTo(s, FALSE), Idx(s.pos + 1, Len(s.rows)), "")
Take(s, n) == LET k == Min(n, Remaining(s)) IN Raw([s EXCEPT !.pos = @ + k], Idx(s.pos + 1, s.pos + k), "")
CloseIfEmpty(t) == IF t.out = <<>> THEN [t EXCEPT !.st = CloseTo(t.st, FALSE)] ELSE t
RawMany(s, n) ==
  IF s.state = "hard" THEN Raw(s, <<>>, RCE)
  ELSE IF s.state = "soft" THEN Raw(s, <<>>, "")
  ELSE IF IsIter(s.fam) THEN (IF n = SzNone THEN Take(s, Remaining(s)) ELSE Take(s, n))        \* islice: never closes
  ELSE IF s.fam = "default" THEN CloseIfEmpty(Take(s, IF n = SzNone THEN 1 ELSE n))          \* dbapi arraysize = 1
  ELSE IF n = SzNone THEN RawAll(s)
  ELSE IF s.fam = "buffered" THEN
       LET dbside == Remaining(s) - s.buf
           new == IF n > s.buf THEN Min(n - s.buf, dbside) ELSE -1
           buf1 == IF new > 0 THEN s.buf + new ELSE s.buf
           take == Min(n, buf1)
           s1 == [s EXCEPT !.pos = @ + take, !.buf = buf1 - take]
       IN Raw(IF new = 0 THEN CloseTo(s1, FALSE) ELSE s1, Idx(s.pos + 1, s.pos + take), "")
  ELSE \* "full"
       LET t == Take(s, n) IN
       IF t.out = <<>> /\ (DevFullFetchmany0 \/ Remaining(s) = 0) THEN [t EXCEPT !.st = CloseTo(t.st, FALSE)] ELSE t
\* ---------------------------------------------------------------- result layer
TypeErr(s) == Res([s EXCEPT !.broken = TRUE], RErr("TypeError"), <<>>)
RECURSIVE UniqFilter(_, _, _, _, _)
UniqFilter(s, h, idx, seen, acc) ==
  IF idx = <<>> THEN [seen |-> seen, out |-> acc, fail |-> FALSE]
  ELSE LET i == Head(idx) IN
       IF Unhashable(s, h, i) THEN [seen |-> seen, out |-> acc, fail |-> TRUE]
       ELSE IF Val(s, h, i) \in seen THEN UniqFilter(s, h, Tail(idx), seen, acc)
       ELSE UniqFilter(s, h, Tail(idx), seen \cup {Val(s, h, i)}, Append(acc, i))
RECURSIVE FetchOneU(_, _, _, _)
FetchOneU(s, h, u, gen) ==                 \* gen: through the iterator getter (generator) instead of the onerow getter
  LET r == IF gen THEN RawIterOne(s) ELSE RawOne(s, FALSE) IN
  IF r.err # "" THEN Res(r.st, RErr(r.err), <<>>)
  ELSE IF r.out = <<>> THEN Res(r.st, RNone, <<>>)
  ELSE LET i == r.out[1] IN
       IF ~u THEN Res(r.st, RV("row", <<Val(s, h, i)>>, ""), <<i>>)
       ELSE IF Unhashable(s, h, i) THEN TypeErr(r.st)
       ELSE IF Val(s, h, i) \in HSeen(r.st, h) THEN FetchOneU(r.st, h, u, gen)
       ELSE Res(SetSeen(r.st, h, HSeen(r.st, h) \cup {Val(s, h, i)}), RV("row", <<Val(s, h, i)>>, ""), <<i>>)
DoFetchOne(s, h) == LET s0 == Memo(s, h, "one") IN FetchOneU(s0, h, EffU(s, h, "one"), FALSE)
Stop(r) == IF r.ret.k = "none" THEN [r EXCEPT !.ret = RErr("StopIteration")] ELSE r
DoNext(s, h) == Stop(DoFetchOne(s, h))
DoIterStep(s, h) == LET s0 == Memo(s, h, "it") IN Stop(FetchOneU(s0, h, EffU(s, h, "it"), TRUE))
\* An iterator object held by the program across other calls (`it = iter(r)` ... `next(it)`):  it \in none | <h>0 (created, generator
\* not started) | <h>1 (started) | dead (it raised once: a finished generator only raises StopIteration).  Documented behaviour: the same as
\* a fresh iteration step - rows of the list model, StopIteration on exhaustion, ResourceClosedError once the result is closed.
ItHandle(s) == IF s.it \in {"b0", "b1"} THEN "b" ELSE "v"
DoIter(s, h) == Res([Memo(s, h, "it") EXCEPT !.it = h \o "0"], ROk, <<>>)
DoItNext(s) == IF s.it = "dead" THEN Res(s, RErr("StopIteration"), <<>>)
               ELSE LET r == DoIterStep(s, ItHandle(s)) IN [r EXCEPT !.st.it = IF r.ret.k = "err" THEN "dead" ELSE ItHandle(s) \o "1"]
\* the program drops its iterator when it re-generates the object it came from
DropIt(name, h, s) == IF name \in {"Freeze", "Merge", "YieldPer"} \/ (name \in {"Unique", "Columns"} /\ s.it \in {h \o "0", h \o "1"})
                      THEN [s EXCEPT !.it = "none"] ELSE s
RowsRes(s, h, idx) == Res(s, RV("rows", Vals(s, h, idx), ""), idx)
RECURSIVE TopUp(_, _, _, _, _)
TopUp(s, h, n, collect, fuel) ==
  IF fuel = 0 \/ Len(collect) >= n THEN RowsRes(s, h, collect)
  ELSE LET r == RawMany(s, n - Len(collect)) IN
       IF r.err # "" THEN Res(r.st, RErr(r.err), <<>>)
       ELSE IF r.out = <<>> THEN RowsRes(r.st, h, collect)
       ELSE LET f == UniqFilter(r.st, h, r.out, HSeen(r.st, h), collect) IN
            IF f.fail THEN TypeErr(r.st) ELSE TopUp(SetSeen(r.st, h, f.seen), h, n, f.out, fuel - 1)
DoFetchMany(s, h, n) ==
  LET u == EffU(s, h, "many")
      s0 == Memo(s, h, "many")
      num == IF n = SzNone /\ s.yp > 0 THEN s.yp ELSE n
  IN IF ~u THEN LET r == RawMany(s0, num) IN IF r.err # "" THEN Res(r.st, RErr(r.err), <<>>) ELSE RowsRes(r.st, h, r.out)
     ELSE IF num = SzNone THEN       \* the size is whatever the first raw fetchmany() returns
          LET r == RawMany(s0, SzNone) IN
          IF r.err # "" THEN Res(r.st, RErr(r.err), <<>>)
          ELSE LET f == UniqFilter(r.st, h, r.out, HSeen(r.st, h), <<>>) IN
               IF f.fail THEN TypeErr(r.st) ELSE TopUp(SetSeen(r.st, h, f.seen), h, Len(r.out), f.out, 2 * MaxRows + 1)
     ELSE TopUp(s0, h, num, <<>>, 2 * MaxRows + 1)
DoPartition(s, h, n) == LET r == DoFetchMany(s, h, n) IN
  IF r.ret.k = "rows" /\ r.ret.rows = <<>> THEN [r EXCEPT !.ret = RErr("StopIteration")] ELSE r
DoAll(s, h) == LET r == RawAll(s) IN
  IF r.err # "" THEN Res(r.st, RErr(r.err), <<>>)
  ELSE IF HU(s, h) THEN LET f == UniqFilter(r.st, h, r.out, HSeen(r.st, h), <<>>) IN
                        IF f.fail THEN TypeErr(r.st) ELSE RowsRes(SetSeen(r.st, h, f.seen), h, f.out)
  ELSE RowsRes(r.st, h, r.out)
OneRet(s, h, i, scalar) == IF scalar THEN RV("scalar", <<<<Val(s, h, i)[1]>>>>, "") ELSE RV("row", <<Val(s, h, i)>>, "")
DoFirst(s, h, scalar) == LET r == RawOne(s, TRUE) IN
  IF r.err # "" THEN Res(r.st, RErr(r.err), <<>>)
  ELSE IF r.out = <<>> THEN Res(r.st, RNone, <<>>)
  ELSE Res(CloseTo(r.st, TRUE), OneRet(s, h, r.out[1], scalar), r.out)
RECURSIVE SkipEqual(_, _, _)
SkipEqual(s, h, first) == LET r == RawOne(s, TRUE) IN
  IF r.err # "" \/ r.out = <<>> THEN r
  ELSE IF HU(s, h) /\ Val(s, h, r.out[1]) = first THEN SkipEqual(r.st, h, first) ELSE r
DoOne(s, h, orNone, scalar) == LET r == RawOne(s, TRUE) IN
  IF r.err # "" THEN Res(r.st, RErr(r.err), <<>>)
  ELSE IF r.out = <<>> THEN Res(r.st, IF orNone THEN RNone ELSE RErr("NoResultFound"), <<>>)
  ELSE LET nx == SkipEqual(r.st, h, Val(s, h, r.out[1])) IN
       IF nx.err # "" THEN Res(nx.st, RErr(nx.err), <<>>)
       ELSE IF nx.out # <<>> THEN Res(CloseTo(nx.st, TRUE), RErr("MultipleResultsFound"), <<>>)
       ELSE Res(nx.st, OneRet(s, h, r.out[1], scalar), r.out)
\* ---- generative / view-creating calls (never raise, also on a closed result)
DoUnique(s, h, strat) ==
  IF h = "b" THEN Res([s EXCEPT !.b.uniq = TRUE, !.b.ustr = strat, !.b.seen = {}], ROk, <<>>)
  ELSE Res([s EXCEPT !.v.uniq = TRUE, !.v.own = TRUE, !.v.ustr = strat, !.v.seen = {}], ROk, <<>>)     \* vm survives (ghost / deviation)
DoScalars(s, i) == Res([s EXCEPT !.v = [kind |-> "scalars", uniq |-> s.b.uniq, ustr |-> s.b.ustr, own |-> FALSE, seen |-> {},
                                              proj |-> <<s.b.proj[i]>>], !.vm = NoMemo], ROk, <<>>)
DoMappings(s) == Res([s EXCEPT !.v = [kind |-> "mappings", uniq |-> s.b.uniq, ustr |-> s.b.ustr, own |-> FALSE, seen |-> {},
                                            proj |-> s.b.proj], !.vm = NoMemo], ROk, <<>>)
ColSels == {<<1>>, <<2>>, <<2, 1>>}
DoColumns(s, sel) == Res([s EXCEPT !.b.proj = [k \in 1..Len(sel) |-> s.b.proj[sel[k]]]], ROk, <<>>)
DoYieldPer(s, n) ==
  LET s1 == [s EXCEPT !.yp = n, !.vm = NoMemo]
      s2 == IF s1.state # "attached" THEN s1
            ELSE IF s1.fam = "default" THEN [s1 EXCEPT !.fam = "buffered", !.buf = 0, !.bufsize = n, !.maxbuf = n, !.growth = 0]
            ELSE IF s1.fam = "buffered" THEN [s1 EXCEPT !.bufsize = n, !.maxbuf = n, !.growth = 0]
            ELSE s1
  IN Res(s2, ROk, <<>>)
DoClose(s) == Res(CloseTo(s, TRUE), ROk, <<>>)
Ident(w) == [k \in 1..w |-> k]
\* freeze() consumes the result through fetchall() (projection and unique filter applied); the program continues with a thawed copy
DoFreeze(s) == LET a == DoAll(s, "b") IN
  IF a.ret.k = "err" THEN a
  ELSE LET w == Len(s.b.proj)
           nr == a.ret.rows
       IN Res([a.st EXCEPT !.rows = nr, !.orig = nr, !.pos = 0, !.state = "attached", !.fam = "iter", !.buf = 0, !.bufsize = 0,
                          !.maxbuf = 0, !.growth = 0, !.yp = 0, !.b = [uniq |-> FALSE, ustr |-> FALSE, seen |-> {}, proj |-> Ident(w)],
                          !.v = [NoView EXCEPT !.proj = Ident(w)], !.vm = NoMemo, !.frozen = TRUE], RV("rows", nr, ""), <<>>)
\* r.merge(sibling): raw remaining rows of r followed by the rows of a fresh sibling result; unique state, yield_per and metadata of r
DoMerge(s) == Res([s EXCEPT !.rows = SubSeq(s.rows, s.pos + 1, Len(s.rows)) \o s.orig, !.pos = 0, !.state = "attached", !.fam = "merged",
                            !.buf = 0, !.bufsize = 0, !.maxbuf = 0, !.growth = 0, !.v = [NoView EXCEPT !.proj = s.b.proj], !.vm = NoMemo], ROk, <<>>)
\* ---------------------------------------------------------------- actions
On(a, h) == (IF h = "b" THEN a \in Ops ELSE a \in ViewOps) /\ ~st.broken
Step(name, h, arg, res) == st' = DropIt(name, h, res.st) /\ last' = [a |-> name, h |-> h, arg |-> arg, ret |-> res.ret, idx |-> res.idx]
Handles == IF st.v.kind = "none" THEN {"b"} ELSE {"b", "v"}
\* sqlite3's own cursor.fetchmany(0) returns every row (driver semantics): excluded where the call reaches the driver
ReachesDriver0(h, n, which) == n = 0 /\ st.fam = "default" /\ st.state = "attached" /\ ~EffU(st, h, which)
\* every generative call is bounded structurally: unique() once per handle, one view, columns() once per (thawed) result,
\* yield_per() once, freeze() once, merge() once
Next ==
  \/ \E h \in Handles :
       \/ On("FetchOne", h) /\ (h = "b" \/ st.v.kind = "mappings") /\ Step("FetchOne", h, 0, DoFetchOne(st, h))
       \/ On("Next", h) /\ Step("Next", h, 0, DoNext(st, h))
       \/ On("IterStep", h) /\ Step("IterStep", h, 0, DoIterStep(st, h))
       \/ On("Iter", h) /\ Step("Iter", h, 0, DoIter(st, h))
       \/ On("FetchMany", h) /\ \E n \in Sizes : ~ReachesDriver0(h, n, "many") /\ Step("FetchMany", h, n, DoFetchMany(st, h, n))
       \/ On("Partitions", h) /\ \E n \in PSizes : ~ReachesDriver0(h, n, "many") /\ Step("Partitions", h, n, DoPartition(st, h, n))
       \/ On("All", h) /\ Step("All", h, 0, DoAll(st, h))
       \/ On("First", h) /\ Step("First", h, 0, DoFirst(st, h, FALSE))
       \/ On("One", h) /\ Step("One", h, 0, DoOne(st, h, FALSE, FALSE))
       \/ On("OneOrNone", h) /\ Step("OneOrNone", h, 0, DoOne(st, h, TRUE, FALSE))
       \/ On("Unique", h) /\ (IF h = "b" THEN ~st.b.uniq ELSE ~st.v.own)
            /\ \E strat \in (IF UVals = {} THEN {FALSE} ELSE {FALSE, TRUE}) : Step("Unique", h, IF strat THEN 1 ELSE 0, DoUnique(st, h, strat))
       \/ On("Close", h) /\ Step("Close", h, 0, DoClose(st))
       \/ On("YieldPer", h) /\ st.yp = 0 /\ (h = "v" \/ st.v.kind = "none") /\ (st.fam = "chunk" => st.pos = 0)
            /\ \E n \in {1, 2} : Step("YieldPer", h, n, DoYieldPer(st, n))
  \/ On("ItNext", "b") /\ st.it # "none" /\ Step("ItNext", ItHandle(st), 0, DoItNext(st))
  \/ On("Scalar", "b") /\ Step("Scalar", "b", 0, DoFirst(st, "b", TRUE))
  \/ On("ScalarOne", "b") /\ Step("ScalarOne", "b", 0, DoOne(st, "b", FALSE, TRUE))
  \/ On("ScalarOneOrNone", "b") /\ Step("ScalarOneOrNone", "b", 0, DoOne(st, "b", TRUE, TRUE))
  \/ On("Scalars", "b") /\ st.v.kind = "none" /\ \E i \in 1..Len(st.b.proj) : Step("Scalars", "b", i, DoScalars(st, i))
  \/ On("Mappings", "b") /\ st.v.kind = "none" /\ Step("Mappings", "b", 0, DoMappings(st))
  \/ On("Tuples", "b") /\ Step("Tuples", "b", 0, Res(st, ROk, <<>>))
  \/ On("Columns", "b") /\ st.b.proj = <<1, 2>> /\ \E sel \in ColSels : Step("Columns", "b", sel, DoColumns(st, sel))
  \/ On("Freeze", "b") /\ ~st.frozen /\ Step("Freeze", "b", 0, DoFreeze(st))
  \/ On("Merge", "b") /\ st.fam # "merged" /\ st.state # "hard" /\ Step("Merge", "b", 0, DoMerge(st))
RowSeqs == UNION {[1..k -> RowDom] : k \in 0..MaxRows}
Init == st \in {InitSt(r, c) : r \in RowSeqs, c \in Fams} /\ last = [a |-> "init", h |-> "b", arg |-> 0, ret |-> ROk, idx |-> <<>>]
Spec == Init /\ [][Next]_vars
View == st
Depth == TLCGet("level") <= MaxDepth + 1        \* MaxDepth = calls per walk
Drain(s) == IF s.broken THEN RErr("broken") ELSE DoAll(s, "b").ret
Obs(s) == [closed |-> s.state = "hard", drain |-> Drain(s)]
Emit == PrintT(ToJson([from |-> st, act |-> last', to |-> st', obs |-> Obs(st')]))
InitEmit == Init /\ PrintT(ToJson([init |-> st]))
\* ================================================================ the abstract property (list with a cursor)
Fetching == {"FetchOne", "Next", "IterStep", "ItNext", "FetchMany", "Partitions", "All"}
OnlyOne == {"First", "One", "OneOrNone", "Scalar", "ScalarOne", "ScalarOneOrNone"}
Reshaping == {"Freeze", "Merge"}
IsErr(r) == r.k = "err" /\ r.err # "StopIteration"
Range(q) == {q[k] : k \in 1..Len(q)}
Increasing(q) == \A k \in 2..Len(q) : q[k] > q[k - 1]
TypeOK == st.pos \in 0..Len(st.rows) /\ st.buf >= 0 /\ st.pos + st.buf <= Len(st.rows) /\ st.state \in {"attached", "soft", "hard"}
          /\ (st.state # "attached" => st.pos = Len(st.rows) /\ st.buf = 0)
\* C10 "every row is delivered once, in order": positions only move forward and a call hands out rows only from the range it consumed
PosMonotone == [][last'.a \notin Reshaping => (st'.rows = st.rows /\ st'.pos >= st.pos)]_vars
DeliveredOnceInOrder == [][last'.a \notin Reshaping =>
      LET d == last'.idx IN Increasing(d) /\ (\A k \in 1..Len(d) : d[k] > st.pos /\ d[k] <= st'.pos)
                            /\ (last'.ret.k \in {"rows", "row"} => last'.ret.rows = Vals(st, last'.h, d))
                            /\ (last'.ret.k = "scalar" => Len(d) = 1 /\ last'.ret.rows = <<<<Val(st, "b", d[1])[1]>>>>)]_vars
ErrorsDeliverNothing == [][last'.ret.k \in {"err", "none", "ok"} => last'.idx = <<>>]_vars
\* "closure is reported as documented": hard close is final, fetches then raise ResourceClosedError or deliver nothing
ClosedIsFinal == [][(st.state = "hard" /\ last'.a \notin Reshaping) => st'.state = "hard"]_vars
NothingAfterHard == [][(st.state = "hard" /\ last'.a \in (Fetching \cup OnlyOne)) =>
                         (last'.idx = <<>> /\ (last'.ret = RErr(RCE) \/ (last'.ret.k = "rows" /\ last'.ret.rows = <<>>)
                                                \/ (last'.a = "Partitions" /\ last'.arg = 0 /\ last'.ret = RErr("StopIteration"))
                                                \/ (last'.a = "ItNext" /\ st.it = "dead" /\ last'.ret = RErr("StopIteration"))))]_vars
\* the visible rows of a handle, declaratively: all remaining raw rows, minus (under unique) values already seen / repeated
Rem(s) == IF s.state = "attached" THEN (s.pos + 1)..Len(s.rows) ELSE {}
Vis(s, h, u) == {i \in Rem(s) : ~u \/ (Val(s, h, i) \notin HSeen(s, h) /\ \A j \in Rem(s) : j < i => Val(s, h, j) # Val(s, h, i))}
FirstN(S, n) == {i \in S : Cardinality({j \in S : j < i}) < n}
ListModel == [][(last'.a \in Fetching /\ ~IsErr(last'.ret)) =>
      LET h == last'.h  d == Range(last'.idx)
          vis == Vis(st, h, EffU(st, h, IF last'.a \in {"FetchMany", "Partitions"} THEN "many" ELSE IF last'.a \in {"IterStep", "ItNext"} THEN "it" ELSE "one"))
      IN CASE last'.a \in {"FetchOne", "Next", "IterStep", "ItNext"} -> d = FirstN(vis, 1)
           [] last'.a = "All" -> d = Vis(st, h, HU(st, h))
           [] OTHER -> IF last'.arg # SzNone THEN d = FirstN(vis, last'.arg)
                       ELSE IF st.yp > 0 THEN d = FirstN(vis, st.yp)
                       ELSE (\E n \in 0..Len(st.rows) : d = FirstN(vis, n)) /\ (vis # {} => d # {})]_vars
\* what the view's unique() asks for, irrespective of memoized getters (violated under DevViewUniqueStale)
UniqueRespected == [][(last'.a \in Fetching /\ HU(st, last'.h) /\ ~IsErr(last'.ret)) =>
      LET vals == Vals(st, last'.h, last'.idx) IN
        (\A k \in 1..Len(vals) : vals[k] \notin HSeen(st, last'.h) /\ \A j \in 1..(k - 1) : vals[j] # vals[k])
        /\ Range(vals) \subseteq HSeen(st', last'.h)]_vars
\* a row is skipped only as a duplicate under the caller's unique filter (violated under DevFullFetchmany0)
NoSilentLoss == [][(last'.a \in Fetching /\ ~IsErr(last'.ret)) =>
      \A i \in (st.pos + 1)..st'.pos : i \in Range(last'.idx) \/ (HU(st, last'.h) /\ Val(st, last'.h, i) \in HSeen(st', last'.h))]_vars
\* first() / one() / one_or_none() / scalar*(): value, exception class, discard-and-close
OnlyOneSemantics == [][last'.a \in OnlyOne =>
      LET h == last'.h  rem == Rem(st)
          distinct == {Val(st, h, i) : i \in rem}
          many == IF HU(st, h) THEN Cardinality(distinct) > 1 ELSE Cardinality(rem) > 1
          strict == last'.a \in {"One", "OneOrNone", "ScalarOne", "ScalarOneOrNone"}
          raises == last'.a \in {"One", "ScalarOne"}
      IN IF st.state = "hard" THEN last'.ret = RErr(RCE)
         ELSE IF rem = {} THEN last'.ret = (IF raises THEN RErr("NoResultFound") ELSE RNone)
                               /\ (st'.state = "hard" \/ (~IsIter(st.fam) /\ st.state = "soft" /\ st'.state = "soft"))
         ELSE IF strict /\ many THEN last'.ret = RErr("MultipleResultsFound") /\ st'.state = "hard"
         ELSE last'.idx = <<st.pos + 1>> /\ st'.state = "hard" /\ st'.pos = Len(st.rows)]_vars
\* all()/fetchall() exhausts and (soft-)closes; close() hard-closes; generative calls move nothing
AllCloses == [][(last'.a = "All" /\ ~IsErr(last'.ret)) => (st'.pos = Len(st.rows) /\ st'.state # "attached")]_vars
CloseCloses == [][last'.a = "Close" => st'.state = "hard"]_vars
GenerativeMovesNothing == [][last'.a \in {"Unique", "Scalars", "Mappings", "Tuples", "Columns", "YieldPer", "Iter"} =>
                               (st'.pos = st.pos /\ st'.state = st.state /\ st'.rows = st.rows /\ last'.ret = ROk)]_vars
\* freeze()/merge() keep exactly the rows the list model says remain
FreezeKeepsVisible == [][(last'.a = "Freeze" /\ last'.ret.k = "rows") =>
      LET vis == Vis(st, "b", st.b.uniq) IN
        Len(st'.rows) = Cardinality(vis) /\ st'.pos = 0
        /\ \A i \in vis : st'.rows[Cardinality({j \in vis : j <= i})] = Val(st, "b", i)]_vars
MergeKeepsRemaining == [][last'.a = "Merge" => st'.rows = SubSeq(st.rows, st.pos + 1, Len(st.rows)) \o st.orig /\ st'.pos = 0]_vars
=============================================================================
