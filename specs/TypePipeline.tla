---------------------------- MODULE TypePipeline ----------------------------
(* C09, clause 2: a column type's bind / result processing is applied exactly once per value, in order, however the column is
   nested (labels, subqueries, CTEs, unions, scalar subqueries, RETURNING, ORM loading) and however the value is written
   (VALUES, parameters, executemany, insertmanyvalues + RETURNING, literal rendering, Python-side defaults, UPDATE, ORM flush).

   The pipeline of ONE value as a machine.  A case is (type configuration, write context, read path); the value starts as the
   bare token and every processing stage appends its tag:
       Python side, write   b:<decorator> outermost first, then b:P when the impl type has dialect-level processors
                            (l:<..> instead of b:<..> when the statement is rendered with literal values)
       SQL side, write      BE   TypeEngine.bind_expression wrapped around the placeholder
       (stored)
       SQL side, read       CE   TypeEngine.column_expression wrapped around the column in the columns clause
       Python side, read    r:P, then r:<decorator> innermost first
   Where CE is rendered is a MECHANISM (SQLCompiler.visit_select / visit_compound_select): a SELECT wraps its columns when it is
   the top-level statement or a member of a compound that "needs the result map"; FROM-subqueries, CTEs and scalar subqueries
   below it do not.  The read path is walked node by node with that flag in the state.  Fixed = TRUE is the mechanism with
   the proposed repair, FALSE the pinned one: a compound nested in ANOTHER compound at a member position > 0 loses the flag and
   its members come back WITHOUT column_expression while the rows of the first member have it (finding NestedCompoundCE).

   Invariants (every reachable state):  AtMostOnce - no tag twice;  Ordered - tags appear in pipeline order;
   at the end state ExactlyOnce - every processor the type defines occurs exactly once on the write side and once on the read
   side (Fixed), and for the pinned mechanism exactly the NestedCompoundCE paths and the ImplColumnExpressionDropsDecorator
   type configurations deviate (LegacyOnlyNestedCompound).
   The Done action prints the expected value and Python-side event list of the case for the replay (checks/c09.py). *)
EXTENDS Integers, Sequences, FiniteSets, TLC, Json
CONSTANTS Types, Writes, Reads
VARIABLES cs, fx, ph, idx, need, val, ev
vars == <<cs, fx, ph, idx, need, val, ev>>

\* ------------------------------------------------------------------ type configurations
\* chain: TypeDecorator classes, OUTERMOST first (class D2: impl = D1; class D1: impl = <impl>); impl "S" = String (no dialect
\* processors on SQLite), "P" = a type whose bind_processor / result_processor exist; sqlx: who defines bind_expression /
\* column_expression ("none", "dec" = the outermost decorator, "impl" = the impl type, reached through the decorators)
TypeDef(t) ==
  CASE t = "D1S"   -> [chain |-> <<"D1">>,       impl |-> "S", sqlx |-> "none"]
    [] t = "D2D1S" -> [chain |-> <<"D2", "D1">>, impl |-> "S", sqlx |-> "none"]
    [] t = "D1P"   -> [chain |-> <<"D1">>,       impl |-> "P", sqlx |-> "none"]
    [] t = "D2D1P" -> [chain |-> <<"D2", "D1">>, impl |-> "P", sqlx |-> "none"]
    [] t = "P"     -> [chain |-> <<>>,           impl |-> "P", sqlx |-> "none"]
    [] t = "X1S"   -> [chain |-> <<"D1">>,       impl |-> "S", sqlx |-> "dec"]
    [] t = "X2D1P" -> [chain |-> <<"D2", "D1">>, impl |-> "P", sqlx |-> "dec"]
    [] t = "D1XP"  -> [chain |-> <<"D1">>,       impl |-> "P", sqlx |-> "impl"]
HasSqlx(t) == TypeDef(t).sqlx # "none"

\* ------------------------------------------------------------------ contexts
\* write contexts that render the value as a literal instead of a bound parameter
Literal(w) == w \in {"literal", "literal_where"}
\* read paths: nodes from the statement that is executed down to the SELECT that names the table column
\*   sel = a SELECT listing the column (or its proxy)    ret = INSERT / UPDATE / DELETE ... RETURNING (top level only)
\*   sub = FROM-subquery / CTE / scalar-subquery boundary  c0 / c1 = compound select, the value comes from member 0 / member > 0
Path(r) ==
  CASE r \in {"sel", "label", "cached", "orm_entity", "orm_attr", "orm_refresh", "orm_aliased", "columns_view"} -> <<"sel">>
    [] r \in {"subq", "cte", "scalar", "orm_subq"} -> <<"sel", "sub", "sel">>
    [] r = "subq2" -> <<"sel", "sub", "sel", "sub", "sel">>
    [] r = "union0" -> <<"c0", "sel">>
    [] r = "union1" -> <<"c1", "sel">>
    [] r = "subq_union1" -> <<"sel", "sub", "c1", "sel">>
    [] r = "union1_subq" -> <<"c1", "sel", "sub", "sel">>
    [] r = "nested01" -> <<"c0", "c1", "sel">>          \* union(union(s, S), s): second member of a compound that is itself first member
    [] r = "nested10" -> <<"c1", "c0", "sel">>          \* union(s, union(S, s))
    [] r = "nested11" -> <<"c1", "c1", "sel">>          \* union(s, union(s, S))
    [] r \in {"ret_insert", "ret_update", "ret_delete", "ret_many"} -> <<"ret">>
NestedLater(p) == \E i \in 1..Len(p) - 1 : p[i] = "c1" /\ p[i + 1] \in {"c0", "c1"}      \* a compound inside a compound at member > 0

\* ------------------------------------------------------------------ stages
Tag(k, who) == k \o ":" \o who
PyWrite(t, w) == LET h == IF Literal(w) THEN "l" ELSE "b"
                     d == TypeDef(t)
                 IN [i \in 1..Len(d.chain) |-> Tag(h, d.chain[i])] \o (IF d.impl = "P" THEN <<Tag(h, "P")>> ELSE <<>>)
Rev(q) == [i \in 1..Len(q) |-> q[Len(q) + 1 - i]]
PyRead(t) == LET d == TypeDef(t) IN (IF d.impl = "P" THEN <<Tag("r", "P")>> ELSE <<>>) \o Rev([i \in 1..Len(d.chain) |-> Tag("r", d.chain[i])])
\* Pinned mechanism, second deviation (finding ImplColumnExpressionDropsDecorator): the result type of a column is the type of the
\* expression column_expression returns; TypeDecorator.column_expression delegates to the impl type, whose expression is typed as
\* the IMPL (the documented `type_=self` idiom) - the decorators' process_result_value is then never attached, while on the way in
\* process_bind_param is (the bound parameter keeps the decorator's type inside bind_expression).
DropsDecorators(t) == TypeDef(t).sqlx = "impl" /\ TypeDef(t).chain # <<>>
PyReadMech(t, fixed) == IF ~fixed /\ DropsDecorators(t) THEN (IF TypeDef(t).impl = "P" THEN <<Tag("r", "P")>> ELSE <<>>) ELSE PyRead(t)

\* phases: "pyw" (idx = next Python write stage) -> "be" -> "walk" (idx = next path node) -> "pyr" -> "done"
\* a RETURNING read of an INSERT is written by that same statement
WF(x) == /\ (x.r = "ret_insert" => x.w \in {"values", "params"})
         /\ (x.r = "ret_many" => x.w = "many_ret")
Init == /\ cs \in {x \in [t : Types, w : Writes, r : Reads] : WF(x)}
        /\ fx \in BOOLEAN
        /\ ph = "pyw" /\ idx = 1 /\ need = TRUE /\ val = <<>> /\ ev = <<>>

PyW == /\ ph = "pyw"
       /\ LET st == PyWrite(cs.t, cs.w)
          IN IF idx <= Len(st)
             THEN /\ val' = Append(val, st[idx]) /\ ev' = Append(ev, st[idx]) /\ idx' = idx + 1 /\ ph' = ph
             ELSE /\ ph' = "be" /\ idx' = 1 /\ UNCHANGED <<val, ev>>
       /\ UNCHANGED <<cs, fx, need>>
BE == /\ ph = "be"
      /\ val' = IF HasSqlx(cs.t) THEN Append(val, "BE") ELSE val
      /\ ph' = "walk" /\ idx' = 1 /\ need' = TRUE                      \* the executed statement is the top level
      /\ UNCHANGED <<cs, fx, ev>>
\* one node of the read path.  `need` = "this level wraps its columns in column_expression":
\*   sel / ret: applies CE when need; whatever is below it in its FROM / columns clause is not top level any more
\*   c0 / c1  : visit_compound_select computes  need_result_map = toplevel or (member index = 0 and the enclosing entry needs it)
\*              and hands it to ALL of its members.  Pinned: a nested compound at member index > 0 computes FALSE.
\*              Repaired: the need for column expressions is inherited by every member at every depth.
Walk == /\ ph = "walk"
        /\ LET p == Path(cs.r)
           IN IF idx > Len(p)
              THEN /\ ph' = "pyr" /\ idx' = 1 /\ UNCHANGED <<val, need>>
              ELSE LET n == p[idx]
                       nestedCmp == idx > 1 /\ p[idx - 1] \in {"c0", "c1"} /\ n \in {"c0", "c1"}
                   IN /\ idx' = idx + 1 /\ ph' = ph
                      /\ CASE n \in {"sel", "ret"} -> /\ val' = IF need /\ HasSqlx(cs.t) THEN Append(val, "CE") ELSE val
                                                    /\ need' = need
                           [] n = "sub" -> /\ val' = val /\ need' = FALSE
                           [] n \in {"c0", "c1"} ->
                                /\ val' = val
                                /\ need' = IF ~nestedCmp THEN need          \* member of the top / only compound: inherits
                                           ELSE IF fx THEN need
                                           ELSE need /\ p[idx - 1] = "c0"   \* pinned: only a compound at member index 0 inherits
        /\ UNCHANGED <<cs, fx, ev>>
PyR == /\ ph = "pyr"
       /\ LET st == PyReadMech(cs.t, fx)
          IN IF idx <= Len(st)
             THEN /\ val' = Append(val, st[idx]) /\ ev' = Append(ev, st[idx]) /\ idx' = idx + 1 /\ ph' = ph
             ELSE /\ ph' = "done" /\ idx' = 1 /\ UNCHANGED <<val, ev>>
                  /\ PrintT(ToJson([t |-> cs.t, w |-> cs.w, r |-> cs.r, fixed |-> fx, val |-> val, ev |-> ev,
                                    nestedLater |-> NestedLater(Path(cs.r)), dropsDecorators |-> DropsDecorators(cs.t)]))
       /\ UNCHANGED <<cs, fx, need>>
Done == ph = "done" /\ UNCHANGED vars
Next == PyW \/ BE \/ Walk \/ PyR \/ Done

\* ------------------------------------------------------------------ the property
Count(q, x) == Cardinality({i \in 1..Len(q) : q[i] = x})
AtMostOnce == \A i, j \in 1..Len(val) : i # j => val[i] # val[j]
\* pipeline order: the canonical sequence for the type, of which val is always a sub-sequence in order
Canon(t, w) == PyWrite(t, w) \o (IF HasSqlx(t) THEN <<"BE", "CE">> ELSE <<>>) \o PyRead(t)
Pos(q, x) == CHOOSE i \in 1..Len(q) : q[i] = x
Ordered == /\ \A i \in 1..Len(val) : Count(Canon(cs.t, cs.w), val[i]) = 1
           /\ \A i, j \in 1..Len(val) : i < j => Pos(Canon(cs.t, cs.w), val[i]) < Pos(Canon(cs.t, cs.w), val[j])
\* result processing mirrors bind processing: the decorator applied first on the way in is applied last on the way out
Mirror == (ph = "done" /\ fx) => LET d == TypeDef(cs.t)
                             w == [i \in 1..Len(d.chain) |-> Pos(val, Tag(IF Literal(cs.w) THEN "l" ELSE "b", d.chain[i]))]
                             r == [i \in 1..Len(d.chain) |-> Pos(val, Tag("r", d.chain[i]))]
                         IN \A i, j \in 1..Len(d.chain) : i < j => (w[i] < w[j] /\ r[i] > r[j])
ExactlyOnce == (ph = "done" /\ fx) => val = Canon(cs.t, cs.w)
LegacyOnlyNestedCompound == (ph = "done" /\ ~fx) =>
   ((val # Canon(cs.t, cs.w)) <=> ((HasSqlx(cs.t) /\ NestedLater(Path(cs.r))) \/ DropsDecorators(cs.t)))
\* the Python-side event list is the value without the SQL-side tags
EventsAreValue == ph = "done" => ev = SelectSeq(val, LAMBDA x : x \notin {"BE", "CE"})
=============================================================================
