---------------------------- MODULE PyCollections ----------------------------
(* Python list / set / dict operation semantics (DESIGN 3.10), transcribed as pure functions
       Apply<Kind>(container, op) -> [val, exc, rk, ret, add, rem]
   val  container after the call            exc  "none" or the exception class
   rk   kind of return value ("none" | "val" | "list" | "set" | "bool" | "pair" | "popany")
   ret  the return value (always wrapped in a sequence / set)
   add / rem   the items the operation ADDS to / REMOVES from the container, as the append / remove
               events an instrumented collection has to fire (C38), the rows an association proxy
               has to create / delete (C50), the reason a Mutable value has to call changed() (C49).

   Two uses, selected by the cfg's INIT / NEXT:
   * function transcription (InitSlice, InitListOps, InitSetOps, InitDictOps, InitOSet, InitIdDict):
     every (container, operation, arguments) of the bound is ONE initial state; TLC checks CaseOK
     (the declarative accounting law  Bag(new) = Bag(old) + add - rem, exceptions do not act, slice laws of
     PySlice) and prints one JSON case per state for the calibration against the builtin and the replay
     into the implementations.
   * state graphs (InitList/NextList, InitSet/NextSet, InitDict/NextDict, InitLRU/NextLRU,
     InitOrd/NextOrd, InitMut/NextMut, InitProxy/NextProxy): operation SEQUENCES on one container;
     every labelled edge is dumped (VIEW st + ACTION_CONSTRAINT Emit) and replayed on one real object.
   Lists are sequences, sets are sets, dicts are sequences of <<key, value>> (insertion ordered),
   None is NoneV. *)
EXTENDS PySlice, TLC, Json
CONSTANTS MaxLen,      \* longest container
          Hi,          \* slice/index arguments range over -Hi..Hi (and None)
          MaxVal,      \* longest assigned value (slices)
          K,           \* items are 0..K-1; K itself is "an item that is not in the container"
          Cap, ThrNum, ThrDen, NKeys,   \* LRUCache: capacity, threshold = ThrNum/ThrDen, keys 1..NKeys
          MaxDepth
VARIABLES st, last
vars == <<st, last>>
Lo == 0 - Hi
Idx == (Lo..Hi) \cup {NoneV}
Steps == {NoneV, 1, 2, 3, -1, -2, -3}
\* ------------------------------------------------------------------ helpers
Range(s) == {s[i] : i \in 1..Len(s)}
Count(s, x) == Cardinality({i \in 1..Len(s) : s[i] = x})
Has(s, x) == \E i \in 1..Len(s) : s[i] = x
FirstIdx(s, x) == CHOOSE i \in 1..Len(s) : s[i] = x /\ \A j \in 1..(i - 1) : s[j] # x
RemoveAt(l, j) == SubSeq(l, 1, j - 1) \o SubSeq(l, j + 1, Len(l))            \* j is 1-based
InsertAt(l, p, x) == SubSeq(l, 1, p) \o <<x>> \o SubSeq(l, p + 1, Len(l))      \* p is a 0-based position
RECURSIVE Repeat(_, _)
Repeat(l, k) == IF k <= 0 THEN <<>> ELSE l \o Repeat(l, k - 1)
Rev(l) == [i \in 1..Len(l) |-> l[Len(l) + 1 - i]]
RECURSIVE Dedup(_)
Dedup(s) == IF s = <<>> THEN <<>> ELSE LET r == Dedup(SubSeq(s, 1, Len(s) - 1)) x == s[Len(s)]
                                       IN IF Has(r, x) THEN r ELSE Append(r, x)
RECURSIVE SetToSeq(_)
SetToSeq(S) == IF S = {} THEN <<>> ELSE LET x == CHOOSE y \in S : \A z \in S : y <= z IN <<x>> \o SetToSeq(S \ {x})
SeqsUpTo(S, n) == UNION {[1..k -> S] : k \in 0..n}
Res(val, exc, rk, ret, add, rem) == [val |-> val, exc |-> exc, rk |-> rk, ret |-> ret, add |-> add, rem |-> rem]
Ok(val, rk, ret, add, rem) == Res(val, "none", rk, ret, add, rem)
Err(val, e) == Res(val, e, "none", <<>>, <<>>, <<>>)
Op(n, a, b, v, kd) == [n |-> n, a |-> a, b |-> b, c |-> 0, v |-> v, kd |-> kd]
OpS(n, a, b, c, v) == [n |-> n, a |-> a, b |-> b, c |-> c, v |-> v, kd |-> ""]   \* slice operations: c = step
B(x) == IF x THEN <<1>> ELSE <<0>>
\* ------------------------------------------------------------------ list
ApplyList(l, op) ==
  LET n == Len(l)
      j == IF op.a = NoneV THEN n - 1 ELSE Norm(op.a, n)
      inb == j >= 0 /\ j < n
      x == op.b
  IN CASE op.n = "getitem" -> IF inb THEN Ok(l, "val", <<l[j + 1]>>, <<>>, <<>>) ELSE Err(l, "IndexError")
       [] op.n = "setitem" -> IF inb THEN Ok([l EXCEPT ![j + 1] = x], "none", <<>>, <<x>>, <<l[j + 1]>>) ELSE Err(l, "IndexError")
       [] op.n = "delitem" -> IF inb THEN Ok(RemoveAt(l, j + 1), "none", <<>>, <<>>, <<l[j + 1]>>) ELSE Err(l, "IndexError")
       [] op.n = "insert"  -> Ok(InsertAt(l, Min(Max(j, 0), n), x), "none", <<>>, <<x>>, <<>>)
       [] op.n = "pop"     -> IF inb THEN Ok(RemoveAt(l, j + 1), "val", <<l[j + 1]>>, <<>>, <<l[j + 1]>>) ELSE Err(l, "IndexError")
       [] op.n = "remove"  -> IF Has(l, x) THEN Ok(RemoveAt(l, FirstIdx(l, x)), "none", <<>>, <<>>, <<x>>) ELSE Err(l, "ValueError")
       [] op.n = "append"  -> Ok(Append(l, x), "none", <<>>, <<x>>, <<>>)
       [] op.n = "extend"  -> Ok(l \o op.v, "none", <<>>, op.v, <<>>)
       [] op.n = "iadd"    -> Ok(l \o op.v, "self", <<>>, op.v, <<>>)
       [] op.n = "clear"   -> Ok(<<>>, "none", <<>>, <<>>, l)
       [] op.n = "sort"    -> Ok(SortSeq(l, LAMBDA p, q : p < q), "none", <<>>, <<>>, <<>>)
       [] op.n = "reverse" -> Ok(Rev(l), "none", <<>>, <<>>, <<>>)
       [] op.n = "index"   -> IF Has(l, x) THEN Ok(l, "val", <<FirstIdx(l, x) - 1>>, <<>>, <<>>) ELSE Err(l, "ValueError")
       [] op.n = "count"   -> Ok(l, "val", <<Count(l, x)>>, <<>>, <<>>)
       [] op.n = "contains" -> Ok(l, "bool", B(Has(l, x)), <<>>, <<>>)
       [] op.n = "imul"    -> IF op.a <= 0 THEN Ok(<<>>, "self", <<>>, <<>>, l) ELSE Ok(Repeat(l, op.a), "self", <<>>, Repeat(l, op.a - 1), <<>>)
       \* obj.attr = v (whole-collection replacement) is accounted on MEMBERSHIP: members that stay fire nothing, every occurrence of a
       \* newcomer is appended, every member that leaves is removed once (named deviation for lists holding an item twice)
       [] op.n = "assign"  -> Ok(op.v, "none", <<>>, SelectSeq(op.v, LAMBDA y : ~Has(l, y)), Dedup(SelectSeq(l, LAMBDA y : ~Has(op.v, y))))
       [] op.n = "getslice" -> Ok(l, "list", GetSlice(l, op.a, op.b, op.c), <<>>, <<>>)
       [] op.n = "delslice" -> Ok(DelSlice(l, op.a, op.b, op.c), "none", <<>>, <<>>, GetSlice(l, op.a, op.b, op.c))
       [] op.n = "setslice" -> LET r == SetSlice(l, op.a, op.b, op.c, op.v)
                               IN IF r.ok THEN Ok(r.val, "none", <<>>, op.v, GetSlice(l, op.a, op.b, op.c)) ELSE Err(l, "ValueError")
\* item-level operation space on a list of length n
IdxArgs == Lo..Hi
NewVals == SeqsUpTo({0, K}, 2)
ListOps == {Op(nm, a, 0, <<>>, "") : nm \in {"getitem", "delitem"}, a \in IdxArgs}
      \cup {Op(nm, a, x, <<>>, "") : nm \in {"setitem", "insert"}, a \in IdxArgs, x \in {0, K}}
      \cup {Op("pop", a, 0, <<>>, "") : a \in IdxArgs \cup {NoneV}}
      \cup {Op(nm, 0, x, <<>>, "") : nm \in {"remove", "index", "count", "contains"}, x \in 0..K}
      \cup {Op("append", 0, x, <<>>, "") : x \in {0, K}}
      \cup {Op(nm, 0, 0, v, "") : nm \in {"extend", "iadd", "assign"}, v \in NewVals}
      \cup {Op(nm, 0, 0, <<>>, "") : nm \in {"clear", "sort", "reverse"}}
      \cup {Op("imul", a, 0, <<>>, "") : a \in {-1, 0, 1, 2}}
\* slice operation space: list contents 0..n-1 (distinct), assigned values 10, 11, ... so every position is identifiable
L(n) == [i \in 1..n |-> i - 1]
V(n) == [i \in 1..n |-> 9 + i]
SliceOps == {OpS(nm, a, b, c, <<>>) : nm \in {"getslice", "delslice"}, a \in Idx, b \in Idx, c \in Steps}
       \cup {OpS("setslice", a, b, c, V(m)) : a \in Idx, b \in Idx, c \in Steps, m \in 0..MaxVal}
\* ------------------------------------------------------------------ set
\* op.v is the argument as a SEQUENCE (duplicates allowed); op.kd the Python type it is passed as:
\* "set" | "frozenset" | "list" | "iter" | "self" (the collection's own type); operators accept only set types.
IsSetKind(kd) == kd \in {"set", "frozenset", "self"}
SymDiff(s, t) == (s \ t) \cup (t \ s)
ApplySet(s, op) ==
  LET x == op.b  t == Range(op.v)  D(new) == Ok(new, "none", {}, SetToSeq(new \ s), SetToSeq(s \ new))
      I(new) == IF IsSetKind(op.kd) THEN Ok(new, "self", {}, SetToSeq(new \ s), SetToSeq(s \ new)) ELSE Err(s, "TypeError")
      N(r) == Ok(s, "set", r, <<>>, <<>>)
      O(r) == IF IsSetKind(op.kd) THEN Ok(s, "set", r, <<>>, <<>>) ELSE Err(s, "TypeError")
  IN CASE op.n = "add" -> D(s \cup {x})
       [] op.n = "discard" -> D(s \ {x})
       [] op.n = "remove" -> IF x \in s THEN D(s \ {x}) ELSE Err(s, "KeyError")
       [] op.n = "pop" -> IF s = {} THEN Err(s, "KeyError") ELSE Ok(s, "popany", {}, <<>>, <<>>)   \* any member; caller completes
       [] op.n = "clear" -> D({})
       [] op.n = "update" -> D(s \cup t)
       [] op.n = "difference_update" -> D(s \ t)
       [] op.n = "intersection_update" -> D(s \cap t)
       [] op.n = "symmetric_difference_update" -> D(SymDiff(s, t))
       [] op.n = "ior" -> I(s \cup t)
       [] op.n = "isub" -> I(s \ t)
       [] op.n = "iand" -> I(s \cap t)
       [] op.n = "ixor" -> I(SymDiff(s, t))
       [] op.n = "assign" -> D(t)
       [] op.n = "union" -> N(s \cup t)
       [] op.n = "difference" -> N(s \ t)
       [] op.n = "intersection" -> N(s \cap t)
       [] op.n = "symmetric_difference" -> N(SymDiff(s, t))
       [] op.n = "or" -> O(s \cup t)
       [] op.n = "sub" -> O(s \ t)
       [] op.n = "and" -> O(s \cap t)
       [] op.n = "xor" -> O(SymDiff(s, t))
       [] op.n = "issubset" -> Ok(s, "bool", B(s \subseteq t), <<>>, <<>>)
       [] op.n = "issuperset" -> Ok(s, "bool", B(t \subseteq s), <<>>, <<>>)
       [] op.n = "isdisjoint" -> Ok(s, "bool", B(s \cap t = {}), <<>>, <<>>)
       [] op.n = "contains" -> Ok(s, "bool", B(x \in s), <<>>, <<>>)
       \* rich comparisons (only enumerated with set-typed arguments)
       [] op.n = "eq" -> Ok(s, "bool", B(s = t), <<>>, <<>>)
       [] op.n = "ne" -> Ok(s, "bool", B(s # t), <<>>, <<>>)
       [] op.n = "le" -> Ok(s, "bool", B(s \subseteq t), <<>>, <<>>)
       [] op.n = "lt" -> Ok(s, "bool", B(s \subseteq t /\ s # t), <<>>, <<>>)
       [] op.n = "ge" -> Ok(s, "bool", B(t \subseteq s), <<>>, <<>>)
       [] op.n = "gt" -> Ok(s, "bool", B(t \subseteq s /\ s # t), <<>>, <<>>)
       [] op.n = "copy" -> N(s)
SetArgs == SeqsUpTo(0..K, 3)
SetKinds == {"set", "frozenset", "list", "iter", "self"}
SetOps == {Op(nm, 0, x, <<>>, "") : nm \in {"add", "discard", "remove", "contains"}, x \in 0..K}
     \cup {Op(nm, 0, 0, <<>>, "") : nm \in {"pop", "clear"}}
     \cup {Op(nm, 0, 0, v, kd) : nm \in {"update", "difference_update", "intersection_update", "symmetric_difference_update",
                                        "ior", "isub", "iand", "ixor", "union", "difference", "intersection",
                                        "symmetric_difference", "or", "sub", "and", "xor", "issubset", "issuperset", "isdisjoint"},
                                v \in SetArgs, kd \in SetKinds}
     \cup {Op("assign", 0, 0, v, "list") : v \in SetArgs}
     \cup {Op(nm, 0, 0, v, kd) : nm \in {"eq", "ne", "le", "lt", "ge", "gt"}, v \in SetArgs, kd \in {"set", "self"}}
     \cup {Op("copy", 0, 0, <<>>, "")}
\* ------------------------------------------------------------------ ordered set (C54 OrderedSet reference: sequence without duplicates)
\* first-insertion order; results of binary operations: members of self in self's order, then new members in argument order
OSel(l, S) == SelectSeq(l, LAMBDA y : y \in S)
ApplyOSet(l, op) ==
  LET x == op.b  t == Range(op.v)  s == Range(l)
      n == Len(l)  j == Norm(op.a, n)
      un == l \o OSel(Dedup(op.v), t \ s)
      df == OSel(l, s \ t)
      it == OSel(l, t)
      sd == OSel(l, s \ t) \o OSel(Dedup(op.v), t \ s)
      M(new) == Ok(new, "none", <<>>, OSel(new, Range(new) \ s), OSel(l, s \ Range(new)))
      I(new) == Ok(new, "self", <<>>, OSel(new, Range(new) \ s), OSel(l, s \ Range(new)))
      N(r) == Ok(l, "list", r, <<>>, <<>>)
  IN CASE op.n = "add" -> M(IF x \in s THEN l ELSE Append(l, x))
       [] op.n = "insert" -> M(IF x \in s THEN l ELSE InsertAt(l, Min(Max(j, 0), n), x))
       [] op.n = "discard" -> M(OSel(l, s \ {x}))
       [] op.n = "remove" -> IF x \in s THEN M(OSel(l, s \ {x})) ELSE Err(l, "KeyError")
       [] op.n = "pop" -> IF n = 0 THEN Err(l, "KeyError") ELSE Ok(SubSeq(l, 1, n - 1), "val", <<l[n]>>, <<>>, <<l[n]>>)
       [] op.n = "clear" -> M(<<>>)
       [] op.n = "getitem" -> IF j >= 0 /\ j < n THEN Ok(l, "val", <<l[j + 1]>>, <<>>, <<>>) ELSE Err(l, "IndexError")
       [] op.n = "update" -> M(un)
       [] op.n = "difference_update" -> M(df)
       [] op.n = "intersection_update" -> M(it)
       [] op.n = "symmetric_difference_update" -> M(sd)
       [] op.n = "ior" -> I(un)
       [] op.n = "isub" -> I(df)
       [] op.n = "iand" -> I(it)
       [] op.n = "ixor" -> I(sd)
       [] op.n \in {"union", "or", "add_op"} -> N(un)
       [] op.n \in {"difference", "sub"} -> N(df)
       [] op.n \in {"intersection", "and"} -> N(it)
       [] op.n \in {"symmetric_difference", "xor"} -> N(sd)
       [] op.n = "copy" -> N(l)
       [] op.n = "issubset" -> Ok(l, "bool", B(s \subseteq t), <<>>, <<>>)
       [] op.n = "issuperset" -> Ok(l, "bool", B(t \subseteq s), <<>>, <<>>)
       [] op.n = "contains" -> Ok(l, "bool", B(x \in s), <<>>, <<>>)
OSetKinds == {"set", "list", "iter", "self"}
OSetOps == {Op(nm, 0, x, <<>>, "") : nm \in {"add", "discard", "remove", "contains"}, x \in 0..K}
      \cup {Op("insert", a, x, <<>>, "") : a \in Lo..Hi, x \in 0..K}
      \cup {Op("getitem", a, 0, <<>>, "") : a \in Lo..Hi}
      \cup {Op(nm, 0, 0, <<>>, "") : nm \in {"pop", "clear", "copy"}}
      \cup {Op(nm, 0, 0, v, kd) : nm \in {"update", "difference_update", "intersection_update", "symmetric_difference_update",
                                         "ior", "isub", "iand", "ixor", "union", "difference", "intersection",
                                         "symmetric_difference", "or", "sub", "and", "xor", "add_op", "issubset", "issuperset"},
                                 v \in SetArgs, kd \in OSetKinds}
OSets == {l \in SeqsUpTo(0..(K - 1), MaxLen) : \A i, jj \in 1..Len(l) : i # jj => l[i] # l[jj]}
\* ------------------------------------------------------------------ dict
DKeys(d) == {d[i][1] : i \in 1..Len(d)}
DIdx(d, k) == CHOOSE i \in 1..Len(d) : d[i][1] = k
DGet(d, k) == d[DIdx(d, k)][2]
DSet(d, k, v) == IF k \in DKeys(d) THEN [d EXCEPT ![DIdx(d, k)] = <<k, v>>] ELSE Append(d, <<k, v>>)
DVals(d) == [i \in 1..Len(d) |-> d[i][2]]
\* sequential application of (key, value) pairs with the events each one needs: a pair that stores the value that is
\* already there changes nothing (no event); replacing a different value removes the old one and adds the new one
RECURSIVE DUpd(_, _, _, _)
DUpd(d, ps, add, rem) ==
  IF ps = <<>> THEN <<d, add, rem>>
  ELSE LET k == Head(ps)[1] v == Head(ps)[2] IN
       IF k \in DKeys(d) THEN IF DGet(d, k) = v THEN DUpd(d, Tail(ps), add, rem)
                              ELSE DUpd(DSet(d, k, v), Tail(ps), Append(add, v), Append(rem, DGet(d, k)))
       ELSE DUpd(DSet(d, k, v), Tail(ps), Append(add, v), rem)
RECURSIVE ApplyDictKeyed(_, _)
ApplyDict(d, op) ==
  LET k == op.a  v == op.b  has == k \in DKeys(d)  n == Len(d)
      U(rk) == LET r == DUpd(d, op.v, <<>>, <<>>) IN Ok(r[1], rk, <<>>, r[2], r[3])
  IN CASE op.n = "getitem" -> IF has THEN Ok(d, "val", <<DGet(d, k)>>, <<>>, <<>>) ELSE Err(d, "KeyError")
       [] op.n = "get" -> IF has THEN Ok(d, "val", <<DGet(d, k)>>, <<>>, <<>>) ELSE Ok(d, "none", <<>>, <<>>, <<>>)
       [] op.n = "contains" -> Ok(d, "bool", B(has), <<>>, <<>>)
       [] op.n = "setitem" -> IF has THEN Ok(DSet(d, k, v), "none", <<>>, <<v>>, <<DGet(d, k)>>) ELSE Ok(DSet(d, k, v), "none", <<>>, <<v>>, <<>>)
       [] op.n = "delitem" -> IF has THEN Ok(RemoveAt(d, DIdx(d, k)), "none", <<>>, <<>>, <<DGet(d, k)>>) ELSE Err(d, "KeyError")
       [] op.n = "pop" -> IF has THEN Ok(RemoveAt(d, DIdx(d, k)), "val", <<DGet(d, k)>>, <<>>, <<DGet(d, k)>>) ELSE Err(d, "KeyError")
       [] op.n = "popd" -> IF has THEN Ok(RemoveAt(d, DIdx(d, k)), "val", <<DGet(d, k)>>, <<>>, <<DGet(d, k)>>) ELSE Ok(d, "val", <<v>>, <<>>, <<>>)
       [] op.n = "popitem" -> IF n = 0 THEN Err(d, "KeyError") ELSE Ok(SubSeq(d, 1, n - 1), "pair", d[n], <<>>, <<d[n][2]>>)
       [] op.n = "setdefault" -> IF has THEN Ok(d, "val", <<DGet(d, k)>>, <<>>, <<>>) ELSE Ok(DSet(d, k, v), "val", <<v>>, <<v>>, <<>>)
       [] op.n = "update" -> U("none")
       [] op.n = "ior" -> U("self")
       [] op.n = "assign" -> Ok(op.v, "none", <<>>, SelectSeq(DVals(op.v), LAMBDA y : ~Has(DVals(d), y)),
                                                   SelectSeq(DVals(d), LAMBDA y : ~Has(DVals(op.v), y)))
       [] op.n = "clear" -> Ok(<<>>, "none", <<>>, <<>>, DVals(d))
       \* KeyFuncDict.set(value) / .remove(value): the key is derived from the value (value % 10)
       [] op.n = "kset" -> ApplyDictKeyed(d, Op("setitem", v % 10, v, <<>>, ""))
       [] op.n = "kremove" -> IF (v % 10) \notin DKeys(d) THEN Err(d, "KeyError")
                              ELSE IF DGet(d, v % 10) # v THEN Err(d, "InvalidRequestError")
                              ELSE ApplyDictKeyed(d, Op("delitem", v % 10, 0, <<>>, ""))
       [] op.n = "keys" -> Ok(d, "list", [i \in 1..Len(d) |-> d[i][1]], <<>>, <<>>)
       [] op.n = "values" -> Ok(d, "list", DVals(d), <<>>, <<>>)
ApplyDictKeyed(d, op) == ApplyDict(d, op)
\* keys 0..K-1; a value v "belongs" to key v % 10 (attribute-keyed collections derive the key from the value): values k and 10+k
DKeySet == 0..(K - 1)
DValsOf(k) == {k, 10 + k}
InjSeqs(S, n) == {s \in SeqsUpTo(S, n) : \A i, j \in 1..Len(s) : i # j => s[i] # s[j]}
Dicts == UNION {{[i \in 1..Len(ks) |-> <<ks[i], vv[i]>>] : vv \in {w \in [1..Len(ks) -> 0..(10 + K)] : \A i \in 1..Len(ks) : w[i] \in DValsOf(ks[i])}}
                : ks \in InjSeqs(DKeySet, MaxLen)}
DArgKeys == 0..K
PairSeqs == UNION {{[i \in 1..Len(ks) |-> <<ks[i], vv[i]>>] : vv \in {w \in [1..Len(ks) -> 0..(10 + K)] : \A i \in 1..Len(ks) : w[i] \in DValsOf(ks[i])}}
                   : ks \in SeqsUpTo(DArgKeys, 2)}
DictOps == {Op(nm, k, 0, <<>>, "") : nm \in {"getitem", "get", "contains", "delitem", "pop"}, k \in DArgKeys}
      \cup UNION {{Op(nm, k, v, <<>>, "") : nm \in {"setitem", "setdefault", "popd"}, v \in DValsOf(k)} : k \in DArgKeys}
      \cup {Op(nm, 0, 0, <<>>, "") : nm \in {"popitem", "clear", "keys", "values"}}
      \cup {Op(nm, 0, v, <<>>, "") : nm \in {"kset", "kremove"}, v \in UNION {DValsOf(k) : k \in DArgKeys}}
      \cup {Op("update", 0, 0, ps, "pairs") : ps \in PairSeqs}
      \cup {Op("update", 0, 0, ps, kd) : ps \in {p \in PairSeqs : \A i, j \in 1..Len(p) : i # j => p[i][1] # p[j][1]}, kd \in {"dict", "kwargs"}}
      \cup {Op("ior", 0, 0, ps, "dict") : ps \in {p \in PairSeqs : \A i, j \in 1..Len(p) : i # j => p[i][1] # p[j][1]}}
      \cup {Op("assign", 0, 0, ps, "dict") : ps \in {p \in PairSeqs : \A i, j \in 1..Len(p) : i # j => p[i][1] # p[j][1]}}
\* ------------------------------------------------------------------ immutabledict (C54): no mutation possible; union / merge_with / | return correct copies
\* op.v = the pairs of the argument dicts concatenated, op.a = where the first argument dict ends (union(d1, d2)); op.kd = how the
\* arguments are passed ("dict" plain dicts | "imm" immutabledicts | "none" a None between them)
ImmMutators == {"setitem", "delitem", "clear", "pop", "popd", "popitem", "setdefault", "update", "ior", "setattr"}
ApplyIDict(d, op) ==
  IF op.n \in ImmMutators THEN Err(d, "TypeError")
  ELSE CASE op.n \in {"union", "merge_with", "or"} -> Ok(d, "dict", DUpd(d, op.v, <<>>, <<>>)[1], <<>>, <<>>)
         [] op.n = "ror" -> Ok(d, "dict", DUpd(op.v, d, <<>>, <<>>)[1], <<>>, <<>>)
         [] op.n = "copy" -> Ok(d, "dict", d, <<>>, <<>>)
         [] op.n = "getitem" -> IF op.a \in DKeys(d) THEN Ok(d, "val", <<DGet(d, op.a)>>, <<>>, <<>>) ELSE Err(d, "KeyError")
IDictArgs == UNION {{[i \in 1..Len(ks) |-> <<ks[i], vv[i]>>] : vv \in [1..Len(ks) -> {1, 2}]} : ks \in SeqsUpTo(0..K, 2)}
IDicts == UNION {{[i \in 1..Len(ks) |-> <<ks[i], vv[i]>>] : vv \in [1..Len(ks) -> {1, 2}]} : ks \in InjSeqs(0..(K - 1), MaxLen)}
DistinctKeys(p) == \A i, j \in 1..Len(p) : i # j => p[i][1] # p[j][1]
IDictOps == {Op(nm, k, 1, <<>>, "") : nm \in {"setitem", "delitem", "pop", "popd", "setdefault", "getitem"}, k \in 0..K}
       \cup {Op(nm, 0, 0, <<>>, "") : nm \in {"clear", "popitem", "setattr", "copy"}}
       \cup {Op(nm, 0, 0, ps, "dict") : nm \in {"update", "ior", "or", "ror"}, ps \in {p \in IDictArgs : DistinctKeys(p)}}
       \cup UNION {{Op(nm, a, 0, ps, kd) : nm \in {"union", "merge_with"}, kd \in {"dict", "imm", "none"}, a \in 0..Len(ps)}
                   : ps \in {p \in IDictArgs : \E a \in 0..Len(p) : DistinctKeys(SubSeq(p, 1, a)) /\ DistinctKeys(SubSeq(p, a + 1, Len(p)))}}
InitIDict == /\ st \in IDicts
             /\ \E op \in {o \in IDictOps : o.n \notin {"union", "merge_with"}
                                              \/ (DistinctKeys(SubSeq(o.v, 1, o.a)) /\ DistinctKeys(SubSeq(o.v, o.a + 1, Len(o.v))))} :
                    last = [op |-> op, exp |-> ApplyIDict(st, op)]
             /\ PrintT(ToJson([k |-> "idict", val |-> st, op |-> last.op, exp |-> last.exp]))
\* C54 immutabledict in the property's words: nothing ever changes the dict; every mutator raises; a union has exactly the keys
\* of all operands and, for each key, the value of the LAST operand that has it (self first)
IDictCaseOK ==
  LET r == last.exp op == last.op IN
  /\ r.val = st
  /\ (op.n \in ImmMutators => r.exc = "TypeError")
  /\ (op.n \in {"union", "merge_with", "or"} =>
        /\ DKeys(r.ret) = DKeys(st) \cup DKeys(op.v) /\ DistinctKeys(r.ret)
        /\ \A k \in DKeys(r.ret) : IF k \in DKeys(op.v) THEN \E i \in 1..Len(op.v) : op.v[i] = <<k, DGet(r.ret, k)>> /\ \A j \in (i + 1)..Len(op.v) : op.v[j][1] # k
                                    ELSE DGet(r.ret, k) = DGet(st, k))
  /\ (op.n = "ror" => /\ DKeys(r.ret) = DKeys(st) \cup DKeys(op.v)
                      /\ \A k \in DKeys(r.ret) : DGet(r.ret, k) = IF k \in DKeys(st) THEN DGet(st, k) ELSE DGet(op.v, k))
\* ------------------------------------------------------------------ the accounting law (C38 "events account exactly", declaratively)
Items(kind, val) == IF kind = "set" THEN SetToSeq(val) ELSE IF kind = "dict" THEN DVals(val) ELSE val
Univ == 0..(20 + K + MaxVal)
BalancedMembers(kind, old, r) ==
  LET o == Items(kind, old) nw == Items(kind, r.val) IN
  \A x \in Univ : Has(nw, x) <=> ((Has(o, x) /\ ~Has(r.rem, x)) \/ Has(r.add, x))
Balanced(kind, old, r) ==
  LET o == Items(kind, old) nw == Items(kind, r.val) IN
  \A x \in Univ : /\ Count(nw, x) = Count(o, x) + Count(r.add, x) - Count(r.rem, x)
                  /\ Count(r.rem, x) <= Count(o, x) + Count(r.add, x)
ErrorsDontAct(old, r) == r.exc # "none" => (r.val = old /\ r.add = <<>> /\ r.rem = <<>>)
\* ------------------------------------------------------------------ function transcription: one initial state per case
Case(kind) == [k |-> kind, val |-> st, op |-> last.op, exp |-> last.exp]
Stutter == UNCHANGED vars
InitSlice == /\ st \in {L(n) : n \in 0..MaxLen}
             /\ \E op \in SliceOps : last = [op |-> op, exp |-> ApplyList(st, op)]
             /\ PrintT(ToJson(Case("list")))
InitListOps == /\ st \in SeqsUpTo(0..(K - 1), MaxLen)
               /\ \E op \in ListOps : last = [op |-> op, exp |-> ApplyList(st, op)]
               /\ PrintT(ToJson(Case("list")))
InitSetOps == /\ st \in SUBSET (0..(K - 1))
              /\ \E op \in SetOps : last = [op |-> op, exp |-> ApplySet(st, op)]
              /\ PrintT(ToJson(Case("set")))
InitDictOps == /\ st \in Dicts
               /\ \E op \in DictOps : last = [op |-> op, exp |-> ApplyDict(st, op)]
               /\ PrintT(ToJson(Case("dict")))
InitOSet == /\ st \in OSets
            /\ \E op \in OSetOps : last = [op |-> op, exp |-> ApplyOSet(st, op)]
            /\ PrintT(ToJson(Case("oset")))
\* invariants of the case runs
ListCaseOK == (IF last.op.n = "assign" THEN BalancedMembers("list", st, last.exp) ELSE Balanced("list", st, last.exp)) /\ ErrorsDontAct(st, last.exp)
SliceCaseOK == ListCaseOK /\ SliceLaws(st, last.op.a, last.op.b, last.op.c, IF last.op.n = "setslice" THEN last.op.v ELSE <<>>)
SetCaseOK == Balanced("set", st, last.exp) /\ ErrorsDontAct(st, last.exp)
             /\ (last.op.n \in {"ior", "isub", "iand", "ixor", "or", "sub", "and", "xor"} /\ ~IsSetKind(last.op.kd) => last.exp.exc = "TypeError")
DictCaseOK == Balanced("dict", st, last.exp) /\ ErrorsDontAct(st, last.exp)
              \* the keyed operations are the plain ones under the derived key
              /\ (last.op.n = "kset" => last.exp = ApplyDict(st, Op("setitem", last.op.b % 10, last.op.b, <<>>, "")))
              /\ (last.op.n = "kremove" /\ last.exp.exc = "none" => last.exp = ApplyDict(st, Op("delitem", last.op.b % 10, 0, <<>>, "")))
              /\ \A i, j \in 1..Len(last.exp.val) : i # j => last.exp.val[i][1] # last.exp.val[j][1]
\* OrderedSet reference model against the PROPERTY's words: a set (same members as the plain-set operation) whose
\* iteration order is first-insertion order (old members keep their relative order, new members follow in argument order)
OSetCaseOK ==
  LET l == st r == last.exp op == last.op nv == IF r.rk = "list" THEN r.ret ELSE r.val
      setop == IF op.n \in {"insert"} THEN Op("add", 0, op.b, <<>>, "")
               ELSE IF op.n = "add_op" THEN Op("union", 0, 0, op.v, "list")
               ELSE IF op.n \in {"or", "sub", "and", "xor", "ior", "isub", "iand", "ixor"} THEN Op(op.n, 0, 0, op.v, "set") ELSE op
  IN /\ Balanced("list", st, r) /\ ErrorsDontAct(st, r)
     /\ \A i, j \in 1..Len(nv) : i # j => nv[i] # nv[j]
     /\ (op.n \notin {"pop", "getitem", "copy"} /\ r.exc = "none" /\ r.rk # "bool") =>
           LET sr == ApplySet(Range(l), setop) IN Range(nv) = (IF sr.rk = "set" THEN sr.ret ELSE sr.val)
     /\ (r.exc = "none" /\ r.rk # "bool" /\ op.n # "insert") =>
           \* order: survivors of l in l's order first, then newcomers in first-occurrence order of the argument
           /\ OSel(nv, Range(l)) = OSel(l, Range(nv))
           /\ LET m == Len(OSel(l, Range(nv))) IN SubSeq(nv, 1, m) = OSel(l, Range(nv))
           /\ OSel(nv, Range(nv) \ Range(l)) = OSel(Dedup(IF op.n = "add" THEN <<op.b>> ELSE op.v), Range(nv) \ Range(l))
\* ------------------------------------------------------------------ state graphs: operation sequences on one container
\* the sequence machines reuse the Apply functions; arguments are restricted (indices -2..2, short values)
SeqIdx == -2..2
SeqVals == SeqsUpTo({0, K}, 2)
SeqListOps == {Op(nm, a, 0, <<>>, "") : nm \in {"delitem"}, a \in SeqIdx}
         \cup {Op(nm, a, x, <<>>, "") : nm \in {"setitem", "insert"}, a \in SeqIdx, x \in {0, K}}
         \cup {Op("pop", a, 0, <<>>, "") : a \in {NoneV, 0, -2}}
         \cup {Op(nm, 0, x, <<>>, "") : nm \in {"remove"}, x \in 0..K}
         \cup {Op("append", 0, x, <<>>, "") : x \in 0..K}
         \cup {Op(nm, 0, 0, v, "") : nm \in {"extend", "iadd", "assign"}, v \in SeqVals}
         \cup {Op(nm, 0, 0, <<>>, "") : nm \in {"clear", "sort", "reverse"}}
         \cup {OpS("delslice", a, b, c, <<>>) : a \in {NoneV, 1, -1}, b \in {NoneV, 2}, c \in {NoneV, 2, -1}}
         \cup {OpS("setslice", a, b, NoneV, v) : a \in {NoneV, 1, -1}, b \in {NoneV, 1}, v \in SeqVals}
SeqSetOps == {Op(nm, 0, x, <<>>, "") : nm \in {"add", "discard", "remove"}, x \in 0..K}
        \cup {Op(nm, 0, 0, <<>>, "") : nm \in {"clear"}}
        \cup {Op(nm, 0, 0, v, kd) : nm \in {"update", "difference_update", "intersection_update", "symmetric_difference_update",
                                           "ior", "isub", "iand", "ixor"}, v \in SeqsUpTo(0..K, 2), kd \in {"set", "list"}}
        \cup {Op("assign", 0, 0, v, "list") : v \in SeqsUpTo(0..K, 2)}
SeqDictOps == {Op(nm, k, 0, <<>>, "") : nm \in {"delitem", "pop"}, k \in DArgKeys}
         \cup UNION {{Op(nm, k, v, <<>>, "") : nm \in {"setitem", "setdefault", "popd"}, v \in DValsOf(k)} : k \in DArgKeys}
         \cup {Op(nm, 0, 0, <<>>, "") : nm \in {"popitem", "clear"}}
         \cup {Op("update", 0, 0, ps, "pairs") : ps \in PairSeqs}
SeqStep(kind, r, op) == /\ Len(Items(kind, r.val)) <= MaxLen
                        /\ st' = r.val /\ last' = [op |-> op, exp |-> r]
InitList == st = <<>> /\ last = [op |-> Op("init", 0, 0, <<>>, ""), exp |-> Ok(<<>>, "none", <<>>, <<>>, <<>>)]
NextList == \E op \in SeqListOps : SeqStep("list", ApplyList(st, op), op)
InitSet == st = {} /\ last = [op |-> Op("init", 0, 0, <<>>, ""), exp |-> Ok({}, "none", <<>>, <<>>, <<>>)]
NextSet == \/ \E op \in SeqSetOps : SeqStep("set", ApplySet(st, op), op)
           \/ \E x \in st : SeqStep("set", Ok(st \ {x}, "val", <<x>>, <<>>, <<x>>), Op("pop", 0, x, <<>>, ""))
InitDict == st = <<>> /\ last = [op |-> Op("init", 0, 0, <<>>, ""), exp |-> Ok(<<>>, "none", <<>>, <<>>, <<>>)]
NextDict == \E op \in SeqDictOps : SeqStep("dict", ApplyDict(st, op), op)
\* OrderedSet sequences (C54): one OrderedSet object through a walk of operations (hidden divergence between its list and its set
\* side can only build up over a history)
SeqOSetOps == {Op(nm, 0, x, <<>>, "") : nm \in {"add", "discard", "remove"}, x \in 0..K}
         \cup {Op("insert", a, x, <<>>, "") : a \in {0, 1, -1}, x \in 0..K}
         \cup {Op(nm, 0, 0, <<>>, "") : nm \in {"pop", "clear"}}
         \cup {Op(nm, 0, 0, v, kd) : nm \in {"update", "difference_update", "intersection_update", "symmetric_difference_update",
                                            "ior", "isub", "iand", "ixor"}, v \in SeqsUpTo(0..K, 2), kd \in {"list", "iter", "self"}}
InitOSetSeq == st = <<>> /\ last = [op |-> Op("init", 0, 0, <<>>, ""), exp |-> Ok(<<>>, "none", <<>>, <<>>, <<>>)]
NextOSet == \E op \in SeqOSetOps : SeqStep("list", ApplyOSet(st, op), op)
OSetNoDups == \A i, j \in 1..Len(st) : i # j => st[i] # st[j]
OSetEdgeOK == [][Balanced("list", st, last'.exp) /\ ErrorsDontAct(st, last'.exp) /\ st' = last'.exp.val
                 /\ (last'.exp.exc = "none" /\ last'.op.n \notin {"pop", "insert"} =>
                       LET sr == ApplySet(Range(st), IF last'.op.n \in {"ior", "isub", "iand", "ixor"} THEN [last'.op EXCEPT !.kd = "set"] ELSE last'.op)
                       IN Range(st') = sr.val)]_vars
View == st
Emit == PrintT(ToJson([from |-> st, act |-> last', to |-> st']))
InitEmit(I) == I /\ PrintT(ToJson([init |-> st]))
InitListE == InitEmit(InitList)
InitSetE == InitEmit(InitSet)
InitDictE == InitEmit(InitDict)
InitOSetSeqE == InitEmit(InitOSetSeq)
Depth == TLCGet("level") <= MaxDepth
\* per-edge law of the sequence machines (action properties: evaluated on every transition, also with VIEW)
ListEdgeOK == [][(IF last'.op.n = "assign" THEN BalancedMembers("list", st, last'.exp) ELSE Balanced("list", st, last'.exp)) /\ ErrorsDontAct(st, last'.exp) /\ st' = last'.exp.val]_vars
SetEdgeOK == [][Balanced("set", st, last'.exp) /\ ErrorsDontAct(st, last'.exp) /\ st' = last'.exp.val]_vars
DictEdgeOK == [][Balanced("dict", st, last'.exp) /\ ErrorsDontAct(st, last'.exp) /\ st' = last'.exp.val]_vars
\* ------------------------------------------------------------------ persisted collections (C50 ordering_list / association proxies, C49 Mutable)
\* st = [val |-> in-memory value, db |-> value the database holds (what a second connection reads)]
\* Persist = flush + commit, Rollback = session.rollback() (the in-memory value returns to the persisted one)
POpsList == {Op(nm, a, 0, <<>>, "") : nm \in {"delitem"}, a \in {0, -1, 1}}
       \cup {Op(nm, a, x, <<>>, "") : nm \in {"setitem", "insert"}, a \in {0, -1, 1}, x \in {0, K}}
       \cup {Op("pop", a, 0, <<>>, "") : a \in {NoneV, 0}}
       \cup {Op(nm, 0, x, <<>>, "") : nm \in {"remove"}, x \in {0, K}}
       \cup {Op("append", 0, x, <<>>, "") : x \in {0, K}}
       \cup {Op(nm, 0, 0, v, "") : nm \in {"extend", "iadd", "assign"}, v \in {<<>>, <<K>>, <<0, K>>, <<K, K>>}}
       \cup {Op(nm, 0, 0, <<>>, "") : nm \in {"clear", "sort", "reverse"}}
       \cup {Op("imul", a, 0, <<>>, "") : a \in {0, 2}}
       \cup {OpS("delslice", a, b, c, <<>>) : a \in {NoneV, 1}, b \in {NoneV, -1}, c \in {NoneV, 2, -1}}
       \cup {OpS("setslice", a, b, NoneV, v) : a \in {NoneV, 1, -1}, b \in {NoneV, 1}, v \in {<<>>, <<K>>, <<0, K>>}}
       \cup {OpS("setslice", NoneV, NoneV, c, v) : c \in {2, -1}, v \in {<<K>>, <<0, K>>}}
PLast(n, val) == [op |-> Op(n, 0, 0, <<>>, ""), exp |-> Ok(val, "none", <<>>, <<>>, <<>>)]
PInit(v0) == st = [val |-> v0, db |-> v0] /\ last = PLast("init", v0)
PApply(kind, r, op) == /\ Len(Items(kind, r.val)) <= MaxLen
                       /\ st' = [st EXCEPT !.val = r.val] /\ last' = [op |-> op, exp |-> r]
Persist == st' = [st EXCEPT !.db = st.val] /\ last' = PLast("persist", st.val)
Rollback == st.val # st.db /\ st' = [st EXCEPT !.val = st.db] /\ last' = PLast("rollback", st.db)
\* ordering_list: every list operation (no *=: the same object cannot sit at two positions)
InitOrd == PInit(<<>>)
NextOrd == \/ \E op \in {o \in POpsList : o.n # "imul"} : PApply("list", ApplyList(st.val, op), op)
           \/ Persist \/ Rollback
\* association proxy list view (sort / reverse are documented as unsupported by the proxy and are not part of its contract)
NextPList == \/ \E op \in {o \in POpsList : o.n \notin {"sort", "reverse"}} : PApply("list", ApplyList(st.val, op), op)
             \/ Persist \/ Rollback
InitPSet == PInit({})
NextPSet == \/ \E op \in {o \in SeqSetOps : o.n # "assign" \/ TRUE} : PApply("set", ApplySet(st.val, op), op)
            \/ Persist \/ Rollback
\* (no Rollback here: the insertion order of a dict is not persisted, so a reloaded mapping need not iterate in the model's order)
NextPDict == \/ \E op \in SeqDictOps : PApply("dict", ApplyDict(st.val, op), op)
             \/ Persist
InitOrdE == InitEmit(InitOrd)
InitPSetE == InitEmit(InitPSet)
\* C50 / C49 in the property's words: the position of every element is its index (the model value IS the order); the database changes
\* only when the session is flushed, and then holds exactly the in-memory value; a rollback returns to exactly the persisted value
Positions(val) == [i \in 1..Len(val) |-> i - 1]
DbOnlyByPersist == [][st'.db # st.db => last'.op.n = "persist"]_vars
PersistStoresValue == [][last'.op.n = "persist" => (st'.db = st.val /\ st'.val = st.val)]_vars
RollbackRestores == [][last'.op.n = "rollback" => (st'.val = st.db /\ st'.db = st.db)]_vars
PEdgeOK(kind) == [][last'.op.n \notin {"persist", "rollback"} =>
                       (ErrorsDontAct(st.val, last'.exp) /\ st'.val = last'.exp.val /\ st'.db = st.db
                        /\ (IF last'.op.n = "assign" THEN BalancedMembers(kind, st.val, last'.exp) ELSE Balanced(kind, st.val, last'.exp)))]_vars
PListEdgeOK == PEdgeOK("list")
PSetEdgeOK == PEdgeOK("set")
PDictEdgeOK == PEdgeOK("dict")
\* ------------------------------------------------------------------ Mutable column values (C49)
\* st = [val |-> value held by the attribute, db |-> stored value, dirty |-> the value changed in place since it was last
\* synchronised with the database].  Persist = flush + commit; Expire = session.expire(obj) (the next access reloads, unflushed
\* changes are discarded); Pickle = expunge, pickle round trip, add back; Merge = pickle copy merged into a NEW session.
MInit(v0) == st = [val |-> v0, db |-> v0, dirty |-> FALSE] /\ last = PLast("init", v0)
MApply(kind, r, op) == /\ Len(Items(kind, r.val)) <= MaxLen
                       /\ st' = [st EXCEPT !.val = r.val, !.dirty = st.dirty \/ (r.val # st.val)] /\ last' = [op |-> op, exp |-> r]
MPersist == st' = [st EXCEPT !.db = st.val, !.dirty = FALSE] /\ last' = PLast("persist", st.val)
MExpire == st' = [st EXCEPT !.val = st.db, !.dirty = FALSE] /\ last' = PLast("expire", st.db)
MPickle == st' = st /\ last' = PLast("pickle", st.val)
MMerge == st' = [st EXCEPT !.dirty = (st.val # st.db)] /\ last' = PLast("merge", st.val)
MSession == MPersist \/ MExpire \/ MPickle \/ MMerge
InitMutList == MInit(<<>>)
NextMutList == (\E op \in POpsList : MApply("list", ApplyList(st.val, op), op)) \/ MSession
InitMutSet == MInit({})
\* (the augmented operators of MutableSet accept any iterable; only the set-typed calls are part of the builtin's contract)
NextMutSet == \/ \E op \in {o \in SeqSetOps : ~(o.n \in {"ior", "isub", "iand", "ixor"} /\ ~IsSetKind(o.kd))} : MApply("set", ApplySet(st.val, op), op)
              \/ \E x \in st.val : MApply("set", Ok(st.val \ {x}, "val", <<x>>, <<>>, <<x>>), Op("pop", 0, x, <<>>, ""))
              \/ MSession
NextMutDict == (\E op \in SeqDictOps \cup {Op("ior", 0, 0, ps, "dict") : ps \in {p \in PairSeqs : DistinctKeys(p)}}
                            \cup {Op("assign", 0, 0, ps, "dict") : ps \in {p \in PairSeqs : DistinctKeys(p)}} :
                    MApply("dict", ApplyDict(st.val, op), op)) \/ MSession
\* a composite of two columns: a fixed-length list <<x, y>> whose fields are set in place, or the whole value replaced
InitMutComp == MInit(<<0, 0>>)
NextMutComp == (\E op \in {Op("setitem", i, x, <<>>, "") : i \in {0, 1}, x \in 0..K} \cup {Op("assign", 0, 0, <<x, y>>, "") : x, y \in 0..K} :
                    MApply("list", ApplyList(st.val, op), op)) \/ MSession
InitMutListE == InitEmit(InitMutList)
InitMutSetE == InitEmit(InitMutSet)
InitMutCompE == InitEmit(InitMutComp)
\* C49 in the property's words
\* every in-place change leaves the parent flagged (so that nothing that differs from the database can be clean) ...
NoUntrackedChange == ~st.dirty => st.val = st.db
MutationMarks == [][(last'.op.n \notin {"persist", "expire", "pickle", "merge"} /\ st'.val # st.val) => st'.dirty]_vars
\* ... the flush stores exactly the in-memory value, the database changes in no other way, expiring returns to the stored value,
\* pickling and merging change neither the value nor what is stored
MPersistStores == [][last'.op.n = "persist" => (st'.db = st.val /\ st'.val = st.val /\ ~st'.dirty)]_vars
MExpireReloads == [][last'.op.n = "expire" => (st'.val = st.db /\ st'.db = st.db)]_vars
MPickleMergeKeep == [][last'.op.n \in {"pickle", "merge"} => (st'.val = st.val /\ st'.db = st.db)]_vars
\* ------------------------------------------------------------------ LRUCache (util/_collections.py)
\* st.d : entries [k, v] ordered by last use (least recently used first) - the counters of the code, canonicalised
\* st.ref : ghost, key -> value most recently stored under it (0 = none / deleted)
\* st.rec : ghost, keys by last use as the USER saw it (survives evictions; a deleted key leaves)
LKeys == 1..NKeys
LVals(k) == {10 * k + 1, 10 * k + 2}
LHas(d, k) == \E i \in 1..Len(d) : d[i].k = k
LIdx(d, k) == CHOOSE i \in 1..Len(d) : d[i].k = k
LTouch(d, k) == RemoveAt(d, LIdx(d, k)) \o <<d[LIdx(d, k)]>>
RTouch(rec, k) == SelectSeq(rec, LAMBDA y : y # k) \o <<k>>
TooBig(n) == n * ThrDen > Cap * ThrDen + Cap * ThrNum
Manage(d) == IF TooBig(Len(d)) THEN SubSeq(d, Len(d) - Cap + 1, Len(d)) ELSE d
LRes(s, exc, ret) == [st |-> s, exc |-> exc, ret |-> ret]
LGet(s, k) == IF LHas(s.d, k) THEN LRes([s EXCEPT !.d = LTouch(@, k), !.rec = RTouch(@, k)], "none", <<s.d[LIdx(s.d, k)].v>>)
              ELSE LRes(s, "none", <<>>)
LGetItem(s, k) == IF LHas(s.d, k) THEN LGet(s, k) ELSE LRes(s, "KeyError", <<>>)
LSet(s, k, v) == LET d1 == IF LHas(s.d, k) THEN RemoveAt(s.d, LIdx(s.d, k)) ELSE s.d
                 IN LRes([s EXCEPT !.d = Manage(Append(d1, [k |-> k, v |-> v])), !.ref[k] = v, !.rec = RTouch(@, k)], "none", <<>>)
LDel(s, k) == IF LHas(s.d, k) THEN LRes([s EXCEPT !.d = RemoveAt(@, LIdx(@, k)), !.ref[k] = 0, !.rec = SelectSeq(@, LAMBDA y : y # k)], "none", <<>>)
              ELSE LRes(s, "KeyError", <<>>)
\* `k in cache` is MutableMapping.__contains__ = try self[k]: it refreshes the entry like a read
LContains(s, k) == LET r == LGet(s, k) IN LRes(r.st, "none", B(LHas(s.d, k)))
LStep(name, k, v, r) == st' = r.st /\ last' = [a |-> name, k |-> k, v |-> v, exc |-> r.exc, ret |-> r.ret]
InitLRU == /\ st = [d |-> <<>>, ref |-> [k \in LKeys |-> 0], rec |-> <<>>]
           /\ last = [a |-> "init", k |-> 0, v |-> 0, exc |-> "none", ret |-> <<>>]
NextLRU == \E k \in LKeys : \/ LStep("get", k, 0, LGet(st, k))
                            \/ LStep("getitem", k, 0, LGetItem(st, k))
                            \/ LStep("contains", k, 0, LContains(st, k))
                            \/ LStep("delitem", k, 0, LDel(st, k))
                            \/ \E v \in LVals(k) : LStep("setitem", k, v, LSet(st, k, v))
InitLRUE == InitEmit(InitLRU)
\* C54 LRUCache, in the property's words
LruSizeBound == Len(st.d) * ThrDen <= Cap * ThrDen + Cap * ThrNum
LruValueUnderKey == /\ \A i \in 1..Len(st.d) : st.d[i].v \in LVals(st.d[i].k) /\ st.d[i].v = st.ref[st.d[i].k]
                    /\ \A i, j \in 1..Len(st.d) : i # j => st.d[i].k # st.d[j].k
LruReadsOwnKey == [][(last'.a \in {"get", "getitem"} /\ last'.ret # <<>>) => last'.ret[1] = st.ref[last'.k]]_vars
\* "retaining the most recently used entries": whenever entries are evicted, exactly Cap entries survive, every survivor was
\* used more recently (ghost order st.rec, kept by the user-visible uses only) than every evicted entry, and the cache
\* really was over its limit
Pos(s, x) == CHOOSE i \in 1..Len(s) : s[i] = x
LKeySet(d) == {d[i].k : i \in 1..Len(d)}
LruEvictsLeastRecent ==
  [][LET gone == {k \in LKeySet(st.d) : ~LHas(st'.d, k) /\ ~(last'.a = "delitem" /\ last'.k = k)} IN
     gone # {} => /\ Len(st'.d) = Cap
                  /\ \A k \in gone, k2 \in LKeySet(st'.d) : Pos(st'.rec, k) < Pos(st'.rec, k2)
                  /\ TooBig(Cardinality(LKeySet(st.d) \cup {last'.k}))]_vars
\* the mechanism's order (counters) is the user-visible recency order on the entries present
LruOrderAgrees == [i \in 1..Len(st.d) |-> st.d[i].k] = SelectSeq(st.rec, LAMBDA y : LHas(st.d, y))
\* eviction only ever happens inside a store, and never removes the key being stored
LruEvictOnlyOnSet == [][\A k \in LKeys : (LHas(st.d, k) /\ ~LHas(st'.d, k)) => (last'.a = "setitem" /\ last'.k # k) \/ (last'.a = "delitem" /\ last'.k = k)]_vars
=============================================================================
