---------------------------- MODULE RowLookup ----------------------------
(* C11: looking up a row by column object, label, string name or position returns the value of THAT expression, or raises.

   A case is (select list over tables a / b, label style, label_length, textual mode, wrapper).  Every case is ONE initial
   state; the module computes, as a transcription of the three mechanisms involved,
     1. selectable._generate_columns_plus_names / _column_naming_convention   (labels per LABEL_STYLE_*, de-duplication)
     2. SQLCompiler._label_select_column / visit_column / visit_label / _truncated_identifier  (result-map entries:
        rendered name, lookup name, target objects; anonymous-name map; label_length truncation)
     3. CursorResultMetaData.__init__ / _merge_cursor_description / _create_description_match_map / _index_for_key /
        _adapt_to_context   (the key map and the lookup)
   the outcome of EVERY lookup key: a position, Amb (InvalidRequestError "Ambiguous column name") or NoSuch
   (NoSuchColumnError).  Names are sequences of one-character strings.

   What the PROPERTY says is the operator Acceptable (declarative, in terms of which positions HOLD a key and which
   expression each position selects); TLC checks on every case and key
     Sound          the mechanism with the two proposed repairs (fx = TRUE) answers inside Acceptable
     ObjOnce        a column / label object selected at exactly one position is found there - never ambiguous, never missing -
                    by the repaired AND the pinned mechanism (compiled and positional-textual statements)
     NameOnce       a string that is the result key (Result.keys()) of exactly one position, held by no other position,
                    returns that position (pinned mechanism: except in by-name textual matching, finding class LooseAlias)
     LegacyClassified   wherever the pinned mechanism (fx = FALSE) differs from the repaired one, the case belongs to one of the
                    three finding classes (RawTextDupes, AltCollision, LooseAlias) - nothing else differs
   and prints one JSON case per state for the conformance replay (checks/c11.py).

   Position lookup row[i] is the tuple index and is total by construction (Cells); Result.columns(i) goes through the NAME
   of position i (named deviation IntThroughName: with duplicate names it raises Amb; it must never return another position). *)
EXTENDS Integers, Sequences, FiniteSets, TLC, Json, Randomization
CONSTANTS Alphabet,      \* item ids that may appear in a select list
          MaxLen,        \* select lists of 1..MaxLen items
          Styles, LLs, Modes, Wraps,
          Sample         \* 0: every case; n > 0: a random subset of n select lists per (style, ll, mode, wrap)
VARIABLE c
vars == <<c>>

\* ------------------------------------------------------------------ characters
cA == <<"a">>  cB == <<"b">>  cX == <<"x">>  cY == <<"y">>  cP == <<"p">>  cR == <<"r">>  cK == <<"k">>  c7 == <<"7">>
cID == <<"i", "d">>
cLX == <<"l", "x">>
cSQ == <<"s", "q">>
cAX == <<"a", "_", "x">>
cLONG == <<"l", "o", "n", "g", "c", "o", "l", "n", "a", "m", "e">>
cLLN == <<"l", "o", "n", "g", "l", "a", "b", "e", "l", "n", "a", "m", "e">>
cANON == <<"a", "n", "o", "n">>
cNOLABEL == <<"_", "n", "o", "_", "l", "a", "b", "e", "l">>
cNOSUCH == <<"n", "o", "s", "u", "c", "h">>
U == <<"_">>
Digit(n) == <<"0", "1", "2", "3", "4", "5", "6", "7", "8", "9">>[n + 1]
Min(x, y) == IF x < y THEN x ELSE y
Range(q) == {q[i] : i \in 1..Len(q)}
MaxOf(S) == CHOOSE x \in S : \A y \in S : y <= x

\* ------------------------------------------------------------------ names and keys (uniform record shapes: TLC compares them freely)
Plain(s) == [k |-> "s", id |-> "", b |-> s]                     \* an ordinary string
Anon(id, base) == [k |-> "a", id |-> id, b |-> base]             \* _anonymous_label "%(<id> <base>)s"
None == [k |-> "n", id |-> "", b |-> <<>>]
StrKey(s) == [t |-> "str", id |-> "", s |-> s]
ObjKey(id) == [t |-> "obj", id |-> id, s |-> <<>>]
ClKey(pos) == [t |-> "cl", id |-> ToString(pos), s |-> <<>>]     \* the _CompileLabel made for one position: reachable by nobody
NameKey(n) == IF n.k = "s" THEN StrKey(n.b) ELSE [t |-> "tmpl", id |-> n.id, s |-> n.b]    \* a template is no usable string key

\* ------------------------------------------------------------------ the item alphabet
Col(id, tab, name, key) == [id |-> id, kind |-> "col", tab |-> tab, name |-> Plain(name), key |-> key, e |-> id, tr |-> FALSE, desc |-> <<>>]
Lab(id, name, e) == [id |-> id, kind |-> "lab", tab |-> <<>>, name |-> Plain(name), key |-> name, e |-> e, tr |-> FALSE, desc |-> <<>>]
ItemOf(id) ==
  CASE id = "aid" -> Col("aid", cA, cID, cID)   [] id = "ax" -> Col("ax", cA, cX, cX)
    [] id = "al" -> Col("al", cA, cLONG, cLONG) [] id = "ak" -> Col("ak", cA, cP, cK)       \* Column("p", key="k")
    [] id = "bid" -> Col("bid", cB, cID, cID)   [] id = "bx" -> Col("bx", cB, cX, cX)
    [] id = "by" -> Col("by", cB, cY, cY)       [] id = "bk" -> Col("bk", cB, cR, cK)       \* Column("r", key="k")
    [] id = "Lax_lx" -> Lab("Lax_lx", cLX, "ax")        \* a.x.label("lx")
    [] id = "Lbx_x" -> Lab("Lbx_x", cX, "bx")           \* b.x.label("x"): a label named like another column
    [] id = "Lby_a_x" -> Lab("Lby_a_x", cAX, "by")      \* b.y.label("a_x"): a label named like a table-qualified label
    [] id = "Laid_k" -> Lab("Laid_k", cK, "aid")        \* a.id.label("k"): a label named like a column KEY
    [] id = "Lsum" -> Lab("Lsum", cLLN, "sum")          \* (a.x + b.x).label("longlabelname")
    [] id = "anon" -> [id |-> "anon", kind |-> "anon", tab |-> <<>>, name |-> None, key |-> <<>>, e |-> "anon", tr |-> FALSE, desc |-> <<>>]
    [] id = "lit" -> [id |-> "lit", kind |-> "lit", tab |-> <<>>, name |-> Plain(c7), key |-> c7, e |-> "lit", tr |-> FALSE, desc |-> <<>>]
    [] id = "txt" -> [id |-> "txt", kind |-> "txt", tab |-> <<>>, name |-> None, key |-> <<>>, e |-> "aid", tr |-> FALSE, desc |-> cID]
TableCols == {"aid", "ax", "al", "ak", "bid", "bx", "by", "bk"}

\* label-related attributes of an element (elements.py: _tq_label, _tq_key_label, _non_anon_label, _proxy_key, _anon_name_label)
HasPlainName(it) == it.name.k = "s"
Tq(it) == CASE it.kind = "col" -> (IF HasPlainName(it) THEN Plain(it.tab \o U \o it.name.b) ELSE None)
            [] it.kind = "lab" -> it.name
            [] OTHER -> None
TqKey(it) == CASE it.kind = "col" -> it.tab \o U \o it.key [] it.kind = "lab" -> it.name.b [] OTHER -> <<>>
Render(it) == it.kind \in {"col", "lab", "anon"}                 \* _render_label_in_columns_clause
ABase(it) == IF it.kind = "anon" THEN cANON ELSE it.name.b

\* ------------------------------------------------------------------ 1. _generate_columns_plus_names(anon_for_dupe_key) + _column_naming_convention
NamesHas(names, n) == \E i \in 1..Len(names) : names[i].n = n
NamesGet(names, n) == names[CHOOSE i \in 1..Len(names) : names[i].n = n].id
DD == <<"dd1", "dd2", "dd3", "dd4", "dd5", "dd6">>
Dedupe(it, tpc, dd) == LET lab == IF tpc \/ it.kind = "anon" THEN (IF Tq(it) = None THEN cANON ELSE Tq(it).b) ELSE ABase(it)
                       IN Anon(DD[dd], lab \o U)
\* proxy key with the naming convention's own anonymous counter (pkm: (item, base) -> name)
ProxyKey(st, it, style) ==
  IF it.kind = "txt" THEN [st |-> st, v |-> <<>>]
  ELSE LET tpc == style = "tpc"
           has == IF tpc THEN it.kind \in {"col", "lab"} ELSE it.kind \in {"col", "lab", "lit"}
           base == IF ~has THEN cNOLABEL ELSE IF tpc THEN TqKey(it) ELSE it.key
       IN IF style = "none" THEN [st |-> st, v |-> base]
          ELSE IF base \in st.pkn
               THEN IF \E i \in 1..Len(st.pkm) : st.pkm[i].id = it.id /\ st.pkm[i].b = base
                    THEN [st |-> st, v |-> st.pkm[CHOOSE i \in 1..Len(st.pkm) : st.pkm[i].id = it.id /\ st.pkm[i].b = base].v]
                    ELSE LET n == Cardinality({i \in 1..Len(st.pkm) : st.pkm[i].b = base}) + 1
                             v == base \o U \o <<Digit(n)>>
                         IN [st |-> [st EXCEPT !.pkm = Append(@, [id |-> it.id, b |-> base, v |-> v])], v |-> v]
               ELSE [st |-> [st EXCEPT !.pkn = @ \cup {base}], v |-> base]
RECURSIVE PlusNames(_, _, _, _, _)
PlusNames(items, style, dupe, i, st) ==
  IF i > Len(items) THEN st.out
  ELSE
    LET it == items[i]
        tpc == style = "tpc"
        \* first part: effective / required / fallback name before the collision rules
        p1 == IF ~Render(it) THEN [eff |-> None, req |-> None, fb |-> None, rep |-> FALSE, names |-> st.names, dd |-> st.dd]
              ELSE IF style = "none"
                   THEN [eff |-> None, req |-> None, fb |-> (IF it.kind = "anon" THEN Anon(it.id, cANON) ELSE it.name), rep |-> FALSE,
                         names |-> st.names, dd |-> st.dd]
              ELSE IF it.kind = "anon"
                   THEN LET an == Anon(it.id, cANON)
                            rep == NamesHas(st.names, an)
                        IN [eff |-> None, req |-> None, fb |-> (IF rep THEN Dedupe(it, tpc, st.dd) ELSE an), rep |-> rep,
                            names |-> (IF rep THEN st.names ELSE Append(st.names, [n |-> an, id |-> it.id])),
                            dd |-> (IF rep THEN st.dd + 1 ELSE st.dd)]
              ELSE IF tpc THEN [eff |-> Tq(it), req |-> Tq(it), fb |-> Tq(it), rep |-> FALSE, names |-> st.names, dd |-> st.dd]
              ELSE [eff |-> it.name, req |-> None, fb |-> it.name, rep |-> FALSE, names |-> st.names, dd |-> st.dd]
        \* second part: the name is already taken
        p2 == IF p1.eff = None THEN p1
              ELSE IF ~NamesHas(p1.names, p1.eff) THEN [p1 EXCEPT !.names = Append(@, [n |-> p1.eff, id |-> it.id])]
              ELSE IF NamesGet(p1.names, p1.eff) # it.id
                   THEN LET an == Anon(it.id, IF tpc THEN Tq(it).b ELSE ABase(it))
                        IN IF dupe /\ NamesHas(p1.names, an)
                           THEN [p1 EXCEPT !.req = Dedupe(it, tpc, p1.dd), !.fb = Dedupe(it, tpc, p1.dd), !.rep = TRUE, !.dd = @ + 1]
                           ELSE [p1 EXCEPT !.req = an, !.fb = an,
                                           !.names = IF NamesHas(@, an) THEN @ ELSE Append(@, [n |-> an, id |-> it.id])]
              ELSE IF dupe THEN [p1 EXCEPT !.req = Dedupe(it, tpc, p1.dd), !.fb = Dedupe(it, tpc, p1.dd), !.rep = TRUE, !.dd = @ + 1]
              ELSE p1
        pk == ProxyKey(st, it, style)
    IN PlusNames(items, style, dupe, i + 1,
                 [names |-> p2.names, dd |-> p2.dd, pkn |-> pk.st.pkn, pkm |-> pk.st.pkm,
                  out |-> Append(st.out, [req |-> p2.req, proxy |-> pk.v, fb |-> p2.fb, rep |-> p2.rep])])
PN(items, style, dupe) == PlusNames(items, style, dupe, 1, [names |-> <<>>, dd |-> 1, pkn |-> {}, pkm |-> <<>>, out |-> <<>>])

\* ------------------------------------------------------------------ 2. the compiler: anonymous map, truncation, result-map entries
Ctx0 == [amap |-> <<>>, tmemo |-> <<>>, tc |-> 1]
Resolve(ctx, n) ==
  IF n.k = "s" THEN [ctx |-> ctx, v |-> n.b]
  ELSE IF \E i \in 1..Len(ctx.amap) : ctx.amap[i].t = n
       THEN [ctx |-> ctx, v |-> ctx.amap[CHOOSE i \in 1..Len(ctx.amap) : ctx.amap[i].t = n].v]
       ELSE LET k == Cardinality({i \in 1..Len(ctx.amap) : ctx.amap[i].t.b = n.b}) + 1
                v == n.b \o U \o <<Digit(k)>>
            IN [ctx |-> [ctx EXCEPT !.amap = Append(@, [t |-> n, v |-> v])], v |-> v]
\* SQLCompiler._truncated_identifier("colident", name); ll = 0 stands for label_length None (no truncation in this alphabet)
Trunc(ctx, n, ll) ==
  IF \E i \in 1..Len(ctx.tmemo) : ctx.tmemo[i].t = n
  THEN [ctx |-> ctx, v |-> ctx.tmemo[CHOOSE i \in 1..Len(ctx.tmemo) : ctx.tmemo[i].t = n].v]
  ELSE LET r == Resolve(ctx, n)
           cut == ll > 0 /\ Len(r.v) > ll - 6
           v == IF cut THEN SubSeq(r.v, 1, Min(ll - 6, Len(r.v))) \o U \o <<Digit(ctx.tc)>> ELSE r.v
       IN [ctx |-> [r.ctx EXCEPT !.tmemo = Append(@, [t |-> n, v |-> v]), !.tc = IF cut THEN @ + 1 ELSE @], v |-> v]
\* one entry of compiled._result_columns: kn = keyname (rendered), nm = name (lookup key), objs, desc = name in cursor.description
Entry(kn, nm, objs, txt) == [kn |-> kn, nm |-> nm, objs |-> objs, desc |-> kn, txt |-> txt]
TqStr(it) == IF Tq(it) = None THEN <<>> ELSE <<StrKey(Tq(it).b)>>
RECURSIVE Compile(_, _, _, _, _, _)
Compile(items, pn, ll, i, ctx, out) ==
  IF i > Len(items) THEN out
  ELSE
    LET it == items[i]
        p == pn[i]
        r == IF it.kind = "lab" THEN [ctx |-> ctx, e |-> Entry(it.name.b, it.name, <<ObjKey(it.id), StrKey(it.name.b)>>, FALSE)]
             ELSE IF it.kind = "txt"
             THEN [ctx |-> ctx, e |-> [kn |-> <<>>, nm |-> None, objs |-> <<ObjKey(it.id)>>, desc |-> it.desc, txt |-> TRUE]]
             ELSE IF p.req # None
             THEN LET t == Trunc(ctx, p.req, ll)
                  IN [ctx |-> t.ctx, e |-> Entry(t.v, p.req, <<ClKey(i), StrKey(t.v), ObjKey(it.id), StrKey(p.proxy)>> \o TqStr(it), FALSE)]
             ELSE IF it.kind = "anon"
             THEN LET t == Trunc(ctx, p.fb, ll)
                  IN [ctx |-> t.ctx, e |-> Entry(t.v, p.fb, <<ClKey(i), StrKey(t.v), ObjKey(it.id), StrKey(p.proxy)>>, FALSE)]
             ELSE LET t == IF it.tr THEN Trunc(ctx, it.name, ll) ELSE [ctx |-> ctx, v |-> it.name.b]        \* visit_column
                  IN [ctx |-> t.ctx, e |-> Entry(t.v, it.name, <<ObjKey(it.id), StrKey(t.v), StrKey(it.key)>> \o TqStr(it), FALSE)]
        e == IF p.rep /\ it.kind # "txt" THEN [r.e EXCEPT !.objs = <<StrKey(r.e.kn)>>] ELSE r.e        \* column_is_repeated
    IN Compile(items, pn, ll, i + 1, r.ctx, Append(out, e))
\* TextualSelect: the column arguments are processed outside of any SELECT (visit_column / visit_label directly)
RECURSIVE Bare(_, _, _, _, _, _)
Bare(items, desc, ll, i, ctx, out) ==
  IF i > Len(items) THEN out
  ELSE LET it == items[i]
       IN IF it.kind = "lab"
          THEN Bare(items, desc, ll, i + 1, ctx,
                    Append(out, [kn |-> it.name.b, nm |-> it.name, objs |-> <<ObjKey(it.id), StrKey(it.name.b)>>, desc |-> desc[i], txt |-> FALSE]))
          ELSE LET t == IF it.tr THEN Trunc(ctx, it.name, ll) ELSE [ctx |-> ctx, v |-> it.name.b]
               IN Bare(items, desc, ll, i + 1, t.ctx,
                       Append(out, [kn |-> t.v, nm |-> it.name, objs |-> <<ObjKey(it.id), StrKey(t.v), StrKey(it.key)>> \o TqStr(it),
                                    desc |-> desc[i], txt |-> FALSE]))

\* ------------------------------------------------------------------ wrappers: SELECT * FROM (inner) AS sq  /  WITH sq AS (inner) SELECT * FROM sq
\* Subquery.c: one proxy per inner column, name = required label or own name, key = proxy key (Label: its own key); table-column
\* proxies and anonymous names are truncatable.  An explicit label that would have to be renamed is refused by the constructor.
WrapOK(items, style) == LET pn == PN(items, style, FALSE)
                        IN \A i \in 1..Len(items) : items[i].kind = "lab" => pn[i].req \in {None, items[i].name}
Outer(items, style) ==
  LET pn == PN(items, style, FALSE)
  IN [i \in 1..Len(items) |->
        LET it == items[i]
            nm == IF pn[i].req # None THEN pn[i].req ELSE it.name
        IN [id |-> "sq." \o it.id, kind |-> "col", tab |-> cSQ, name |-> nm, key |-> (IF it.kind = "lab" THEN it.key ELSE pn[i].proxy),
            e |-> it.e, tr |-> (it.kind = "col" \/ nm.k # "s"), desc |-> <<>>]]

\* ------------------------------------------------------------------ 3. CursorResultMetaData
AMB == 0 - 1
NOSUCH == 0 - 2
UNSPEC == 0 - 3
Raw(idx, ridx, objs, lk, rn) == [idx |-> idx, ridx |-> ridx, objs |-> objs, lk |-> lk, rn |-> rn]
\* _create_description_match_map: sequential; d is a sequence of [k, objs, ridx] (a dict in insertion order)
DHas(d, k) == \E i \in 1..Len(d) : d[i].k = k
DIdx(d, k) == CHOOSE i \in 1..Len(d) : d[i].k = k
RECURSIVE SetDefaults(_, _, _, _)
SetDefaults(d, ks, j, rec) == IF j > Len(ks) THEN d
                              ELSE SetDefaults(IF DHas(d, ks[j]) THEN d ELSE Append(d, [k |-> ks[j], objs |-> rec.objs, ridx |-> rec.ridx]), ks, j + 1, rec)
RECURSIVE MatchMap(_, _, _, _, _)
MatchMap(ents, i, d, loose, fx) ==
  IF i > Len(ents) THEN (IF fx THEN loose ELSE d)
  ELSE LET e == ents[i]
           k == StrKey(e.kn)
           d1 == IF DHas(d, k) THEN [d EXCEPT ![DIdx(d, k)] = [k |-> k, objs |-> @.objs \o e.objs, ridx |-> i - 1]]
                 ELSE Append(d, [k |-> k, objs |-> e.objs, ridx |-> i - 1])
           rec == [objs |-> e.objs, ridx |-> i - 1]
       IN IF fx THEN MatchMap(ents, i + 1, d1, Append(loose, rec), fx)      \* repaired: aliases only fill gaps, after all names
          ELSE MatchMap(ents, i + 1, SetDefaults(d1, e.objs, 1, rec), loose, fx)
RECURSIVE ApplyLoose(_, _, _)
ApplyLoose(d, loose, i) == IF i > Len(loose) THEN d ELSE ApplyLoose(SetDefaults(d, loose[i].objs, 1, loose[i]), loose, i + 1)
RECURSIVE NamesOnly(_, _, _)
NamesOnly(ents, i, d) ==
  IF i > Len(ents) THEN d
  ELSE LET e == ents[i]
           k == StrKey(e.kn)
       IN NamesOnly(ents, i + 1, IF DHas(d, k) THEN [d EXCEPT ![DIdx(d, k)] = [k |-> k, objs |-> @.objs \o e.objs, ridx |-> i - 1]]
                                 ELSE Append(d, [k |-> k, objs |-> e.objs, ridx |-> i - 1]))
MatchD(ents, fxl) == IF fxl THEN ApplyLoose(NamesOnly(ents, 1, <<>>), MatchMap(ents, 1, <<>>, <<>>, TRUE), 1)
                     ELSE MatchMap(ents, 1, <<>>, <<>>, FALSE)
\* the merge strategy and the raw records; "err" = InvalidRequestError "Duplicate column expression requested in textual SQL"
AnyTxt(ents) == \E i \in 1..Len(ents) : ents[i].txt
Strategy(ents, mode) == CASE mode = "pos" /\ ~AnyTxt(ents) -> "positional"
                          [] mode \in {"pos", "tpos"} -> "textpos"
                          [] mode = "tname" -> "byname"
                          [] mode = "text" -> "none"
DupFirstObj(ents) == \E i, j \in 1..Len(ents) : i < j /\ ents[i].objs[1] = ents[j].objs[1]
RawOf(ents, mode, fxl) ==
  LET n == Len(ents)
      st == Strategy(ents, mode)
  IN CASE st = "positional" -> [i \in 1..n |-> Raw(i - 1, i - 1, ents[i].objs, NameKey(ents[i].nm), StrKey(ents[i].kn))]
       [] st = "textpos" -> [i \in 1..n |-> Raw(i - 1, i - 1, ents[i].objs, StrKey(ents[i].desc), StrKey(ents[i].desc))]
       [] st = "byname" -> LET d == MatchD(ents, fxl)
                           IN [i \in 1..n |-> LET k == StrKey(ents[i].desc)
                                              IN IF DHas(d, k) THEN Raw(i - 1, d[DIdx(d, k)].ridx, d[DIdx(d, k)].objs, k, k)
                                                 ELSE Raw(i - 1, 0 - 2, <<>>, k, k)]
       [] st = "none" -> [i \in 1..n |-> Raw(i - 1, 0 - 2, <<>>, StrKey(ents[i].desc), StrKey(ents[i].desc))]
KeysOf(r) == {r.rn} \cup Range(r.objs)
AllKeys(raw) == UNION {KeysOf(raw[i]) \cup {raw[i].lk} : i \in 1..Len(raw)}
\* the key map, said as a function: dupes (Amb) > primary lookup names > target objects (last one wins / Amb when repaired)
Lookup(raw, compiled, fxd, k) ==
  LET n == Len(raw)
      byLk == {i \in 1..n : raw[i].lk = k}
      holders == {i \in 1..n : k \in Range(raw[i].objs)}
      dupesPath == Cardinality({raw[i].lk : i \in 1..n}) # n
      dupe == \E i, j \in 1..n : i # j /\ k \in KeysOf(raw[i]) /\ k \in KeysOf(raw[j])
  IN IF ~compiled
     THEN IF byLk = {} THEN NOSUCH ELSE IF fxd /\ Cardinality(byLk) > 1 THEN AMB ELSE raw[MaxOf(byLk)].idx
     ELSE IF dupesPath
          THEN IF dupe THEN AMB
               ELSE IF byLk # {} THEN raw[MaxOf(byLk)].idx
               ELSE IF holders # {} THEN raw[MaxOf(holders)].idx
               ELSE NOSUCH
          ELSE IF byLk # {} THEN raw[MaxOf(byLk)].idx
               ELSE IF holders = {} THEN NOSUCH
               ELSE IF fxd /\ Cardinality(holders) > 1 THEN AMB
               ELSE raw[MaxOf(holders)].idx

\* ------------------------------------------------------------------ a case, evaluated
WrapKinds == {"col", "lab"}
CaseWF(cs) ==
  LET items == [i \in 1..Len(cs.items) |-> ItemOf(cs.items[i])]
      plain == \A i \in 1..Len(items) : items[i].kind \in WrapKinds
  IN /\ (cs.mode # "pos" => plain)
     /\ (cs.wrap \in {"subq", "cte"} => /\ plain /\ cs.style # "none"
                                        /\ \A i, j \in 1..Len(items) : i # j => items[i].id # items[j].id
                                        /\ WrapOK(items, cs.style))
Eval(cs) ==
  LET inner == [i \in 1..Len(cs.items) |-> ItemOf(cs.items[i])]
      wrapped == cs.wrap \in {"subq", "cte"}
      items == IF wrapped THEN Outer(inner, cs.style) ELSE inner
      style == IF wrapped THEN "dis" ELSE cs.style
      sel == Compile(items, PN(items, style, TRUE), cs.ll, 1, Ctx0, <<>>)
      desc == [i \in 1..Len(sel) |-> sel[i].desc]
      ents == IF cs.mode \in {"tpos", "tname"} THEN Bare(items, desc, cs.ll, 1, Ctx0, <<>>) ELSE sel
      st == Strategy(ents, cs.mode)
      \* the by-name protocol: the SQL text labels its columns with the names of the column arguments
      protocol == cs.mode = "tname" => \A i \in 1..Len(ents) : ents[i].desc = ents[i].kn
      err == st = "textpos" /\ DupFirstObj(ents)
  IN [items |-> items, ents |-> ents, st |-> st, protocol |-> protocol, err |-> err,
      keys |-> IF st = "positional" THEN [i \in 1..Len(ents) |-> ents[i].kn] ELSE desc,
      rawF |-> RawOf(ents, cs.mode, TRUE), rawL |-> RawOf(ents, cs.mode, FALSE), compiled |-> st # "none"]
Look(ev, fx, k) == Lookup(IF fx THEN ev.rawF ELSE ev.rawL, ev.compiled, fx, k)

\* second execution from the compiled cache with an equal, freshly built statement (_adapt_to_context): the key map gains
\* {new object: record whose result-map index is the object's position}; a repeated object keeps its LAST position.
InKm(ev, fx, i) == LET raw == IF fx THEN ev.rawF ELSE ev.rawL IN \E k \in AllKeys(raw) : Look(ev, fx, k) = raw[i].idx
Fresh(ev, fx, pos) ==
  LET raw == IF fx THEN ev.rawF ELSE ev.rawL
      n == Len(raw)
      ps == {p \in 1..n : ev.items[p].id = ev.items[pos].id}
      recs(p) == {i \in 1..n : raw[i].ridx = p - 1 /\ InKm(ev, fx, i)}
      cand == {p \in ps : recs(p) # {}}
      persistent == ev.items[pos].id \in TableCols
  IN IF ev.st = "none" THEN NOSUCH
     ELSE IF cand # {} THEN (IF Cardinality(recs(MaxOf(cand))) = 1 THEN raw[CHOOSE i \in recs(MaxOf(cand)) : TRUE].idx ELSE UNSPEC)
     ELSE IF persistent THEN Look(ev, fx, ObjKey(ev.items[pos].id)) ELSE NOSUCH

\* ------------------------------------------------------------------ what the property says
\* Positions that HOLD a key: by result key (primary: Result.keys(), and the untruncated label name it stands for), by one of the
\* other documented / legacy string aliases of the selected element (column name, Column.key, table-qualified label), by identity.
StrOf(objs) == {objs[j].s : j \in {j \in 1..Len(objs) : objs[j].t = "str"}}
Primary(ev, cs, s) == {i \in 1..Len(ev.ents) : ev.keys[i] = s \/ (ev.st = "positional" /\ ev.ents[i].nm = Plain(s))}
Alt(ev, cs, s) == IF ev.st = "none" THEN {} ELSE {i \in 1..Len(ev.ents) : s \in StrOf(ev.ents[i].objs)}
SameExpr(ev, P) == Cardinality({ev.items[i].e : i \in P}) = 1
Idx(P) == {i - 1 : i \in P}
DupKeys(ev) == Cardinality(Range(ev.keys)) # Len(ev.keys)
AccStr(ev, cs, s) ==
  LET p1 == Primary(ev, cs, s)
      p2 == Alt(ev, cs, s)
  IN IF Cardinality(p1) = 1
     THEN Idx(p1) \cup (IF DupKeys(ev) /\ p2 \ p1 # {} THEN {AMB} ELSE {})     \* NAMED DEVIATION PrimaryVsAliasWhenDupes (raises; upstream-tested)
     ELSE IF Cardinality(p1) > 1 THEN {AMB} \cup (IF SameExpr(ev, p1) THEN Idx(p1) ELSE {})
     ELSE IF p2 = {} THEN {NOSUCH}
     ELSE IF SameExpr(ev, p2) THEN Idx(p2) \cup {AMB, NOSUCH}
     ELSE {AMB, NOSUCH}                                                          \* never one of the candidates
AccObj(ev, cs, id) ==
  LET P == {i \in 1..Len(ev.items) : ev.items[i].id = id}
  IN IF ev.st = "none" \/ P = {} THEN {NOSUCH}
     ELSE IF ev.st = "byname"
          THEN LET e == ev.ents[CHOOSE i \in P : TRUE]
                   q1 == {j \in 1..Len(ev.keys) : ev.keys[j] = e.kn}
                   q == IF q1 # {} THEN q1 ELSE {j \in 1..Len(ev.keys) : ev.keys[j] \in StrOf(e.objs)}
               IN IF q = {} THEN {NOSUCH} ELSE IF Cardinality(q) = 1 THEN Idx(q) ELSE {AMB} \cup (IF SameExpr(ev, q) THEN Idx(q) ELSE {})
          ELSE IF Cardinality(P) = 1 THEN Idx(P) ELSE Idx(P) \cup {AMB, NOSUCH}

Probes == {cX, cK, cID, cY, cP, cR, cAX, cB \o U \o cX, cX \o U \o <<"1">>, cLX, cLONG, cA \o U \o cLONG, cNOSUCH, cA \o U \o cK,
           cANON \o U \o <<"1">>, U \o <<"1">>, U \o <<"2">>, cSQ \o U \o cX, cNOLABEL}
StrProbes(ev) == Probes \cup {k.s : k \in {k \in AllKeys(ev.rawL) \cup AllKeys(ev.rawF) : k.t = "str"}}
ObjProbes(ev, cs) == TableCols \cup {cs.items[i] : i \in 1..Len(cs.items)} \cup {ev.items[i].id : i \in 1..Len(ev.items)}

\* finding classes (what differs between the pinned tree and the repaired mechanism)
FindingClass(ev, cs) == CASE ev.st = "none" -> "RawTextDupes"          \* raw text(): duplicate names, the last column answers silently
                          [] ev.st = "byname" /\ ev.rawF # ev.rawL -> "LooseAlias"    \* an alias of one column captures another column's name
                          [] OTHER -> "AltCollision"                   \* two columns share a secondary string key, the last one answers
\* ------------------------------------------------------------------ theorems + output, evaluated ONCE per case (the state is the result)
\* T.s[s] / T.o[id] = <<repaired outcome, pinned outcome>>
Table(ev, cs) == [s |-> [s \in StrProbes(ev) |-> <<Look(ev, TRUE, StrKey(s)), Look(ev, FALSE, StrKey(s))>>],
                  o |-> [id \in ObjProbes(ev, cs) |-> <<Look(ev, TRUE, ObjKey(id)), Look(ev, FALSE, ObjKey(id))>>]]
Sound(ev, cs, T) ==
   /\ \A s \in DOMAIN T.s : T.s[s][1] \in AccStr(ev, cs, s)
   /\ \A id \in DOMAIN T.o : T.o[id][1] \in AccObj(ev, cs, id)
   /\ \A i \in 1..Len(ev.keys) : T.s[ev.keys[i]][1] \in {i - 1, AMB}             \* Result.columns(i): IntThroughName
ObjOnce(ev, cs, T) == ev.st \notin {"positional", "textpos"} \/
   \A i \in 1..Len(ev.items) : Cardinality({j \in 1..Len(ev.items) : ev.items[j].id = ev.items[i].id}) = 1 =>
        T.o[ev.items[i].id] = <<i - 1, i - 1>>
NameOnce(ev, cs, T) ==
   \A i \in 1..Len(ev.keys) : (Primary(ev, cs, ev.keys[i]) = {i} /\ Alt(ev, cs, ev.keys[i]) \subseteq {i}) =>
        /\ T.s[ev.keys[i]][1] = i - 1
        /\ (ev.st # "byname" => T.s[ev.keys[i]][2] = i - 1)       \* pinned by-name matching: finding class LooseAlias may raise here
Differs(T) == (\E s \in DOMAIN T.s : T.s[s][1] # T.s[s][2]) \/ (\E id \in DOMAIN T.o : T.o[id][1] # T.o[id][2])
LegacyClassified(ev, cs, T) == Differs(T) =>
   CASE FindingClass(ev, cs) = "RawTextDupes" -> DupKeys(ev)
     [] FindingClass(ev, cs) = "LooseAlias" -> TRUE
     [] OTHER -> ~DupKeys(ev) /\ \E s \in DOMAIN T.s : Cardinality(Alt(ev, cs, s)) > 1 /\ Primary(ev, cs, s) = {}
\* the pinned mechanism never answers outside Acceptable EXCEPT in the finding classes
LegacySoundElsewhere(ev, cs, T) == Differs(T) \/
   /\ \A s \in DOMAIN T.s : T.s[s][2] \in AccStr(ev, cs, s)
   /\ \A id \in DOMAIN T.o : T.o[id][2] \in AccObj(ev, cs, id)

Full(cs) ==
  LET ev == Eval(cs)
      n == Len(ev.items)
      T == Table(ev, cs)
  IN IF ev.err THEN [items |-> cs.items, style |-> cs.style, ll |-> cs.ll, mode |-> cs.mode, wrap |-> cs.wrap, execError |-> TRUE, protocol |-> ev.protocol,
                     thSound |-> TRUE, thObjOnce |-> TRUE, thNameOnce |-> TRUE, thClassified |-> TRUE, thLegacyElsewhere |-> TRUE]
     ELSE [items |-> cs.items, style |-> cs.style, ll |-> cs.ll, mode |-> cs.mode, wrap |-> cs.wrap, execError |-> FALSE, protocol |-> ev.protocol,
           strategy |-> ev.st, keys |-> ev.keys, exprs |-> [i \in 1..n |-> ev.items[i].e], posids |-> [i \in 1..n |-> ev.items[i].id],
           str |-> {[k |-> s, o |-> T.s[s][1], l |-> T.s[s][2]] : s \in DOMAIN T.s},
           obj |-> {[k |-> id, o |-> T.o[id][1], l |-> T.o[id][2]] : id \in DOMAIN T.o},
           fresh |-> [i \in 1..n |-> [o |-> Fresh(ev, TRUE, i), l |-> Fresh(ev, FALSE, i)]],
           cint |-> [i \in 1..n |-> [o |-> T.s[ev.keys[i]][1], l |-> T.s[ev.keys[i]][2]]],
           differs |-> Differs(T), finding |-> IF Differs(T) THEN FindingClass(ev, cs) ELSE "",
           dupkeys |-> DupKeys(ev),
           thSound |-> Sound(ev, cs, T), thObjOnce |-> ObjOnce(ev, cs, T), thNameOnce |-> NameOnce(ev, cs, T),
           thClassified |-> LegacyClassified(ev, cs, T), thLegacyElsewhere |-> LegacySoundElsewhere(ev, cs, T)]

Lists == UNION {[1..k -> Alphabet] : k \in 1..MaxLen}
Picked == IF Sample = 0 THEN Lists ELSE RandomSubset(Min(Sample, Cardinality(Lists)), Lists)
Init == \E cs \in [items : Picked, style : Styles, ll : LLs, mode : Modes, wrap : Wraps] :
           /\ CaseWF(cs)
           /\ c = Full(cs)
           /\ c.protocol
           /\ PrintT(ToJson(c))
Next == UNCHANGED vars
InvSound == c.thSound
InvObjOnce == c.thObjOnce
InvNameOnce == c.thNameOnce
InvLegacyClassified == c.thClassified
InvLegacySoundElsewhere == c.thLegacyElsewhere
=============================================================================
