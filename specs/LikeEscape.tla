---------------------------- MODULE LikeEscape ----------------------------
(* C08: contains / startswith / endswith and their case-insensitive variants with autoescape=True.

   Strings are sequences of one-character strings over the ordered alphabet Chars, which contains the two SQL
   wildcards, the escape character E, a cased letter pair a / A and the quote.  Three ingredients:
     * LikeMatch(p, t)   SQL LIKE with ESCAPE E (as SQLite implements it: an escaped character matches itself,
                         a dangling escape character matches nothing),
     * Esc(s)            the autoescape transform of sql/operators.py _escaped_like_impl, stated per character,
     * the six operators as the compiler composes them ('%' || Esc(s) || '%', lower(...) around both sides).
   THEOREM (checked by TLC as invariants over every operand s and every text t within the bound):
     the operator matches t  <=>  the Python substring / prefix / suffix test on (s, t) holds,
     case-folded on both sides for the i-variants.
   Every state (one operand s) prints the escaped value and, per operator, the set of matching texts; the binding
   requires the real bound parameter to equal Esc(s) and the rows SQLite returns to equal those sets.
   Mode "calib" enumerates RAW patterns instead (no escaping) to calibrate LikeMatch against SQLite itself.   *)
EXTENDS Integers, Sequences, FiniteSets, TLC, Json
CONSTANTS Alpha,     \* "full": <<"%", "_", "/", "a", "A", "'">>   "small": without the quote   "letters": <<"%", "_", "a", "A">>
          E,         \* the escape character, a member of the alphabet ("/" stands for any non-alphanumeric escape character)
          MaxS,      \* operands (patterns) up to this length
          MaxT,      \* texts up to this length
          Mode       \* "ops" | "calib"

Chars == IF Alpha = "full" THEN <<"%", "_", "/", "a", "A", "'">>
         ELSE IF Alpha = "small" THEN <<"%", "_", "/", "a", "A">> ELSE <<"%", "_", "a", "A">>
B == Len(Chars)
Alphabet == {Chars[i] : i \in 1..B}
RECURSIVE Pow(_, _)
Pow(b, n) == IF n = 0 THEN 1 ELSE b * Pow(b, n - 1)
\* all strings of length m, in base-B order
OfLen(m) == [k \in 1..Pow(B, m) |-> [i \in 1..m |-> Chars[(((k - 1) \div Pow(B, m - i)) % B) + 1]]]
RECURSIVE UpTo(_)
UpTo(n) == IF n = 0 THEN OfLen(0) ELSE UpTo(n - 1) \o OfLen(n)
Texts == UpTo(MaxT)                       \* row i of the table holds Texts[i]
Operands == {UpTo(MaxS)[i] : i \in 1..Len(UpTo(MaxS))}
TIdx == 1..Len(Texts)

Lower(c) == IF c = "A" THEN "a" ELSE c
LowerS(s) == [i \in 1..Len(s) |-> Lower(s[i])]

\* ---------------------------------------------------------------- LIKE with ESCAPE E
RECURSIVE LikeMatch(_, _)
LikeMatch(p, t) ==
  IF p = <<>> THEN t = <<>>
  ELSE IF Head(p) = E
       THEN IF Len(p) = 1 THEN FALSE                                    \* dangling escape character
            ELSE t # <<>> /\ Head(t) = p[2] /\ LikeMatch(Tail(Tail(p)), Tail(t))
  ELSE IF Head(p) = "%" THEN \E n \in 0..Len(t) : LikeMatch(Tail(p), SubSeq(t, n + 1, Len(t)))
  ELSE t # <<>> /\ (Head(p) = "_" \/ Head(p) = Head(t)) /\ LikeMatch(Tail(p), Tail(t))

\* ---------------------------------------------------------------- autoescape
RECURSIVE Esc(_)
Esc(s) == IF s = <<>> THEN <<>>
          ELSE (IF Head(s) \in {E, "%", "_"} THEN <<E, Head(s)>> ELSE <<Head(s)>>) \o Esc(Tail(s))
P == <<"%">>
\* the operators as rendered:  x LIKE '%' || :esc || '%' ESCAPE E   /   lower(x) LIKE '%' || lower(:esc) || '%' ESCAPE E
OpContains(s, t) == LikeMatch(P \o Esc(s) \o P, t)
OpStarts(s, t) == LikeMatch(Esc(s) \o P, t)
OpEnds(s, t) == LikeMatch(P \o Esc(s), t)
OpIContains(s, t) == LikeMatch(P \o LowerS(Esc(s)) \o P, LowerS(t))
OpIStarts(s, t) == LikeMatch(LowerS(Esc(s)) \o P, LowerS(t))
OpIEnds(s, t) == LikeMatch(P \o LowerS(Esc(s)), LowerS(t))
\* ---------------------------------------------------------------- the Python tests (declarative side)
IsSub(s, t) == \E i \in 0..(Len(t) - Len(s)) : SubSeq(t, i + 1, i + Len(s)) = s
IsPrefix(s, t) == Len(s) <= Len(t) /\ SubSeq(t, 1, Len(s)) = s
IsSuffix(s, t) == Len(s) <= Len(t) /\ SubSeq(t, Len(t) - Len(s) + 1, Len(t)) = s

VARIABLES s, out
vars == <<s, out>>
Matching(Op(_, _), x) == {i \in TIdx : Op(x, Texts[i])}
RawLike(p, t) == LikeMatch(p, t)
RawContains(p, t) == LikeMatch(P \o p \o P, t)
RawStarts(p, t) == LikeMatch(p \o P, t)
RawEnds(p, t) == LikeMatch(P \o p, t)
Init == /\ s \in Operands
        /\ out = IF Mode = "ops"
                 THEN [esc |-> Esc(s), contains |-> Matching(OpContains, s), startswith |-> Matching(OpStarts, s),
                       endswith |-> Matching(OpEnds, s), icontains |-> Matching(OpIContains, s),
                       istartswith |-> Matching(OpIStarts, s), iendswith |-> Matching(OpIEnds, s)]
                 ELSE [esc |-> s, like |-> Matching(RawLike, s), contains |-> Matching(RawContains, s),
                       startswith |-> Matching(RawStarts, s), endswith |-> Matching(RawEnds, s)]
        /\ PrintT(ToJson([s |-> s, out |-> out]))
Next == UNCHANGED vars
ASSUME E \in Alphabet /\ PrintT(ToJson([texts |-> Texts, escape |-> E, mode |-> Mode]))

\* ---------------------------------------------------------------- theorems
CasedOpsOK == Mode = "ops" =>
  \A i \in TIdx : LET t == Texts[i] IN
     /\ (i \in out.contains) = IsSub(s, t)
     /\ (i \in out.startswith) = IsPrefix(s, t)
     /\ (i \in out.endswith) = IsSuffix(s, t)
IOpsOK == Mode = "ops" =>
  \A i \in TIdx : LET t == Texts[i] IN
     /\ (i \in out.icontains) = IsSub(LowerS(s), LowerS(t))
     /\ (i \in out.istartswith) = IsPrefix(LowerS(s), LowerS(t))
     /\ (i \in out.iendswith) = IsSuffix(LowerS(s), LowerS(t))
\* the escaped value never contains a live wildcard: every % and _ in it is preceded by an odd-length... simply:
\* un-escaping gives the operand back, and LIKE on the escaped value alone is equality
EscapeIsLiteral == Mode = "ops" =>
  /\ \A i \in TIdx : LikeMatch(Esc(s), Texts[i]) = (Texts[i] = s)
  /\ Len(out.esc) = Len(s) + Cardinality({i \in 1..Len(s) : s[i] \in {E, "%", "_"}})
\* calibration mode: sanity of LikeMatch itself
RawOK == Mode = "calib" =>
  /\ ((\A i \in 1..Len(s) : s[i] \notin {E, "%", "_"}) => \A i \in TIdx : (i \in out.like) = (Texts[i] = s))
  /\ (s = <<"%">> => out.like = TIdx)
  /\ (s = <<"_">> => out.like = {i \in TIdx : Len(Texts[i]) = 1})
=============================================================================
