---------------------------- MODULE TraceCatalog ----------------------------
(* Code -> spec trace validation for C14: DDL streams recorded from the real MetaData.create_all / drop_all /
   Table.create / Table.drop / Index.create / Index.drop / MetaData.sorted_tables are replayed through the
   enforcing Catalog.  ONE TLC run (-workers 1) consumes every trace in the file IOEnv.TRACE_FILE:

     trace  = [id, be, tb, fk, ix, ev]      be = "pg"   PostgreSQL dialect on a mock connection (ALTER, strict)
                                                  "lite" SQLite dialect on a mock connection (no ALTER)
                                                  "real" SQLite executing for real, foreign_keys=ON
              tb/fk/ix = the MetaData's graph (DdlGraphs)
     events = Call c ts cf       a public call starts (ts = tables it applies to, cf = checkfirst)
              HT ts bs / HI n b  the answer the backend gave to has_table / has_index
              CT t fks | AC t n d | DC t n | DT t | CI n t | DI n     one DDL statement, PARSED FROM THE SQL TEXT
              Ret x w [ts]       the call returned (x = exception class or "", w = warning kinds, ts = sorted_tables result)
              Obs ts fks ixs     what the real database contains (inspector), "real" only
              RowsFailed x       the harness could not insert its rows ("real" only; never accepted)

   Every DDL event must be an enabled Catalog action in the mode of the backend (Catalog.tla guards), plus the
   documented meaning of use_alter on an ALTER-capable backend.  Every Ret carries the POSTCONDITION of its call:
   after create_all the catalog is the graph (tables, all constraints incl. deferred ones, indexes - restricted
   to what was asked for plus what pre-existed), after drop_all it is what pre-existed minus what was asked for,
   sorted_tables lists referenced before referencing.  The chain is deterministic: a failing event prints
   [rej, at, ev, why, cat, call] (why = names of the false conjuncts) and validation continues with the next trace.   *)
EXTENDS DdlGraphs, IOUtils
Traces == ndJsonDeserialize(IOEnv.TRACE_FILE)      \* one trace per line
NT == Len(Traces)
VARIABLES tid, l, m, call, nrej
tvars == <<tid, l, m, call, nrej, cat, g>>

SeqSet(s) == {s[i] : i \in 1..Len(s)}
NoCall == [c |-> "", ts |-> {}, cf |-> FALSE, cat0 |-> EmptyCat]
EmptyGraph == [tb |-> {}, fk |-> {}, ix |-> {}]
GraphOfTrace(T) == [tb |-> SeqSet(T.tb), fk |-> SeqSet(T.fk), ix |-> SeqSet(T.ix)]
ModeOfTrace(T, G) == IF T.be = "pg" THEN PgMode ELSE [alter |-> FALSE, sc |-> FALSE, sd |-> LiteStrictDrop(G)]

CreateCalls == {"create_all", "table_create"}
DropCalls == {"drop_all", "table_drop"}
KnownFk(r) == \E f \in g.fk : CatFk(f) = r
UA(n) == \E f \in g.fk : f.n = n /\ f.ua
Inline(e) == {[n |-> x.n, s |-> e.t, d |-> x.d] : x \in SeqSet(e.fks)}
AsFk(e) == [n |-> e.n, s |-> e.t, d |-> e.d]
AsIx(e) == [n |-> e.n, t |-> e.t]

\* ---------------------------------------------------------------- Ret: the postcondition of each public call
\* tables the running DROP sorts (checkfirst narrows it to the existing ones)
DropSet == IF call.cf THEN call.ts \cap call.cat0.tables ELSE call.ts
AllowedRaise(x) == /\ call.c = "drop_all" /\ x = "CircularDependencyError"
                   /\ m.alter /\ DropRaisesCircular(g, DropSet)
ExpectedWarnings == CASE call.c = "sorted_tables" -> IF Cyclic(SortDeps(g)) THEN {"sort-cycle"} ELSE {}
                      [] call.c = "drop_all" /\ ~m.alter ->
                              IF Cyclic(Dep(Within(SortFks(g), DropSet))) THEN {"drop-cycle"} ELSE {}
                      [] OTHER -> {}
ExpectedCat(x) == CASE call.c \in CreateCalls -> SubCat(g, call.cat0.tables \cup call.ts)
                    [] call.c \in DropCalls -> IF x = "" THEN SubCat(g, call.cat0.tables \ call.ts) ELSE call.cat0
                    [] call.c = "index_create" -> [call.cat0 EXCEPT !.idx = @ \cup {i \in g.ix : i.n \in call.ts}]
                    [] call.c = "index_drop" -> [call.cat0 EXCEPT !.idx = {i \in @ : i.n \notin call.ts}]
                    [] OTHER -> call.cat0
WhyRet(e) == IF call.c = "" THEN {"Ret.a_call_is_in_progress"} ELSE
       Fail(call.c \o ".returns_without_exception", e.x = "" \/ AllowedRaise(e.x))
  \cup Fail(call.c \o ".post.tables_as_expected", cat.tables = ExpectedCat(e.x).tables)
  \cup Fail(call.c \o ".post.every_constraint_of_those_tables_and_no_other", cat.cons = ExpectedCat(e.x).cons)
  \cup Fail(call.c \o ".post.every_index_of_those_tables_and_no_other", cat.idx = ExpectedCat(e.x).idx)
  \cup Fail(call.c \o ".warnings_as_documented", SeqSet(e.w) = ExpectedWarnings)
  \cup (IF call.c # "sorted_tables" THEN {} ELSE
          IF ~IsPerm(e.ts, g.tb) THEN {"sorted_tables.is_a_permutation_of_the_tables"}
          ELSE Fail("sorted_tables.referenced_before_referencing", SortedRespects(g, e.ts)))

\* ---------------------------------------------------------------- one event
WhyEv(e) ==
  CASE e.e = "Call" -> Fail("Call.no_other_call_in_progress", call.c = "")
                       \cup Fail("Call.applies_to_tables_of_the_metadata",
                                 IF e.c \in {"index_create", "index_drop"} THEN SeqSet(e.ts) \subseteq Names(g.ix)
                                 ELSE SeqSet(e.ts) \subseteq g.tb)
    [] e.e = "HT" -> Fail("HasTable.answers_match_catalog", \A i \in 1..Len(e.ts) : e.bs[i] = (e.ts[i] \in cat.tables))
    [] e.e = "HI" -> Fail("HasIndex.answer_matches_catalog", e.b = (e.n \in Names(cat.idx)))
    [] e.e = "CT" -> Fail("CreateTable.emitted_by_a_create_call", call.c \in CreateCalls)
                     \cup Fail("CreateTable.table_was_asked_for", e.t \in call.ts)
                     \cup WhyCreateTable(m, cat, e.t, Inline(e))
                     \cup Fail("CreateTable.inline_fk_is_the_one_in_the_metadata", \A r \in Inline(e) : KnownFk(r))
                     \cup Fail("CreateTable.use_alter_fk_is_not_inline", m.alter => \A r \in Inline(e) : ~UA(r.n))
    [] e.e = "AC" -> Fail("AddConstraint.emitted_by_create_all", call.c = "create_all")
                     \cup WhyAddConstraint(m, cat, AsFk(e))
                     \cup Fail("AddConstraint.fk_is_the_one_in_the_metadata", KnownFk(AsFk(e)))
    [] e.e = "DC" -> Fail("DropConstraint.emitted_by_drop_all", call.c = "drop_all")
                     \cup WhyDropConstraint(m, cat, e.t, e.n)
    [] e.e = "DT" -> Fail("DropTable.emitted_by_a_drop_call", call.c \in DropCalls)
                     \cup Fail("DropTable.table_was_asked_for", e.t \in call.ts)
                     \cup WhyDropTable(m, cat, e.t)
                     \cup Fail("DropTable.use_alter_fks_dropped_by_alter_first",
                               (m.alter /\ call.c = "drop_all") => \A f \in cat.cons : f.s = e.t => ~UA(f.n))
    [] e.e = "CI" -> Fail("CreateIndex.emitted_by_a_create_call", call.c \in CreateCalls \cup {"index_create"})
                     \cup WhyCreateIndex(cat, AsIx(e))
                     \cup Fail("CreateIndex.index_is_the_one_in_the_metadata", AsIx(e) \in g.ix)
    [] e.e = "DI" -> Fail("DropIndex.emitted_by_index_drop", call.c = "index_drop")
                     \cup WhyDropIndex(cat, e.n)
    [] e.e = "Ret" -> WhyRet(e)
    [] e.e = "Obs" -> Fail("Observed.tables_equal_catalog", SeqSet(e.ts) = cat.tables)
                      \cup Fail("Observed.foreign_keys_equal_catalog", SeqSet(e.fks) = cat.cons)
                      \cup Fail("Observed.indexes_equal_catalog", SeqSet(e.ixs) = cat.idx)
    [] e.e = "RowsFailed" -> {"Harness.rows_can_be_inserted_into_the_tables_just_created"}
    [] e.e = "HarnessError" -> {"Harness.scenario_ran_to_completion"}
    [] OTHER -> {"DDL.statement_recognised"}

NewCat(e) == CASE e.e = "CT" -> DoCreateTable(cat, e.t, Inline(e))
               [] e.e = "AC" -> DoAddConstraint(cat, AsFk(e))
               [] e.e = "DC" -> DoDropConstraint(cat, e.t, e.n)
               [] e.e = "DT" -> DoDropTable(cat, e.t)
               [] e.e = "CI" -> DoCreateIndex(cat, AsIx(e))
               [] e.e = "DI" -> DoDropIndex(cat, e.n)
               [] OTHER -> cat
NewCall(e) == CASE e.e = "Call" -> [c |-> e.c, ts |-> SeqSet(e.ts), cf |-> e.cf, cat0 |-> cat]
                [] e.e = "Ret" -> NoCall
                [] OTHER -> call

\* ---------------------------------------------------------------- batch consumption
Start(k, r) == /\ tid' = k /\ l' = 1 /\ cat' = EmptyCat /\ call' = NoCall /\ nrej' = r
               /\ g' = IF k <= NT THEN GraphOfTrace(Traces[k]) ELSE EmptyGraph
               /\ m' = IF k <= NT THEN ModeOfTrace(Traces[k], GraphOfTrace(Traces[k])) ELSE PgMode
               /\ TLCSet(1, <<k, 1, r>>)
Consume == /\ tid <= NT /\ l <= Len(Traces[tid].ev)
           /\ LET e == Traces[tid].ev[l]
                  w == WhyEv(e)
              IN IF w = {}
                 THEN /\ cat' = NewCat(e) /\ call' = NewCall(e) /\ l' = l + 1
                      /\ UNCHANGED <<tid, m, g, nrej>> /\ TLCSet(1, <<tid, l + 1, nrej>>)
                 ELSE /\ PrintT(ToJson([rej |-> Traces[tid].id, at |-> l, ev |-> e, why |-> w, cat |-> cat, call |-> call.c]))
                      /\ Start(tid + 1, nrej + 1)
NextTrace == /\ tid <= NT /\ l > Len(Traces[tid].ev)
             /\ IF call.c = "" THEN Start(tid + 1, nrej)
                ELSE /\ PrintT(ToJson([rej |-> Traces[tid].id, at |-> l, ev |-> [e |-> "End"],
                                       why |-> {"Trace.ends_outside_a_call"}, cat |-> cat, call |-> call.c]))
                     /\ Start(tid + 1, nrej + 1)
TInit == /\ tid = 1 /\ l = 1 /\ cat = EmptyCat /\ call = NoCall /\ nrej = 0
         /\ g = IF NT >= 1 THEN GraphOfTrace(Traces[1]) ELSE EmptyGraph
         /\ m = IF NT >= 1 THEN ModeOfTrace(Traces[1], GraphOfTrace(Traces[1])) ELSE PgMode
         /\ TLCSet(1, <<1, 1, 0>>)
TNext == Consume \/ NextTrace

\* every catalog reached through accepted events is a legal state of the enforcing catalog
AcceptedStatesLegal == /\ (m.sc /\ m.sd) => NoDanglingOf(cat)
                       /\ \A f \in cat.cons : f.s \in cat.tables
                       /\ \A i \in cat.idx : i.t \in cat.tables
\* acceptance: everything consumed (register = NT + 1), number of rejected traces reported
Summary == LET p == TLCGet(1) IN PrintT(ToJson([consumed |-> p[1] - 1, total |-> NT, rejected |-> p[3]]))
=============================================================================
