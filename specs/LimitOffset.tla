---------------------------- MODULE LimitOffset ----------------------------
(* C18: LIMIT / OFFSET and their dialect emulations return exactly the requested slice.

   A fully ordered result is a sequence of row ids  R  (a total order: ORDER BY key, id);  Key[id] is the sort key, so rows
   with equal keys are TIES.  limit / offset range over None (-1) and 0..MaxN.

   Declarative side (the property's own words):
       Slice(R, lim, off)        rows off+1 .. off+lim of R        (None: no bound / 0)
       WithTies(R, lim, off)     Slice plus the following rows that tie with its last row           (FETCH FIRST n ROWS WITH TIES)
       Percent(R, p, off)        the first ceil(p * (rows after the offset) / 100) rows after the offset  (FETCH FIRST p PERCENT)
   Renderings whose meaning is defined HERE and proven equal to the declarative side by TLC:
       LimitOffsetForm(L, O)     LIMIT L OFFSET O, L = -1: no limit                (SQLite; PostgreSQL LIMIT ALL)
       MySqlCommaForm(a, b)      LIMIT a, b = skip a rows, then b rows; b = BIG is MySQL's 2^64-1 idiom for "all"
       OffsetFetchForm(o, n)     OFFSET o ROWS FETCH FIRST n ROWS ONLY ; n = -1: no FETCH clause       (MSSQL 2012+, Oracle 12c+)
       TopForm(n)                SELECT TOP n ... ORDER BY                                              (MSSQL without offset)
       RowNumberWrapper          SELECT .. FROM (SELECT .., ROW_NUMBER() OVER (ORDER BY ..) AS rn) WHERE rn > off AND rn <= lim + off
                                 - the OUTER query has no ORDER BY: its result is a SET; the theorem is about that set, and
                                 about the list a backend returns when it emits the rows in rn order (SQLite does)
       RownumForm                Oracle before 12c:  SELECT .. FROM (SELECT .., ROWNUM AS ora_rn FROM (ordered) WHERE ROWNUM <= lim + off)
                                 WHERE ora_rn > off - with ROWNUM's real semantics: a row gets the next number only if it passes the
                                 predicate (RownumFilter).  The naive single-level  WHERE ROWNUM > off  is shown NOT to work.
   Each state (keys, lim, off) prints the slice and the arguments every dialect form must carry; the binding executes what can be
   executed (SQLite native; the MSSQL ROW_NUMBER wrapper, which is an ordinary SELECT) and checks the translated structure / compiled
   text of the rest against these forms, values included.                                                                         *)
EXTENDS Integers, Sequences, FiniteSets, TLC, Json
CONSTANTS MaxRows,     \* rows in the ordered result: 0..MaxRows
          MaxN,        \* limit / offset values 0..MaxN (and None)
          MaxKey       \* sort keys 1..MaxKey (non-decreasing along the order: ties)

None == -1
Args == {None} \cup 0..MaxN
Min2(a, b) == IF a < b THEN a ELSE b
Max2(a, b) == IF a > b THEN a ELSE b
ToSet(q) == {q[i] : i \in 1..Len(q)}
\* non-decreasing key assignments = ordered results with ties
KeySeqs == UNION {{k \in [1..n -> 1..MaxKey] : \A i \in 1..(n - 1) : k[i] <= k[i + 1]} : n \in 0..MaxRows}
VARIABLES keys, lim, off, out
vars == <<keys, lim, off, out>>
N == Len(keys)
R == [i \in 1..N |-> i]                       \* the fully ordered result: row ids in order

\* ================================================================ declarative side
Off0(o) == IF o = None THEN 0 ELSE o
Slice(rows, l, o) == LET a == Off0(o)
                         b == IF l = None THEN Len(rows) ELSE Min2(Len(rows), a + l) IN
                     SubSeq(rows, a + 1, b)
WithTies(rows, l, o) ==
  LET s == Slice(rows, l, o) IN
  IF s = <<>> \/ l = None THEN s
  ELSE LET last == s[Len(s)]
           endpos == Off0(o) + Len(s)
           more == {j \in (endpos + 1)..Len(rows) : \A i \in (endpos + 1)..j : keys[rows[i]] = keys[last]} IN
       SubSeq(rows, Off0(o) + 1, endpos + Cardinality(more))
CeilDiv(a, b) == (a + b - 1) \div b
Percent(rows, p, o) == LET rest == Len(rows) - Min2(Off0(o), Len(rows)) IN Slice(rows, CeilDiv(p * rest, 100), o)

\* ================================================================ the renderings and their meaning
LimitOffsetForm(rows, L, O) == SubSeq(rows, O + 1, IF L < 0 THEN Len(rows) ELSE Min2(Len(rows), O + L))
BIG == -2                                    \* stands for 18446744073709551615
MySqlCommaForm(rows, a, b) == SubSeq(rows, a + 1, IF b = BIG THEN Len(rows) ELSE Min2(Len(rows), a + b))
OffsetFetchForm(rows, o, n) == SubSeq(rows, o + 1, IF n = None THEN Len(rows) ELSE Min2(Len(rows), o + n))
TopForm(rows, n) == SubSeq(rows, 1, Min2(Len(rows), n))
\* ROW_NUMBER() OVER (ORDER BY ...) numbers the rows of the ordered result 1..n; the outer WHERE keeps a SET of them
RowNumberSet(rows, l, o) == {rows[rn] : rn \in {rn \in 1..Len(rows) : /\ (o # None => rn > o)
                                                                        /\ (l # None => rn <= l + Off0(o))}}
\* ... emitted in rn order (what a backend does that evaluates the outer WHERE while scanning the numbered subquery)
RowNumberList(rows, l, o) == SelectSeq(rows, LAMBDA r : r \in RowNumberSet(rows, l, o))
\* Oracle ROWNUM: scanning the input in order, a row passes if Pred(next number) and only then consumes the number
\* predicate  lo < ROWNUM /\ ROWNUM <= hi  (None = no bound)
RnPred(n, lo, hi) == (lo = None \/ n > lo) /\ (hi = None \/ n <= hi)
RECURSIVE RownumFilter(_, _, _, _)
RownumFilter(rows, lo, hi, next) ==        \* -> sequence of <<row, rownum>>
  IF rows = <<>> THEN <<>>
  ELSE IF RnPred(next, lo, hi) THEN << <<Head(rows), next>> >> \o RownumFilter(Tail(rows), lo, hi, next + 1)
  ELSE RownumFilter(Tail(rows), lo, hi, next)
RownumForm(rows, l, o) ==
  LET maxrow == IF l = None THEN None ELSE l + Off0(o)
      lvl2 == RownumFilter(rows, None, maxrow, 1)                                        \* SELECT .., ROWNUM AS ora_rn FROM (ordered) WHERE ROWNUM <= max
      lvl3 == SelectSeq(lvl2, LAMBDA pr : o = None \/ pr[2] > o) IN                      \* WHERE ora_rn > off
  [i \in 1..Len(lvl3) |-> lvl3[i][1]]
RownumNaive(rows, l, o) ==                   \* WHERE ROWNUM > off AND ROWNUM <= lim + off  at ONE level: what the emulation must avoid
  LET f == RownumFilter(rows, o, IF l = None THEN None ELSE l + Off0(o), 1) IN
  [i \in 1..Len(f) |-> f[i][1]]

\* ---- what each dialect has to write for (lim, off): the arguments of its form
SqliteArgs == [L |-> IF lim = None THEN -1 ELSE lim, O |-> Off0(off)]                     \* LIMIT L OFFSET O, always both
PgArgs == [L |-> IF lim = None THEN -1 ELSE lim, O |-> off]                               \* LIMIT L | LIMIT ALL, OFFSET only if given
MySqlArgs == IF off = None THEN [a |-> None, b |-> lim] ELSE [a |-> off, b |-> IF lim = None THEN BIG ELSE lim]
OffsetFetchArgs == [o |-> Off0(off), n |-> lim]
UsesTop == off = None /\ lim # None                                                      \* MSSQL: TOP n iff no offset
Sem(form, a) == CASE form = "sqlite" -> LimitOffsetForm(R, a.L, a.O)
                  [] form = "pg" -> LimitOffsetForm(R, a.L, Off0(a.O))
                  [] form = "mysql" -> IF a.a = None THEN TopForm(R, a.b) ELSE MySqlCommaForm(R, a.a, a.b)
                  [] form = "offset_fetch" -> OffsetFetchForm(R, a.o, a.n)
                  [] form = "top" -> TopForm(R, a)

Applicable == lim # None \/ off # None
Init == /\ keys \in KeySeqs /\ lim \in Args /\ off \in Args
        /\ out = [keys |-> keys, lim |-> lim, off |-> off, slice |-> Slice(R, lim, off),
                  ties |-> IF lim # None THEN WithTies(R, lim, off) ELSE <<>>,
                  pct50 |-> Percent(R, 50, off),
                  sqlite |-> SqliteArgs, pg |-> PgArgs, mysql |-> MySqlArgs, offset_fetch |-> OffsetFetchArgs, top |-> UsesTop,
                  wrapper |-> RowNumberList(R, lim, off)]
        /\ PrintT(ToJson(out))
Next == UNCHANGED vars

\* ================================================================ theorems
FormsOK == Applicable =>
   /\ Sem("sqlite", SqliteArgs) = Slice(R, lim, off)
   /\ Sem("pg", PgArgs) = Slice(R, lim, off)
   /\ Sem("mysql", MySqlArgs) = Slice(R, lim, off)
   /\ Sem("offset_fetch", OffsetFetchArgs) = Slice(R, lim, off)
   /\ (UsesTop => Sem("top", lim) = Slice(R, lim, off))
WrapperOK == Applicable =>
   /\ RowNumberSet(R, lim, off) = ToSet(Slice(R, lim, off))
   /\ RowNumberList(R, lim, off) = Slice(R, lim, off)
RownumOK == Applicable => RownumForm(R, lim, off) = Slice(R, lim, off)
\* non-vacuity of the ROWNUM model: the one-level form is wrong whenever rows should be skipped
NaiveBreaks == (off # None /\ off > 0 /\ N > off /\ (lim = None \/ lim > 0)) => RownumNaive(R, lim, off) # Slice(R, lim, off)
SliceSane == /\ Len(out.slice) <= (IF lim = None THEN N ELSE lim)
             /\ \A i \in 1..Len(out.slice) : out.slice[i] = Off0(off) + i
             /\ (lim = None => Len(out.slice) = Max2(N - Off0(off), 0))
TiesOK == lim # None =>
   LET t == out.ties s == out.slice IN
   /\ SubSeq(t, 1, Len(s)) = s
   /\ \A i \in (Len(s) + 1)..Len(t) : keys[t[i]] = keys[s[Len(s)]]
   /\ ((s # <<>> /\ Len(s) = lim /\ Off0(off) + Len(t) < N) => keys[R[Off0(off) + Len(t) + 1]] # keys[s[Len(s)]])
PercentOK == /\ Percent(R, 100, off) = Slice(R, None, off)
             /\ Percent(R, 0, off) = <<>>
             /\ Len(out.pct50) * 2 >= Len(Slice(R, None, off)) /\ (Len(out.pct50) - 1) * 2 < Max2(Len(Slice(R, None, off)), 1)
=============================================================================
