---------------------------- MODULE TraceScoped ----------------------------
(* code -> spec: traces of the REAL scoped_session recorded under line-level schedules of the baton scheduler
   (checks/scoped_sched.py) are validated against Scoped.tla - all traces of a file in ONE TLC run (-workers 1: the progress
   register TLCSet(1) is per worker).
   Every scheduler step of thread t is one event (consecutive steps of one thread that change nothing observable are merged);
   it must be explained by a stutter or by actions of t (Catchup* then Consume) after which the state shows exactly the logged
   observation (registry entry of every scope, set of closed sessions, number of sessions created).  `call` events start the named operation, `ret` events must find the thread at the end of that operation returning
   exactly the logged session number / "ok" / exception class.  The invariants of Scoped.tla are evaluated on every state on
   the way. *)
EXTENDS Scoped, IOUtils
\* one flat sequence of events for ALL traces; an event of kind "new" starts a trace and carries its configuration
Ev == JsonDeserialize(IOEnv.TRACE_FILE)
N == Len(Ev)
VARIABLES l
tvars == <<vars, l>>
TView == <<View, l>>
E == Ev[l]
Live == l <= N
CfgOf(e) == [kind |-> e.kind, sc |-> [t \in Threads |-> e.sc[t]]]
ObsIs(o) == /\ R'.reg = [s \in Scopes |-> o.reg[s]]
            /\ R'.closed = {o.closed[i] : i \in 1..Len(o.closed)}
            /\ R'.n = o.n
Consume(t) == /\ Live /\ E.t = t
              /\ CASE E.k = "call" -> Start(t, E.op)
                   [] E.k = "run" -> (UNCHANGED vars \/ Internal(t))
                   [] E.k = "ret" -> (Ret(t) /\ last'.op = E.op /\ last'.ret = E.res)
                   [] OTHER -> FALSE
              /\ ObsIs(E.o)
              /\ l' = l + 1
\* further actions of the event's thread inside the same scheduler step (one source line can hold several of them: e.g.
\* `self.registry().close()` returning into the caller); the observation is compared after the last one (Consume)
Catchup(t) == /\ Live /\ E.t = t /\ E.k # "call" /\ Internal(t) /\ UNCHANGED l
NewTrace == /\ Live /\ E.k = "new" /\ l' = l + 1
            /\ K' = CfgOf(E) /\ R' = R0 /\ T' = T0 /\ H' = H0 /\ last' = [a |-> "init", t |-> 0, op |-> "-", ret |-> "-"]
TInit == InitWith(CfgOf(Ev[1])) /\ l = 2 /\ TLCSet(1, 2)
TNext == (\E t \in Threads : Consume(t) \/ Catchup(t)) \/ NewTrace
TSpec == TInit /\ [][TNext]_tvars
Progress == TLCSet(1, IF TLCGet(1) >= l THEN TLCGet(1) ELSE l)
AllAccepted == LET p == TLCGet(1) IN
   IF p = N + 1 THEN TRUE
   ELSE (PrintT(<<"REJECTED trace", Ev[p].tr, "at event", Ev[p].n, Ev[p]>>) /\ FALSE)
=============================================================================
