---------------------------- MODULE PoolSeq ----------------------------
(* Sequential version of Pool.tla for FAULT SEQUENCES (C26): one caller, every public operation of the pool is one
   action, and every DBAPI call the pool makes inside it (connect, ping, rollback/commit, close) is an environment
   choice ok | fail; so is the outcome of a `checkout` event listener (ok | DisconnectionError | InvalidatePoolError |
   other exception).  Transcribed from the validated mirror of DESIGN Appendix H (pool/base.py: _ConnectionRecord.checkout,
   get_connection, _checkin_failed, _ConnectionFairy._checkout two-attempt loop, _finalize_fairy, invalidate,
   Pool._invalidate; pool/impl.py: _do_get / _do_return_conn of QueuePool, NullPool, StaticPool, SingletonThreadPool).
   Operations are functions  state -> SET of outcomes  (one outcome per fault path); `last` carries the label of the edge:
   the fault plan (one boolean per DBAPI call, in call order), the listener outcomes, the expected result, the connection id
   handed out and the exact sequence of DBAPI calls.
   Records are VALUES that live either in the queue, in the single slot `cur` (StaticPool / SingletonThreadPool) or in the handle
   that has them checked out.  Time: only the ORDER of stored time.time() values matters (every call yields a fresh larger
   value - the code's documented assumption); stamps are renormalised to ranks after every operation; recycle-by-age is the
   flag `old` set by Sleep (virtual clock jumps past pool_recycle).
   Exceptions that escape the pool: a BaseException from the DBAPI (close of an overflow connection returned to a full queue;
   rollback/commit of reset-on-return) and a raising `close` listener propagate to the caller AFTER the bookkeeping (`exc`).
   Ghost variables (not in the code): `stale` = open connections that must never be handed out again (soft-invalidated, alive at
   a pool invalidation, aged past recycle); `abandoned` = connections the pool lets go of without closing (named deviations,
   see notes/Pool.md: asyncio GC clean-up, StaticPool replacing a soft/pool-invalidated record).                              *)
EXTENDS Integers, Sequences, FiniteSets, TLC, Json
CONSTANTS Kind,        \* "queue" | "null" | "static" | "singleton"
          Size, MaxO,  \* pool_size, max_overflow (9 = unlimited)
          Lifo, PrePing, Recycle, ResetOn,   \* ResetOn: "rollback" | "commit" | "none"
          Async,       \* dialect.is_async: GC clean-up detaches instead of resetting
          CkEvents,    \* set of outcomes a checkout listener may produce ({} = no listener)
          FaultCalls,  \* DBAPI calls that may fail with an ordinary Exception: subset of {"connect","ping","rollback","commit","close"}
          BaseFaults,  \* sites where the DBAPI call may raise a BaseException that is NOT an Exception (KeyboardInterrupt,
                       \* asyncio.CancelledError, a gevent Timeout): subset of {"fullclose", "reset"}
                       \*   "fullclose" = close() of an overflow connection returned to a FULL queue (QueuePool._do_return_conn)
                       \*   "reset"     = rollback()/commit() of reset-on-return (_finalize_fairy)
          CloseListener, \* a `close` pool-event listener is registered; it is called before every DBAPI close() (call "lclose")
                       \* and may RAISE at the "fullclose" site
          MaxH, MaxLive, MaxConn, MaxDepth
VARIABLES st, last
vars == <<st, last>>
Unlimited == MaxO = 9
R0 == [conn |-> 0, start |-> 0, soft |-> 0, fresh |-> FALSE, old |-> FALSE]
NoRec == [conn |-> 0 - 1, start |-> 0, soft |-> 0, fresh |-> FALSE, old |-> FALSE]
InitSt == [q |-> <<>>, overflow |-> 0 - Size, cur |-> NoRec, inv |-> 0, nconn |-> 0, open |-> {}, stale |-> {}, abandoned |-> {},
           hs |-> <<>>]
Bind(S, F(_)) == UNION {F(x) : x \in S}
Max(S) == IF S = {} THEN 0 ELSE CHOOSE x \in S : \A y \in S : y <= x

\* ------------------------------------------------------------------ stamps
LiveH(s) == {i \in 1..Len(s.hs) : s.hs[i].live}
RecsOf(s) == {s.q[i] : i \in 1..Len(s.q)} \cup {s.hs[i].rec : i \in LiveH(s)} \cup (IF s.cur = NoRec THEN {} ELSE {s.cur})
Stamps(s) == ({s.inv} \cup {r.start : r \in RecsOf(s)} \cup {r.soft : r \in RecsOf(s)}) \ {0}
Rank(v, S) == IF v = 0 THEN 0 ELSE Cardinality({x \in S : x <= v})
NormRec(r, S) == IF r = NoRec THEN r ELSE [r EXCEPT !.start = Rank(@, S), !.soft = Rank(@, S)]
Norm(s) == LET S == Stamps(s) IN
   [s EXCEPT !.inv = Rank(@, S), !.cur = NormRec(@, S), !.stale = @ \cap s.open,
             !.q = [i \in 1..Len(s.q) |-> NormRec(s.q[i], S)],
             !.hs = [i \in 1..Len(s.hs) |-> IF s.hs[i].live THEN [s.hs[i] EXCEPT !.rec = NormRec(@, S)] ELSE [s.hs[i] EXCEPT !.rec = R0]]]

\* ------------------------------------------------------------------ the working record of one operation
\* exc: exception that escapes from the operation AFTER the pool finished its bookkeeping ("none" | "Base" | "Error")
W0(s) == [s |-> s, plan |-> <<>>, calls |-> <<>>, evs |-> <<>>, now |-> Max(Stamps(s)) + 1, exc |-> "none"]
\* one DBAPI call: the environment decides (every call is recorded in `plan`, also those that cannot fail in this configuration).
\* plan entries: "ok" | "fail" (ordinary Exception) | "base" (BaseException that is not an Exception) | "raise" (listener raises)
Did(w, name, how) == [w EXCEPT !.calls = Append(@, name), !.plan = Append(@, how)]
Call(w, name) == {[w |-> Did(w, name, "ok"), f |-> FALSE]} \cup
                 (IF name \in FaultCalls THEN {[w |-> Did(w, name, "fail"), f |-> TRUE]} ELSE {})
\* the `close` event listener runs first in _ConnectionRecord.__close
Pre(w) == IF CloseListener THEN Did(w, "lclose", "ok") ELSE w
\* _ConnectionRecord.__connect: starttime is stamped before the creator is called
Connect(w, r) == Bind(Call(w, "connect"), LAMBDA x :
   LET t == x.w.now
       w2 == [x.w EXCEPT !.now = @ + 1] IN
   IF x.f THEN {[w |-> w2, r |-> [r EXCEPT !.conn = 0, !.start = t], ok |-> FALSE]}
   ELSE LET c == w2.s.nconn + 1 IN
        {[w |-> [w2 EXCEPT !.s.nconn = c, !.s.open = @ \cup {c}],
          r |-> [conn |-> c, start |-> t, soft |-> r.soft, fresh |-> PrePing, old |-> FALSE], ok |-> TRUE]})
\* _ConnectionRecord.__close: a failing close() is swallowed, the connection is gone either way
CloseConn(w, r) == {[w |-> [x.w EXCEPT !.s.open = @ \ {r.conn}], r |-> [r EXCEPT !.conn = 0]] : x \in Call(Pre(w), "close")}
\* record.close() in the `Full` branch of QueuePool._do_return_conn.  Besides the swallowed outcomes, the call can raise OUT of
\* record.close(): a BaseException from the DBAPI close() (Pool._close_connection swallows only Exception; the connection is gone
\* all the same), or any exception from the `close` listener (then the DBAPI close() is never reached: the connection stays open and
\* nobody refers to it any more - `abandoned`).  Either way the `finally: self._dec_overflow()` must still run (DoReturn).
CloseFull(w, r) ==
   {[w |-> c.w, exc |-> "none"] : c \in CloseConn(w, r)}
   \cup (IF "fullclose" \in BaseFaults
         THEN {[w |-> [Did(Pre(w), "close", "base") EXCEPT !.s.open = @ \ {r.conn}], exc |-> "Base"]} ELSE {})
   \cup (IF CloseListener
         THEN {[w |-> [Did(w, "lclose", "raise") EXCEPT !.s.abandoned = @ \cup {r.conn}, !.s.stale = @ \ {r.conn}], exc |-> "Error"]} ELSE {})
\* _ConnectionRecord.invalidate
InvalidateRec(w, r, soft) ==
   IF r.conn = 0 THEN {[w |-> w, r |-> r]}
   ELSE IF soft THEN {[w |-> [w EXCEPT !.now = @ + 1, !.s.stale = @ \cup {r.conn}], r |-> [r EXCEPT !.soft = w.now]]}
   ELSE CloseConn(w, r)
\* _ConnectionRecord.get_connection
GetConnection(w, r) ==
   IF r.conn = 0 THEN Connect(w, r)
   ELSE IF (Recycle /\ r.old) \/ w.s.inv > r.start \/ r.soft > r.start
        THEN Bind(CloseConn(w, r), LAMBDA c : Connect(c.w, c.r))
        ELSE {[w |-> w, r |-> r, ok |-> TRUE]}
\* Pool._do_return_conn per class  -> set of w
DoReturn(w, r) ==
   CASE Kind = "queue" ->
          IF Len(w.s.q) < Size THEN {[w EXCEPT !.s.q = Append(@, r)]}
          ELSE {[c.w EXCEPT !.s.overflow = @ - 1, !.exc = IF c.exc # "none" THEN c.exc ELSE @] :
                   c \in (IF r.conn # 0 THEN CloseFull(w, r) ELSE {[w |-> w, exc |-> "none"]})}
     [] Kind = "null" -> {c.w : c \in (IF r.conn # 0 THEN CloseConn(w, r) ELSE {[w |-> w, r |-> r]})}
     [] OTHER -> {[w EXCEPT !.s.cur = r]}
\* Pool._do_get per class  -> set of [w, r, err]
NewRec(w) == {[w |-> c.w, r |-> c.r, err |-> IF c.ok THEN "none" ELSE "Error"] : c \in Connect(w, R0)}
DoGet(w) ==
   CASE Kind = "queue" ->
          IF w.s.q # <<>>
          THEN LET n == Len(w.s.q) IN
               IF Lifo THEN {[w |-> [w EXCEPT !.s.q = SubSeq(@, 1, n - 1)], r |-> w.s.q[n], err |-> "none"]}
                       ELSE {[w |-> [w EXCEPT !.s.q = Tail(@)], r |-> Head(w.s.q), err |-> "none"]}
          ELSE IF ~Unlimited /\ w.s.overflow >= MaxO THEN {[w |-> w, r |-> R0, err |-> "TimeoutError"]}
          ELSE {IF g.err = "none" THEN g ELSE [g EXCEPT !.w.s.overflow = @ - 1] : g \in NewRec([w EXCEPT !.s.overflow = @ + 1])}
     [] Kind = "null" -> NewRec(w)
     [] Kind = "static" ->
          IF w.s.cur = NoRec THEN NewRec(w)
          ELSE LET c == w.s.cur IN
               IF c.conn = 0 \/ w.s.inv > c.start \/ c.soft > c.start
               THEN \* del self.__dict__["connection"]: the old record is dropped as it is (named deviation: not closed)
                    NewRec([w EXCEPT !.s.cur = NoRec, !.s.abandoned = IF c.conn # 0 THEN @ \cup {c.conn} ELSE @])
               ELSE {[w |-> [w EXCEPT !.s.cur = NoRec], r |-> c, err |-> "none"]}
     [] OTHER -> \* singleton, one thread
          IF w.s.cur = NoRec THEN NewRec(w) ELSE {[w |-> [w EXCEPT !.s.cur = NoRec], r |-> w.s.cur, err |-> "none"]}

\* ------------------------------------------------------------------ results
Res(w, ret, conn) == [st |-> Norm(w.s), ret |-> ret, conn |-> conn, plan |-> w.plan, calls |-> w.calls, evs |-> w.evs]
HandOut(w, r) == Res([w EXCEPT !.s.hs = Append(@, [rec |-> r, live |-> TRUE, valid |-> TRUE, gone |-> FALSE])], "ok", r.conn)
\* invalidate the record and give it back: _checkin_failed / exhausted attempts
GiveBack(w, r, ret) == Bind(InvalidateRec(w, r, FALSE), LAMBDA i : {Res(x, ret, 0) : x \in DoReturn(i.w, i.r)})
\* _ConnectionFairy._checkout: the two-attempt loop (pre-ping of non-fresh connections, checkout listeners)
RECURSIVE Attempt(_, _, _)
Attempt(w, r, n) ==
   IF n = 0 THEN GiveBack(w, r, "InvalidRequestError")
   ELSE LET r1 == [r EXCEPT !.fresh = FALSE]
            pinged == IF PrePing /\ ~r.fresh THEN Call(w, "ping") ELSE {[w |-> w, f |-> FALSE]}
        IN Bind(pinged, LAMBDA p :
             LET outs == IF p.f THEN {"invpool"} ELSE IF CkEvents = {} THEN {"ok"} ELSE CkEvents IN
             Bind(outs, LAMBDA o :
               LET w1 == IF ~p.f /\ CkEvents # {} THEN [p.w EXCEPT !.evs = Append(@, o)] ELSE p.w IN
               IF o = "ok" THEN {HandOut(w1, r1)}
               ELSE IF o = "err" THEN GiveBack(w1, r1, "Error")
               ELSE Bind(InvalidateRec(w1, r1, FALSE), LAMBDA i :
                      LET wi == IF o = "invpool" /\ i.w.s.inv < r1.start
                                THEN [i.w EXCEPT !.s.inv = i.w.now, !.now = @ + 1, !.s.stale = @ \cup i.w.s.open]
                                ELSE i.w
                      IN Bind(GetConnection(wi, i.r), LAMBDA g :
                           IF ~g.ok THEN GiveBack(g.w, g.r, "Error") ELSE Attempt(g.w, g.r, n - 1)))))
DoCheckout(s) ==
   Bind(DoGet(W0(s)), LAMBDA g :
     IF g.err # "none" THEN {Res(g.w, g.err, 0)}
     ELSE Bind(GetConnection(g.w, g.r), LAMBDA c :
            IF ~c.ok THEN GiveBack(c.w, c.r, "Error")
            ELSE IF ~PrePing /\ CkEvents = {} THEN {HandOut(c.w, c.r)}
            ELSE Attempt(c.w, c.r, 2)))
Dead(w, h) == [w EXCEPT !.s.hs[h].live = FALSE, !.s.hs[h].valid = FALSE]
\* fairy.close() / the weakref callback of a dropped fairy: reset-on-return, then check-in
\* An exception that escapes (w.exc) reaches the caller of close(); inside the weakref callback of a dropped fairy it is
\* "unraisable".  The caller's fairy object is then in no defined state: the handle is given up (`gone`).
Fin(x, h, how) == IF x.exc = "none" THEN Res(x, "ok", 0)
                  ELSE Res([x EXCEPT !.s.hs[h].gone = TRUE], IF how = "drop" THEN "unraisable" ELSE x.exc, 0)
Release(w, h, how) ==
   LET r == w.s.hs[h].rec
       d == Dead(w, h) IN
   IF ResetOn = "none" THEN {Fin(x, h, how) : x \in DoReturn(d, r)}
   ELSE LET resets == Call(d, ResetOn) \cup
                      \* _finalize_fairy: a BaseException during reset invalidates the record, checks it in, and is re-raised
                      (IF "reset" \in BaseFaults THEN {[w |-> [Did(d, ResetOn, "base") EXCEPT !.exc = "Base"], f |-> TRUE]} ELSE {})
        IN Bind(resets, LAMBDA x :
             IF x.f THEN Bind(InvalidateRec(x.w, r, FALSE), LAMBDA i : {Fin(y, h, how) : y \in DoReturn(i.w, i.r)})
             ELSE {Fin(y, h, how) : y \in DoReturn(x.w, r)})
DoClose(s, h) == IF s.hs[h].live THEN Release(W0(s), h, "close") ELSE {Res(W0(s), "ok", 0)}
\* garbage-collected checkout.  asyncio dialects cannot touch the connection from the GC: the record is detached and returned
\* empty, the connection is dropped WITHOUT close (documented warning) - named deviation `abandoned`
DoDrop(s, h) ==
   LET w == [W0(s) EXCEPT !.s.hs[h].gone = TRUE] r == s.hs[h].rec IN
   IF ~Async THEN Release(w, h, "drop")
   ELSE {Res(x, "ok", 0) : x \in DoReturn([Dead(w, h) EXCEPT !.s.abandoned = @ \cup {r.conn}, !.s.stale = @ \ {r.conn}], [r EXCEPT !.conn = 0])}
DoInvalidate(s, h, soft) ==
   LET w == W0(s) r == s.hs[h].rec IN
   IF ~s.hs[h].live THEN {Res(w, "warn", 0)}
   ELSE IF soft THEN {Res([i.w EXCEPT !.s.hs[h].rec = i.r], "ok", 0) : i \in InvalidateRec(w, r, TRUE)}
   ELSE Bind(InvalidateRec(Dead(w, h), r, FALSE), LAMBDA i : {Res(x, "ok", 0) : x \in DoReturn(i.w, i.r)})
\* Pool._invalidate(fairy): stamp the pool unless this connection's generation is already invalidated; then invalidate it
DoPoolInvalidate(s, h) ==
   LET w == W0(s) r == s.hs[h].rec
       w1 == IF s.inv < r.start THEN [w EXCEPT !.s.inv = w.now, !.now = @ + 1, !.s.stale = @ \cup s.open] ELSE w
   IN Bind(InvalidateRec(Dead(w1, h), r, FALSE), LAMBDA i : {Res(x, "ok", 0) : x \in DoReturn(i.w, i.r)})
\* the virtual clock jumps past pool_recycle: every existing connection is now too old
Age(r) == IF r = NoRec \/ r.conn = 0 THEN r ELSE [r EXCEPT !.old = TRUE]
DoSleep(s) == [s EXCEPT !.stale = @ \cup s.open, !.cur = Age(@), !.q = [i \in 1..Len(s.q) |-> Age(s.q[i])],
                        !.hs = [i \in 1..Len(s.hs) |-> IF s.hs[i].live THEN [s.hs[i] EXCEPT !.rec = Age(@)] ELSE s.hs[i]]]

\* ------------------------------------------------------------------ actions
Lab(a, h, soft, res) == last' = [a |-> a, h |-> h, soft |-> soft, ret |-> res.ret, conn |-> res.conn, plan |-> res.plan,
                                 calls |-> res.calls, evs |-> res.evs]
Checkout == /\ Len(st.hs) < MaxH /\ Cardinality(LiveH(st)) < MaxLive /\ st.nconn + 3 <= MaxConn
            /\ \E res \in DoCheckout(st) : st' = res.st /\ Lab("Checkout", 0, FALSE, res)
Usable(s) == {i \in 1..Len(s.hs) : ~s.hs[i].gone}      \* handles the caller still has a reference to
Close == \E h \in Usable(st) : \E res \in DoClose(st, h) : st' = res.st /\ Lab("Close", h, FALSE, res)
Drop == \E h \in LiveH(st) : \E res \in DoDrop(st, h) : st' = res.st /\ Lab("Drop", h, FALSE, res)
Invalidate == \E h \in Usable(st), soft \in BOOLEAN : \E res \in DoInvalidate(st, h, soft) : st' = res.st /\ Lab("Invalidate", h, soft, res)
PoolInvalidate == \E h \in LiveH(st) : \E res \in DoPoolInvalidate(st, h) : st' = res.st /\ Lab("PoolInvalidate", h, FALSE, res)
Sleep == /\ Recycle /\ \E r \in RecsOf(st) : r.conn > 0 /\ ~r.old
         /\ st' = DoSleep(st)
         /\ last' = [a |-> "Sleep", h |-> 0, soft |-> FALSE, ret |-> "ok", conn |-> 0, plan |-> <<>>, calls |-> <<>>, evs |-> <<>>]
Init == st = InitSt /\ last = [a |-> "init", h |-> 0, soft |-> FALSE, ret |-> "ok", conn |-> 0, plan |-> <<>>, calls |-> <<>>, evs |-> <<>>]
Next == Checkout \/ Close \/ Drop \/ Invalidate \/ PoolInvalidate \/ Sleep
Spec == Init /\ [][Next]_vars
View == st
Depth == TLCGet("level") <= MaxDepth

\* ------------------------------------------------------------------ what the real pool must show after every step
IsQueue == Kind = "queue"
IdleConns(s) == ({s.q[i].conn : i \in 1..Len(s.q)} \cup (IF s.cur = NoRec THEN {} ELSE {s.cur.conn})) \ {0}
HeldConns(s) == {s.hs[i].rec.conn : i \in LiveH(s)} \ {0}
CheckedOut(s) == Size - Len(s.q) + s.overflow
Obs(s) == [open |-> s.open, nconn |-> s.nconn, live |-> Cardinality(LiveH(s)), idle |-> IdleConns(s),
           checkedout |-> IF IsQueue THEN CheckedOut(s) ELSE 0, checkedin |-> IF IsQueue THEN Len(s.q) ELSE 0,
           overflow |-> IF IsQueue THEN s.overflow ELSE 0, abandoned |-> s.abandoned]
Emit == PrintT(ToJson([from |-> st, act |-> last', to |-> st', obs |-> Obs(st')]))
InitEmit == Init /\ PrintT(ToJson([init |-> st]))

\* ------------------------------------------------------------------ C26
\* once every holder has released: zero checked out; every connection the pool opened is idle in the pool or closed
NoLeak == (LiveH(st) = {}) => ((IsQueue => CheckedOut(st) = 0) /\ st.open = IdleConns(st) \cup st.abandoned)
\* at every state: every open connection is accounted for - idle, held by a live checkout, or a named deviation
LedgerOK == st.open = IdleConns(st) \cup HeldConns(st) \cup st.abandoned
\* the deviations occur only where they are documented
AbandonedOnlyDocumented == st.abandoned # {} => (Async \/ Kind = "static" \/ CloseListener)
CountOK == IsQueue => CheckedOut(st) = Cardinality(LiveH(st))
OpenBound == (IsQueue /\ ~Unlimited) => Cardinality(st.open \ st.abandoned) <= Size + MaxO
IdleBound == IsQueue => Len(st.q) <= Size
\* no connection sits twice in the pool / in the pool and in a checkout (queue and null pools)
Distinct == LET cs == [i \in 1..Len(st.q) |-> st.q[i].conn] IN
            /\ \A i, j \in 1..Len(st.q) : (i # j /\ cs[i] # 0) => cs[i] # cs[j]
            /\ \A i, j \in LiveH(st) : i # j => st.hs[i].rec.conn # st.hs[j].rec.conn
            /\ IdleConns(st) \cap HeldConns(st) = {}
\* no stale connection is handed out: the connection a checkout returns is open, not soft-invalidated, not alive at a pool
\* invalidation, not older than pool_recycle
NoStale == [][(last'.a = "Checkout" /\ last'.ret = "ok") => (last'.conn \in st'.open /\ last'.conn \notin st'.stale /\ last'.conn \notin st.stale
                                                              /\ last'.conn \notin st'.abandoned)]_vars
\* a failed checkout leaves no checkout behind; a checkout that fails has a reason the environment gave it
FailedCheckoutClean == [][(last'.a = "Checkout" /\ last'.ret # "ok") => Len(st'.hs) = Len(st.hs)]_vars
NoSpuriousError == [][(last'.a = "Checkout" /\ last'.ret \in {"Error", "InvalidRequestError"}) =>
                        ((\E i \in 1..Len(last'.plan) : last'.plan[i] # "ok") \/ (\E i \in 1..Len(last'.evs) : last'.evs[i] # "ok"))]_vars
\* releasing a checkout raises only if the environment made something raise out of the pool, and it never keeps the slot:
\* whatever close()/drop reports, the checkout is gone from the books (CountOK / NoLeak then say the counter was decremented)
ReleaseRaisesOnlyInjected == [][(last'.a \in {"Close", "Drop"} /\ last'.ret \notin {"ok"}) =>
                                  (\E i \in 1..Len(last'.plan) : last'.plan[i] \in {"base", "raise"})]_vars
ReleaseAlwaysReleases == [][(last'.a \in {"Close", "Drop"}) => ~st'.hs[last'.h].live]_vars
TimeoutOnlyAtLimit == [][(last'.a = "Checkout" /\ last'.ret = "TimeoutError") =>
                          (IsQueue /\ ~Unlimited /\ st.q = <<>> /\ Cardinality(LiveH(st)) >= Size + MaxO)]_vars
=============================================================================
